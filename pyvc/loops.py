"""Loops (unrolling for concrete iterables, inductive invariants otherwise), with-statements, generators."""
import ast
from fractions import Fraction

import z3

from .values import (
    Ref, ListE, DictE, SetE, FrozenSetE, DictViewE, ObjE, SymListE, FuncVal, BoundMethod, ClassVal, BuiltinClass, ExcVal, Exc, Opaque,
    Unsupported, EngineError, is_z3, z3val, as_arith, is_intlike, is_reallike, is_boollike, Unknown,
)
from .heap import HeapSeq, HObj, obj_sort


class LoopInv:
    def __init__(self, inv, havoc=(), decreases=None, ghost_update=None, fresh=None):
        self.inv = [inv] if isinstance(inv, str) else list(inv)
        # "name" = local name; "a.b.c" = attribute c of the object a.b (object state changed by the body)
        self.havoc = [h for h in havoc if "." not in h]
        self.havoc_attrs = [h for h in havoc if "." in h]
        # names that are UNBOUND at loop entry and assigned in the body: {"name": "bool" | "int" | "real"}
        self.fresh = dict(fresh or {})
        self.decreases = decreases
        self.ghost_update = ghost_update
        self._parsed = None

    def parsed(self):
        if self._parsed is None:
            self._parsed = [ast.parse(s, mode="eval").body for s in self.inv]
        return self._parsed


def _M():
    from . import models

    return models


def assigned_names(stmts):
    out = []

    def tgt(t):
        if isinstance(t, ast.Name):
            if t.id not in out:
                out.append(t.id)
        elif isinstance(t, (ast.Tuple, ast.List)):
            for e in t.elts:
                tgt(e)
        elif isinstance(t, ast.Starred):
            tgt(t.value)

    for s in stmts:
        for n in ast.walk(s):
            if isinstance(n, ast.Assign):
                for t in n.targets:
                    tgt(t)
            elif isinstance(n, (ast.AugAssign, ast.AnnAssign)):
                tgt(n.target)
            elif isinstance(n, ast.For):
                tgt(n.target)
            elif isinstance(n, ast.NamedExpr):
                tgt(n.target)
            elif isinstance(n, ast.With):
                for it in n.items:
                    if it.optional_vars is not None:
                        tgt(it.optional_vars)
    return out


def mutated_names(stmts):
    """Names x with x.append/pop/... calls or x[...] = ... in the loop body."""
    out = []
    for s in stmts:
        for n in ast.walk(s):
            if isinstance(n, ast.Call) and isinstance(n.func, ast.Attribute) and isinstance(n.func.value, ast.Name):
                if n.func.attr in ("append", "pop", "insert", "remove", "extend", "clear", "sort", "reverse", "update", "add"):
                    if n.func.value.id not in out:
                        out.append(n.func.value.id)
            if isinstance(n, (ast.Assign, ast.AugAssign)):
                ts = n.targets if isinstance(n, ast.Assign) else [n.target]
                for t in ts:
                    if isinstance(t, ast.Subscript) and isinstance(t.value, ast.Name):
                        if t.value.id not in out:
                            out.append(t.value.id)
    return out


def havoc_value(I, st, v, hint):
    if isinstance(v, bool) or (is_z3(v) and z3.is_bool(v)):
        return I.fresh("bool", hint)
    if is_intlike(v):
        return I.fresh("int", hint)
    if is_reallike(v):
        return I.fresh("real", hint)
    if isinstance(v, tuple):
        return tuple(havoc_value(I, st, x, hint) for x in v)
    if isinstance(v, HObj):
        return HObj(I.fresh(obj_sort(), hint), v.cls)
    if v is None:
        return None
    if isinstance(v, Ref):
        e = st.get(v)
        if e.kind == "symlist":
            e.length = I.fresh("int", hint + "_len")
            e.arr = I.fresh(e.arr.sort(), hint + "_arr")
            st.pc.append(e.length >= 0)
            return v
        raise Unsupported("loop modifies container %s of concrete shape; cannot havoc" % hint)
    if isinstance(v, (str, FuncVal, ClassVal)):
        return v
    raise Unsupported("cannot havoc %r" % (v,))


def eval_spec(I, st, expr_ast, what):
    """Evaluate a specification expression (may fork internally; result merged into one formula)."""
    trial = st.fork()
    n0 = len(trial.pc)
    outs = list(I.ev(expr_ast, trial))
    if any(isinstance(v, Exc) for _, v in outs):
        raise Unsupported("%s raises" % what)
    if len(outs) == 1:
        s1, v = outs[0]
        for c in s1.pc[n0:]:
            st.pc.append(c)
        return I.truth(v, s1)
    parts = []
    for s1, v in outs:
        t = I.truth(v, s1)
        delta = s1.pc[n0:]
        parts.append(z3.And(*(delta + [z3val(t)])) if delta else z3val(t))
    return z3.Or(*parts)


def _same_val(a, b):
    if a is b:
        return True
    if is_z3(a) or is_z3(b):
        return is_z3(a) and is_z3(b) and a.eq(b)
    if isinstance(a, (tuple, list)) and isinstance(b, (tuple, list)):
        return type(a) is type(b) and len(a) == len(b) and all(_same_val(x, y) for x, y in zip(a, b))
    if isinstance(a, dict) and isinstance(b, dict):
        return list(a.keys()) == list(b.keys()) and all(_same_val(a[k], b[k]) for k in a)
    try:
        return type(a) is type(b) and bool(a == b)
    except Exception:
        return False


def _entry_sig(e):
    """contents of one store entry (for the frame check of invariant loops)"""
    if isinstance(e, SymListE):
        return (e.length, e.arr)
    if isinstance(e, ObjE):
        return dict(e.attrs)
    if isinstance(e, DictE):
        return dict(e.items)
    for a in ("items", "data"):
        if hasattr(e, a):
            return list(getattr(e, a))
    return None


def _frame_check(st_head, sig, heap0, st_after, allowed, tag, allowed_attrs=()):
    """An invariant loop havocs LOCAL NAMES only.  If the body changed an object / container that existed at the loop
    head (attribute store, list append, dict item, abstract heap field) the exit state would keep the stale entry
    value: refuse instead of continuing unsoundly."""
    for k, before in sig.items():
        if k in allowed or before is None:
            continue
        e = st_after.store.get(k)
        if e is None:
            continue
        after = _entry_sig(e)
        if isinstance(e, ObjE) and allowed_attrs:
            before = {a: x for a, x in before.items() if (k, a) not in allowed_attrs}
            after = {a: x for a, x in after.items() if (k, a) not in allowed_attrs}
        if not _same_val(before, after):
            raise Unsupported("%s: the loop body modifies object state that an invariant loop does not havoc (store entry %s of kind %s)"
                              % (tag, k, getattr(e, "kind", "?")))
    for f, arr in heap0.items():
        a1 = st_after.heap.get(f)
        if a1 is not None and not _same_val(arr, a1):
            raise Unsupported("%s: the loop body modifies heap field %s that an invariant loop does not havoc" % (tag, f))


def _kind_ok(v, kind):
    if kind == "bool":
        return is_boollike(v)
    if kind == "int":
        return is_intlike(v) and not is_boollike(v)
    if kind == "real":
        return is_reallike(v) or (is_intlike(v) and not is_boollike(v))
    return False


def run_invariant_loop(I, st, node, linv, qual, ordinal, head, after_body, body_stmts, orelse, pre_bind=None, auto_inv=None, counter=None):
    """Generic invariant-based loop.

    head(st)  -> iterable of (st, True|False|Exc): loop continues?   (may bind the loop variable)
    after_body(st) -> None: advance hidden counter
    pre_bind(st): bind names visible to the invariant (called before each invariant evaluation)
    """
    tag = "%s.loop%d" % (qual.split(":")[-1], ordinal)
    fr = st.frame
    was_harness = fr.is_harness

    def check_inv(s, kind):
        if pre_bind:
            pre_bind(s)
        if auto_inv is not None:
            I.oblige(s, auto_inv(s), "%s.autoinv" % tag, kind)
        for k, e in enumerate(linv.parsed()):
            t = eval_spec(I, s, e, "loop invariant")
            I.oblige(s, t if is_z3(t) else bool(t), "%s.inv%d" % (tag, k), kind)

    def assume_inv(s):
        if pre_bind:
            pre_bind(s)
        if auto_inv is not None:
            a = auto_inv(s)
            if is_z3(a):
                s.pc.append(a)
        for e in linv.parsed():
            t = eval_spec(I, s, e, "loop invariant")
            if is_z3(t):
                s.pc.append(t)
            elif not t:
                s.pc.append(z3.BoolVal(False))

    check_inv(st, "inv-init")
    names = assigned_names(body_stmts) + [n for n in mutated_names(body_stmts) if n not in assigned_names(body_stmts)]
    for n in linv.havoc:
        if n not in names:
            names.append(n)
    for n in names:
        if n in st.frame.vars:
            st.frame.vars[n] = havoc_value(I, st, st.frame.vars[n], n)
    if linv.ghost_update:
        linv.ghost_update(I, st, "havoc")
    # object state declared as changed by the body: "a.b.c" -> attribute c of the object a.b gets an arbitrary value
    allowed_attrs = set()
    for path in linv.havoc_attrs:
        prefix, attr = path.rsplit(".", 1)
        outs = list(I.ev(ast.parse(prefix, mode="eval").body, st))
        if len(outs) != 1 or not isinstance(outs[0][1], Ref) or st.get(outs[0][1]).kind != "obj":
            raise Unsupported("havoc path %s does not name an attribute of a plain object" % path)
        e = st.get(outs[0][1])
        if attr not in e.attrs:
            raise Unsupported("havoc path %s: no such instance attribute" % path)
        e.attrs[attr] = havoc_value(I, st, e.attrs[attr], path.replace(".", "_"))
        allowed_attrs.add((outs[0][1].id, attr))
    starts = [st]
    if linv.fresh:
        # names unbound at entry: after zero iterations still unbound, after >= 1 iterations an arbitrary value of the
        # declared kind (the kind is checked whenever the body completes)
        if counter is None:
            raise Unsupported("`fresh` names need a counted for-loop")
        cname, lo = counter
        for n in linv.fresh:
            if n in st.frame.vars:
                raise Unsupported("`fresh` name %s is already bound at loop entry" % n)
        zero = st.fork()
        zero.frame.vars[cname] = lo
        st.pc.append(z3val(st.frame.vars[cname]) > z3val(lo))
        for n, kind in linv.fresh.items():
            st.frame.vars[n] = I.fresh(kind, n)
        starts = [zero, st]
    for s0 in starts:
        assume_inv(s0)
    dec0 = None
    for st1, go in [x for s0 in starts for x in list(head(s0))]:
        if isinstance(go, Exc):
            yield st1, ("raise", go.exc)
            continue
        if not go:
            if orelse:
                yield from I.ex_block(orelse, st1)
            else:
                yield st1, None
            continue
        if linv.decreases:
            if pre_bind:
                pre_bind(st1)
            d0 = list(I.ev(ast.parse(linv.decreases, mode="eval").body, st1))[0][1]
        sig0 = {k: _entry_sig(e) for k, e in st1.store.items()}
        heap0 = dict(st1.heap)
        allowed = set()
        for n in names:
            v = st1.frame.vars.get(n)
            if isinstance(v, Ref) and st1.get(v).kind == "symlist":
                allowed.add(v.id)  # havocked above through its name
        for st2, ctrl in list(I.ex_block(body_stmts, st1)):
            if not linv.ghost_update:
                _frame_check(st1, sig0, heap0, st2, allowed, tag, allowed_attrs)
            if ctrl is None or ctrl[0] == "continue":
                for n, kind in linv.fresh.items():
                    if n not in st2.frame.vars or not _kind_ok(st2.frame.vars[n], kind):
                        raise Unsupported("`fresh` name %s is not a %s after the loop body" % (n, kind))
                after_body(st2)
                check_inv(st2, "inv-preserved")
                if linv.decreases:
                    if pre_bind:
                        pre_bind(st2)
                    d1 = list(I.ev(ast.parse(linv.decreases, mode="eval").body, st2))[0][1]
                    I.oblige(st2, z3.And(z3val(d0) >= 0, z3val(d1) < z3val(d0)), "%s.variant" % tag, "variant")
                # path ends: the invariant covers all later iterations
            elif ctrl[0] == "break":
                yield st2, None
            else:
                yield st2, ctrl


def exec_while(I, st, node):
    fr = st.frame
    fr.loopno += 1
    ordinal = fr.loopno
    qual = fr.func.qualname() if fr.func else I.cur_lemma
    linv = I.loop_invariants.get((qual, ordinal))
    if linv is not None:
        def head(s):
            for s1, c in list(I.ev(node.test, s)):
                if isinstance(c, Exc):
                    yield s1, c
                    continue
                for s2, b in I.branch(s1, I.truth(c, s1)):
                    yield s2, b

        yield from run_invariant_loop(I, st, node, linv, qual, ordinal, head, lambda s: None, node.body, node.orelse)
        return

    # no invariant: unroll while the condition is decided or finitely many iterations are feasible
    def step(s, n):
        if n > 64:
            raise Unsupported("while loop at line %d needs an invariant (unrolled 64 times)" % node.lineno)
        for s1, c in list(I.ev(node.test, s)):
            if isinstance(c, Exc):
                yield s1, ("raise", c.exc)
                continue
            for s2, b in I.branch(s1, I.truth(c, s1)):
                if not b:
                    if node.orelse:
                        yield from I.ex_block(node.orelse, s2)
                    else:
                        yield s2, None
                    continue
                for s3, ctrl in list(I.ex_block(node.body, s2)):
                    if ctrl is None or ctrl[0] == "continue":
                        yield from step(s3, n + 1)
                    elif ctrl[0] == "break":
                        yield s3, None
                    else:
                        yield s3, ctrl

    yield from step(st, 0)


def exec_for(I, st, node):
    M = _M()
    fr = st.frame
    fr.loopno += 1
    ordinal = fr.loopno
    qual = fr.func.qualname() if fr.func else I.cur_lemma
    for st1, it in list(I.ev(node.iter, st)):
        if isinstance(it, Exc):
            yield st1, ("raise", it.exc)
            continue
        if it is None or isinstance(it, (bool, int)):
            # for ... in None / in a number: TypeError
            from .ops import exc as _exc

            yield st1, ("raise", _exc("TypeError", "'%s' object is not iterable" % ("NoneType" if it is None else type(it).__name__)).exc)
            continue
        sym = symbolic_iter(I, st1, it)
        from .values import IterE

        if sym is None and isinstance(it, Ref) and isinstance(st1.get(it), IterE):
            # `for x in <iterator>`: every step takes the next item away from the iterator; `break` leaves the rest in it
            from .models import iterator_start

            iterator_start(I, st1, it)
            yield from unroll_once(I, st1, node, it, 0)
            continue
        if sym is None:
            live = live_list_ref(I, st1, it)
            if live is not None:
                # `for x in <list object>`: Python's list iterator reads the LIVE list by index at every step
                lazy_note(st1, live, st1.get(live).items)
                yield from unroll_live(I, st1, node, live, 0)
                continue
            if hashed_source(st1, it) is not None:
                # `for k in d` / `in d.items()` / `in a_set`: CPython's iterators read the live container and raise
                # RuntimeError when its size has changed since the loop began
                lazy_note(st1, it, _hashed_keys(st1, it))
                yield from unroll_hashed(I, st1, node, it, 0, _hashed_keys(st1, it))
                continue
            items, watch = iterate_watched(I, st1, it)
            if len(items) > 4000:
                raise Unsupported("loop over %d items" % len(items))
            yield from unroll_for(I, st1, node, items, 0, watch=watch)
            continue
        linv = I.loop_invariants.get((qual, ordinal))
        if linv is None and sym.get("kind") == "count" and isinstance(sym["lo"], int) and isinstance(sym["step"], int):
            # itertools.count(concrete start, concrete step) without invariant: the items are produced one by one for as
            # long as some path is still inside the loop (exact unrolling; Unsupported beyond MAX_COUNT_ITEMS)
            yield from unroll_count(I, st1, node, sym["lo"], sym["step"], qual, ordinal)
            continue
        if linv is None:
            raise Unsupported("for loop #%d of %s iterates a symbolic-length sequence and has no invariant" % (ordinal, qual))
        yield from invariant_for(I, st1, node, sym, linv, qual, ordinal)


# ---- lists changed while they are being iterated ---------------------------------------------------------------
# Python iterates a list by index over the live object; generators / generator expressions / iter() are lazy.  The
# engine evaluates the latter EAGERLY to a list (A3).  That is only faithful while no list the lazy iterator reads is
# changed before the consumer has finished: every list iterated during an eager evaluation is recorded (lazy_note) and
# the record is attached to the resulting list (lazy_end); a for loop / comprehension consuming such a list re-checks
# the record before every step (lazy_check) and raises Unsupported on a change - never a wrong verdict.
_REC = "__lazy_iter_rec__"


def live_list_ref(I, st, it):
    """the list entity a `for` over `it` walks by index, or None"""
    if not isinstance(it, Ref) or ("lazy_src", it.id) in st.ghost:
        return None
    e = st.get(it)
    if e.kind == "list" and type(e) is ListE:
        return it
    if e.kind == "obj" and "__list__" in e.attrs and I.class_lookup(e.cls, "__iter__")[0] is None:
        inner = e.attrs["__list__"]
        if isinstance(inner, Ref) and type(st.get(inner)) is ListE:
            return inner
    return None


_MARK = "__lazy_mark__"


def lazy_begin(st):
    """start of an eager evaluation of a lazy iterator; only containers that exist ALREADY (id <= mark) are recorded:
    what the evaluation allocates itself is private to it"""
    old = (st.ghost.get(_REC), st.ghost.get(_MARK))
    st.ghost[_REC] = ()
    st.ghost[_MARK] = st.nid[0]
    return old


def lazy_end(st, old, acc):
    old_rec, old_mark = old
    rec = st.ghost.get(_REC, ())
    if old_rec is None:
        st.ghost.pop(_REC, None)
        st.ghost.pop(_MARK, None)
    else:
        st.ghost[_REC] = old_rec + tuple(r for r in rec if r[0] <= old_mark)
        st.ghost[_MARK] = old_mark
    if rec and isinstance(acc, Ref):
        st.ghost[("lazy_src", acc.id)] = rec


def lazy_note(st, ref, items, own=True):
    """called for every list / dict / set that is iterated: remember it (and what an eager list iterated here itself
    depends on); own=False for a one-shot iterator: consuming it empties it, so only what it was computed from is watched"""
    deps = st.ghost.get(("lazy_src", ref.id), ())
    if _REC in st.ghost:
        mark = st.ghost.get(_MARK, 0)
        st.ghost[_REC] = st.ghost[_REC] + tuple(r for r in (((ref.id, tuple(items)),) if own else ()) + deps if r[0] <= mark)
    if deps:
        st.ghost["__last_lazy__"] = st.ghost.get("__last_lazy__", ()) + deps


def iterate_watched(I, st, it):
    """(items, record of the lists an eagerly evaluated lazy iterator among them was computed from)"""
    st.ghost.pop("__last_lazy__", None)
    items = I.iterate(it, st)
    return items, st.ghost.pop("__last_lazy__", None)


def _same_items(cur, snap):
    if len(cur) != len(snap):
        return False
    for a, b in zip(cur, snap):
        if a is b:
            continue
        if type(a) is type(b) and isinstance(a, (int, str, bool, float, Fraction, Ref)) and a == b:
            continue
        if type(a) is tuple and type(b) is tuple and _same_items(a, b):
            continue  # e.g. the (key, value) pairs of a d.items() view, rebuilt at every access
        return False
    return True


def hashed_source(st, it):
    """"dict" / "set" / "view" when `it` is a dictionary, a set or a dictionary view (iterated through a live, size-checking
    iterator in CPython), else None"""
    if not isinstance(it, Ref) or ("lazy_src", it.id) in st.ghost:
        return None
    e = st.get(it)
    if e.__class__ is DictViewE:
        return "view"
    if e.kind == "dict" and type(e) is DictE and e.owner is None:
        return "dict"
    if e.kind == "set" and type(e) in (SetE, FrozenSetE):
        return "set"
    return None


def _hashed_keys(st, it):
    """the current key sequence of the dictionary / set behind `it`"""
    e = st.get(it)
    if e.__class__ is DictViewE:
        return list(st.get(e.dref).items)
    return list(e.items)


def unroll_hashed(I, st, node, it, k, keys0):
    """`for x in <dict | dict view | set>`: at every step (also the one that would end the loop) CPython compares the
    container's size with the size at loop entry -> RuntimeError; the same size with other keys is `RuntimeError: keys
    changed` or an order that depends on the hash table (Unsupported).  Values are read live (d.items(), d.values())."""
    from .ops import exc as _exc

    while True:
        keys = _hashed_keys(st, it)
        if len(keys) != len(keys0):
            what = "Set" if st.get(it).kind == "set" else "dictionary"
            yield st, ("raise", _exc("RuntimeError", "%s changed size during iteration" % what).exc)
            return
        if not _same_items(keys, keys0):
            raise Unsupported("the keys of a dictionary / set are changed while it is being iterated")
        if k > 4000:
            raise Unsupported("loop over more than 4000 items")
        if k >= len(keys):
            if node.orelse:
                yield from I.ex_block(node.orelse, st)
            else:
                yield st, None
            return
        e = st.get(it)
        item = e.items[k] if e.kind != "dict" else keys[k]
        outs = list(I.assign(node.target, item, st))
        if len(outs) == 1 and not isinstance(outs[0][1], Exc):
            body = list(I.ex_block(node.body, outs[0][0]))
            if len(body) == 1 and (body[0][1] is None or body[0][1][0] == "continue"):
                st = body[0][0]
                k += 1
                continue
            yield from _hashed_rest(I, body, node, it, k, keys0)
            return
        for st1, r in outs:
            if isinstance(r, Exc):
                yield st1, ("raise", r.exc)
                continue
            yield from _hashed_rest(I, list(I.ex_block(node.body, st1)), node, it, k, keys0)
        return


def _hashed_rest(I, body, node, it, k, keys0):
    for st2, ctrl in body:
        if ctrl is None or ctrl[0] == "continue":
            yield from unroll_hashed(I, st2, node, it, k + 1, keys0)
        elif ctrl[0] == "break":
            yield st2, None
        else:
            yield st2, ctrl


def lazy_check(st, rec):
    for rid, snap in rec or ():
        e = st.get(Ref(rid)) if rid in st.store else None  # st.get: dictionary views are recomputed
        if e is None or not _same_items(list(e.items), snap):
            raise Unsupported("a list is changed while an eagerly evaluated lazy iterator (generator / iter()) over it is still being consumed")


def unroll_live(I, st, node, ref, k):
    """`for x in <list object>`: Python walks the LIVE list by index (a list changed by the body is seen changed)"""
    while True:
        items = st.get(ref).items
        if k > 4000:
            raise Unsupported("loop over more than 4000 items")
        if k >= len(items):
            if node.orelse:
                yield from I.ex_block(node.orelse, st)
            else:
                yield st, None
            return
        outs = list(I.assign(node.target, items[k], st))
        if len(outs) == 1 and not isinstance(outs[0][1], Exc):
            body = list(I.ex_block(node.body, outs[0][0]))
            if len(body) == 1 and (body[0][1] is None or body[0][1][0] == "continue"):
                st = body[0][0]
                k += 1
                continue
            yield from _live_rest(I, body, node, ref, k)
            return
        for st1, r in outs:
            if isinstance(r, Exc):
                yield st1, ("raise", r.exc)
                continue
            yield from _live_rest(I, list(I.ex_block(node.body, st1)), node, ref, k)
        return


def unroll_once(I, st, node, ref, k):
    """`for x in <iterator>` (see values.IterE): items are taken from the front of the iterator one by one"""
    while True:
        e = st.get(ref)
        if k > 4000:
            raise Unsupported("loop over more than 4000 items")
        if k > 0:
            lazy_check(st, st.ghost.get(("lazy_src", ref.id)))
        if not e.items:
            e.consumed = True
            if node.orelse:
                yield from I.ex_block(node.orelse, st)
            else:
                yield st, None
            return
        x = e.items.pop(0)
        outs = list(I.assign(node.target, x, st))
        if len(outs) == 1 and not isinstance(outs[0][1], Exc):
            body = list(I.ex_block(node.body, outs[0][0]))
            if len(body) == 1 and (body[0][1] is None or body[0][1][0] == "continue"):
                st = body[0][0]
                k += 1
                continue
            yield from _once_rest(I, body, node, ref, k)
            return
        for st1, r in outs:
            if isinstance(r, Exc):
                yield st1, ("raise", r.exc)
                continue
            yield from _once_rest(I, list(I.ex_block(node.body, st1)), node, ref, k)
        return


def _once_rest(I, body, node, ref, k):
    for st2, ctrl in body:
        if ctrl is None or ctrl[0] == "continue":
            yield from unroll_once(I, st2, node, ref, k + 1)
        elif ctrl[0] == "break":
            yield st2, None
        else:
            yield st2, ctrl


def _live_rest(I, body, node, ref, k):
    for st2, ctrl in body:
        if ctrl is None or ctrl[0] == "continue":
            yield from unroll_live(I, st2, node, ref, k + 1)
        elif ctrl[0] == "break":
            yield st2, None
        else:
            yield st2, ctrl


def unroll_for(I, st, node, items, k, watch=None):
    # An iteration with exactly one outcome that falls through is followed by the next one in a loop, not by recursion
    # (same order of evaluation as the recursive formulation; a loop over a thousand concrete items would otherwise
    # exceed the interpreter's recursion limit).  `watch`: record of the lists an eagerly evaluated lazy iterator was
    # computed from - re-checked before every step (lazy_check).
    while True:
        if watch is not None and k > 0:
            lazy_check(st, watch)
        if k == len(items):
            if node.orelse:
                yield from I.ex_block(node.orelse, st)
            else:
                yield st, None
            return
        outs = list(I.assign(node.target, items[k], st))
        if len(outs) == 1 and not isinstance(outs[0][1], Exc):
            body = list(I.ex_block(node.body, outs[0][0]))
            if len(body) == 1 and (body[0][1] is None or body[0][1][0] == "continue"):
                st = body[0][0]
                k += 1
                continue
            yield from _unroll_rest(I, body, node, items, k, watch)
            return
        for st1, r in outs:
            if isinstance(r, Exc):
                yield st1, ("raise", r.exc)
                continue
            yield from _unroll_rest(I, list(I.ex_block(node.body, st1)), node, items, k, watch)
        return


MAX_COUNT_ITEMS = 300


def unroll_count(I, st, node, lo, step, qual, ordinal):
    """`for x in itertools.count(lo, step)` with concrete lo / step: iteration k binds x = lo + k * step; the loop is left
    only by break / return / raise.  Worklist instead of recursion; a path that is still looping after MAX_COUNT_ITEMS
    items makes the lemma undecided."""
    work = [(st, 0)]
    while work:
        st0, k = work.pop(0)
        if k >= MAX_COUNT_ITEMS:
            raise Unsupported("for loop #%d of %s over itertools.count() is still running after %d items (no invariant given)" % (ordinal, qual, k))
        nxt = []
        for st1, r in list(I.assign(node.target, lo + k * step, st0)):
            if isinstance(r, Exc):
                yield st1, ("raise", r.exc)
                continue
            for st2, ctrl in list(I.ex_block(node.body, st1)):
                if ctrl is None or ctrl[0] == "continue":
                    nxt.append((st2, k + 1))
                elif ctrl[0] == "break":
                    yield st2, None
                else:
                    yield st2, ctrl
        work = nxt + work


def _unroll_rest(I, body, node, items, k, watch=None):
    for st2, ctrl in body:
        if ctrl is None or ctrl[0] == "continue":
            yield from unroll_for(I, st2, node, items, k + 1, watch)
        elif ctrl[0] == "break":
            yield st2, None
        else:
            yield st2, ctrl


def symbolic_iter(I, st, it):
    """-> None for concrete-length iterables, else a descriptor dict."""
    M = _M()
    if isinstance(it, M.SymRange):
        return {"kind": "range", "lo": it.lo, "hi": it.hi, "step": it.step}
    if isinstance(it, M.CountIter):
        return {"kind": "count", "lo": it.start, "step": it.step}
    if isinstance(it, HeapSeq):
        return {"kind": "heapseq", "seq": it}
    if isinstance(it, Ref) and st.get(it).kind == "symlist":
        return {"kind": "symlist", "ref": it}
    if isinstance(it, M.EnumIter):
        inner = symbolic_iter(I, st, it.inner)
        if inner is None:
            return None
        return {"kind": "enum", "inner": inner, "start": it.start}
    return None


def invariant_for(I, st, node, sym, linv, qual, ordinal):
    cname = "__it%d" % ordinal
    kind = sym["kind"]
    inner = sym["inner"] if kind == "enum" else sym
    ik = inner["kind"]
    if ik in ("range", "count"):
        lo = inner["lo"]
        step = inner["step"]
        if step != 1:
            raise Unsupported("symbolic range with step != 1")
    else:
        lo = 0
    st.frame.vars[cname] = lo
    linv._counters = getattr(linv, "_counters", set()) | {cname}

    def upper(s):
        if ik == "range":
            return inner["hi"]
        if ik == "symlist":
            return s.get(inner["ref"]).length
        if ik == "heapseq":
            return inner["seq"].length(I, s)
        return None

    def element(s, c):
        if ik in ("range", "count"):
            return c
        if ik == "symlist":
            return z3.Select(s.get(inner["ref"]).arr, z3val(c))
        if ik == "heapseq":
            return inner["seq"].at(I, s, z3val(c))

    def pre_bind(s):
        # the invariant sees the hidden counter as `_i` (number of completed iterations + lo)
        s.frame.vars["_i"] = s.frame.vars[cname]
        if ik in ("range", "count") and isinstance(node.target, ast.Name):
            s.frame.vars[node.target.id] = s.frame.vars[cname]

    def head(s):
        c = s.frame.vars[cname]
        hi = upper(s)
        cond = True if hi is None else (z3val(c) < z3val(hi))
        for s1, b in I.branch(s, cond):
            if b:
                c1 = s1.frame.vars[cname]
                el = element(s1, c1)
                if kind == "enum":
                    from .attrs import ops_add

                    el = (ops_add(sym["start"], c1 if ik != "range" else ops_sub_(c1, lo)), el)
                for s2, r in list(I.assign(node.target, el, s1)):
                    if isinstance(r, Exc):
                        yield s2, r
                    else:
                        yield s2, True
            else:
                yield s1, False

    def after_body(s):
        from .attrs import ops_add

        s.frame.vars[cname] = ops_add(s.frame.vars[cname], 1)

    lo0 = lo

    def auto_inv(s):
        c = z3val(s.frame.vars[cname])
        hi = upper(s)
        parts = [c >= z3val(lo0)]
        if hi is not None:
            parts.append(z3.Or(c <= z3val(hi), c == z3val(lo0)))
        return z3.And(*parts)

    # the hidden counter must be havocked together with the assigned names
    orig_havoc = list(linv.havoc)

    def run():
        # havoc of the counter: replace after init check by wrapping head/after; simplest: put it in frame and
        # list it in the havoc set
        linv.havoc = orig_havoc + [cname]
        try:
            yield from run_invariant_loop(I, st, node, linv, qual, ordinal, head, after_body, node.body, node.orelse, pre_bind, auto_inv,
                                          counter=(cname, lo))
        finally:
            linv.havoc = orig_havoc

    # bounds on the counter are part of every for-loop invariant (lo <= counter <= hi)
    base_inv = list(linv.inv)
    yield from run()


def ops_sub_(a, b):
    from .values import coerce_pair

    x, y, _ = coerce_pair(a, b)
    return x - y


# ------------------------------------------------------------------------------- with
def exec_with(I, st, node):
    def enter(st, k, exits):
        if k == len(node.items):
            for st1, ctrl in list(I.ex_block(node.body, st)):
                yield from leave(st1, ctrl, list(exits))
            return
        item = node.items[k]
        for st1, ctx in list(I.ev(item.context_expr, st)):
            if isinstance(ctx, Exc):
                yield from leave(st1, ("raise", ctx.exc), list(exits))
                continue
            en = ex = None
            if isinstance(ctx, Ref) and st1.get(ctx).kind == "obj":
                en, _ = I.class_lookup(st1.get(ctx).cls, "__enter__")
                ex, _ = I.class_lookup(st1.get(ctx).cls, "__exit__")
            elif isinstance(ctx, HObj) and ctx.cls is not None:
                en, _ = I.class_lookup(ctx.cls, "__enter__")
                ex, _ = I.class_lookup(ctx.cls, "__exit__")
            elif isinstance(ctx, Opaque) or ctx is None:
                I.trust("with-transparent", "A7: with-blocks over uninterpreted context managers (timers, logging) are transparent")
            elif isinstance(ctx, Unknown):
                raise Unsupported("with over unmodelled %s" % ctx.desc)
            else:
                raise Unsupported("with over %r" % (ctx,))
            if en is None:
                val_outs = [(st1, ctx)]
            else:
                val_outs = list(I.call(en, [ctx], {}, st1))
            for st2, v in val_outs:
                if isinstance(v, Exc):
                    yield from leave(st2, ("raise", v.exc), list(exits))
                    continue
                if item.optional_vars is not None:
                    outs = list(I.assign(item.optional_vars, v, st2))
                else:
                    outs = [(st2, None)]
                for st3, r in outs:
                    if isinstance(r, Exc):
                        yield from leave(st3, ("raise", r.exc), list(exits))
                    else:
                        yield from enter(st3, k + 1, exits + [(ctx, ex)])

    def leave(st, ctrl, exits):
        if not exits:
            yield st, ctrl
            return
        ctx, ex = exits[-1]
        rest = exits[:-1]
        if ex is None:
            yield from leave(st, ctrl, rest)
            return
        if ctrl is not None and ctrl[0] == "raise":
            e = ctrl[1]
            for st1, r in list(I.call(ex, [ctx, e.cls, e, Opaque("traceback")], {}, st)):
                if isinstance(r, Exc):
                    yield from leave(st1, ("raise", r.exc), rest)
                    continue
                for st2, b in I.branch(st1, I.truth(r, st1)):
                    yield from leave(st2, None if b else ctrl, rest)
        else:
            for st1, r in list(I.call(ex, [ctx, None, None, None], {}, st)):
                if isinstance(r, Exc):
                    yield from leave(st1, ("raise", r.exc), rest)
                else:
                    yield from leave(st1, ctrl, rest)

    yield from enter(st, 0, [])


# ------------------------------------------------------------------------------- generators
def call_generator(I, st, f, args, kwargs):
    """Generator functions are run eagerly; the result is the list of yielded values (A3: no interleaving)."""
    from .symex import Frame

    I.trust("generator-eager", "A3: generator functions are evaluated eagerly to the list of yielded values")
    vars, err = I.bind_args(f, args, kwargs, st)
    if err is not None:
        yield st, Exc(err)
        return
    I.note_function(f)
    # The body runs NOW, at the call; CPython runs it piecewise while the generator is consumed (nothing at all at the call).
    # The two agree if the body has no effect besides the values it yields, or if the generator is handed directly to a
    # complete consumer: Interp.ev_Call checks that for a call written in the source and announces it here; a generator
    # function reached in another way (an implicit __iter__, a callback of a model) is checked here.
    guarded = st.ghost.get("__iter_guard__") == id(f.node)
    st.ghost.pop("__iter_guard__", None)
    before = None if guarded else st.fork()
    from .values import IterE

    acc = st.alloc(IterE([]))
    vars["__yields__"] = acc
    fr = Frame(vars, f, f.module, f.cls)
    st.frames.append(fr)
    old = lazy_begin(st)
    for st1, ctrl in I.ex_block(f.node.body, st):
        I.pop_frame(st1)
        lazy_end(st1, old, acc)
        if before is not None and not I._unchanged(before, st1):
            raise Unsupported("generator %s changes existing state: its side effects would happen at creation instead of during iteration" % f.qualname())
        if ctrl is None or ctrl[0] == "return":
            yield st1, acc
        elif ctrl[0] == "raise":
            if I.is_subclass(ctrl[1].cls, BuiltinClass("StopIteration", StopIteration)):
                # PEP 479: a StopIteration that escapes a generator body is turned into RuntimeError
                yield st1, Exc(ExcVal(BuiltinClass("RuntimeError", RuntimeError), ("generator raised StopIteration",)))
                continue
            if before is not None and st1.get(acc).items:
                # an exception belongs to the step that reaches it, after the items yielded before it were delivered
                raise Unsupported("generator %s raises after yielding items (eager evaluation would lose the items)" % f.qualname())
            yield st1, Exc(ctrl[1])
        else:
            raise EngineError("break/continue escaped generator")
