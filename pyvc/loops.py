"""Loops (unrolling for concrete iterables, inductive invariants otherwise), with-statements, generators."""
import ast
from fractions import Fraction

import z3

from .values import (
    Ref, ListE, DictE, ObjE, SymListE, FuncVal, BoundMethod, ClassVal, BuiltinClass, ExcVal, Exc, Opaque,
    Unsupported, EngineError, is_z3, z3val, as_arith, is_intlike, is_reallike, is_boollike, Unknown,
)
from .heap import HeapSeq, HObj, obj_sort


class LoopInv:
    def __init__(self, inv, havoc=(), decreases=None, ghost_update=None):
        self.inv = [inv] if isinstance(inv, str) else list(inv)
        self.havoc = list(havoc)
        self.decreases = decreases
        self.ghost_update = ghost_update
        self._parsed = None

    def parsed(self):
        if self._parsed is None:
            self._parsed = [ast.parse(s, mode="eval").body for s in self.inv]
        return self._parsed


def _M():
    from . import models

    return models


def assigned_names(stmts):
    out = []

    def tgt(t):
        if isinstance(t, ast.Name):
            if t.id not in out:
                out.append(t.id)
        elif isinstance(t, (ast.Tuple, ast.List)):
            for e in t.elts:
                tgt(e)
        elif isinstance(t, ast.Starred):
            tgt(t.value)

    for s in stmts:
        for n in ast.walk(s):
            if isinstance(n, ast.Assign):
                for t in n.targets:
                    tgt(t)
            elif isinstance(n, (ast.AugAssign, ast.AnnAssign)):
                tgt(n.target)
            elif isinstance(n, ast.For):
                tgt(n.target)
            elif isinstance(n, ast.NamedExpr):
                tgt(n.target)
            elif isinstance(n, ast.With):
                for it in n.items:
                    if it.optional_vars is not None:
                        tgt(it.optional_vars)
    return out


def mutated_names(stmts):
    """Names x with x.append/pop/... calls or x[...] = ... in the loop body."""
    out = []
    for s in stmts:
        for n in ast.walk(s):
            if isinstance(n, ast.Call) and isinstance(n.func, ast.Attribute) and isinstance(n.func.value, ast.Name):
                if n.func.attr in ("append", "pop", "insert", "remove", "extend", "clear", "sort", "reverse", "update", "add"):
                    if n.func.value.id not in out:
                        out.append(n.func.value.id)
            if isinstance(n, (ast.Assign, ast.AugAssign)):
                ts = n.targets if isinstance(n, ast.Assign) else [n.target]
                for t in ts:
                    if isinstance(t, ast.Subscript) and isinstance(t.value, ast.Name):
                        if t.value.id not in out:
                            out.append(t.value.id)
    return out


def havoc_value(I, st, v, hint):
    if isinstance(v, bool) or (is_z3(v) and z3.is_bool(v)):
        return I.fresh("bool", hint)
    if is_intlike(v):
        return I.fresh("int", hint)
    if is_reallike(v):
        return I.fresh("real", hint)
    if isinstance(v, tuple):
        return tuple(havoc_value(I, st, x, hint) for x in v)
    if isinstance(v, HObj):
        return HObj(I.fresh(obj_sort(), hint), v.cls)
    if v is None:
        return None
    if isinstance(v, Ref):
        e = st.get(v)
        if e.kind == "symlist":
            e.length = I.fresh("int", hint + "_len")
            e.arr = I.fresh(e.arr.sort(), hint + "_arr")
            st.pc.append(e.length >= 0)
            return v
        raise Unsupported("loop modifies container %s of concrete shape; cannot havoc" % hint)
    if isinstance(v, (str, FuncVal, ClassVal)):
        return v
    raise Unsupported("cannot havoc %r" % (v,))


def _same_scalar(a, b):
    """immutable values that are equal as Python constants / identical terms"""
    if is_z3(a) or is_z3(b):
        return is_z3(a) and is_z3(b) and a.eq(b)
    if isinstance(a, (int, float, Fraction, str, bool, type(None))) and type(a) is type(b):
        return a == b
    return False


def eval_spec(I, st, expr_ast, what):
    """Evaluate a specification expression (may fork internally; result merged into one formula)."""
    trial = st.fork()
    n0 = len(trial.pc)
    outs = list(I.ev(expr_ast, trial))
    if any(isinstance(v, Exc) for _, v in outs):
        raise Unsupported("%s raises" % what)
    if len(outs) == 1:
        s1, v = outs[0]
        for c in s1.pc[n0:]:
            st.pc.append(c)
        return I.truth(v, s1)
    parts = []
    for s1, v in outs:
        t = I.truth(v, s1)
        delta = s1.pc[n0:]
        parts.append(z3.And(*(delta + [z3val(t)])) if delta else z3val(t))
    return z3.Or(*parts)


def run_invariant_loop(I, st, node, linv, qual, ordinal, head, after_body, body_stmts, orelse, pre_bind=None, auto_inv=None):
    """Generic invariant-based loop.

    head(st)  -> iterable of (st, True|False|Exc): loop continues?   (may bind the loop variable)
    after_body(st) -> None: advance hidden counter
    pre_bind(st): bind names visible to the invariant (called before each invariant evaluation)
    """
    tag = "%s.loop%d" % (qual.split(":")[-1], ordinal)
    fr = st.frame
    was_harness = fr.is_harness

    def check_inv(s, kind):
        if pre_bind:
            pre_bind(s)
        if auto_inv is not None:
            I.oblige(s, auto_inv(s), "%s.autoinv" % tag, kind)
        for k, e in enumerate(linv.parsed()):
            t = eval_spec(I, s, e, "loop invariant")
            I.oblige(s, t if is_z3(t) else bool(t), "%s.inv%d" % (tag, k), kind)

    def assume_inv(s):
        if pre_bind:
            pre_bind(s)
        if auto_inv is not None:
            a = auto_inv(s)
            if is_z3(a):
                s.pc.append(a)
        for e in linv.parsed():
            t = eval_spec(I, s, e, "loop invariant")
            if is_z3(t):
                s.pc.append(t)
            elif not t:
                s.pc.append(z3.BoolVal(False))

    check_inv(st, "inv-init")
    names = assigned_names(body_stmts) + [n for n in mutated_names(body_stmts) if n not in assigned_names(body_stmts)]
    for n in linv.havoc:
        if n not in names:
            names.append(n)
    for n in names:
        if n in st.frame.vars:
            st.frame.vars[n] = havoc_value(I, st, st.frame.vars[n], n)
    # object state modified by the body: attributes named in "havoc" as dotted paths ("self.probe.count") get an
    # arbitrary value of the same kind; any OTHER pre-existing object / container the body changes makes the
    # lemma undecided (checked after the body below) - the invariant schema only covers what was havocked
    havocked_attrs = set()
    for path in linv.havoc:
        if "." not in path:
            continue
        parts = path.split(".")
        cur = st.frame.vars.get(parts[0])
        for a in parts[1:-1]:
            if not (isinstance(cur, Ref) and st.get(cur).kind == "obj" and a in st.get(cur).attrs):
                raise Unsupported("loop havoc path %s does not resolve" % path)
            cur = st.get(cur).attrs[a]
        if not (isinstance(cur, Ref) and st.get(cur).kind == "obj" and parts[-1] in st.get(cur).attrs):
            raise Unsupported("loop havoc path %s does not resolve" % path)
        e = st.get(cur)
        e.attrs[parts[-1]] = havoc_value(I, st, e.attrs[parts[-1]], path.replace(".", "_"))
        havocked_attrs.add((cur.id, parts[-1]))
    havocked_refs = set(v.id for v in st.frame.vars.values() if isinstance(v, Ref) and st.get(v).kind == "symlist")

    def body_effects_covered(pre, post):
        """every store entry that existed before the body is unchanged, except what the havoc covers"""
        for k, e in pre.store.items():
            f = post.store.get(k)
            if f is None or f.kind != e.kind:
                return "entry %d" % k
            if k in havocked_refs:
                continue
            if e.kind in ("list", "deque", "set"):
                if len(e.items) != len(f.items) or any(x is not y for x, y in zip(e.items, f.items)):
                    return "a %s" % e.kind
            elif e.kind == "dict":
                if e.owner is None and (list(e.items.keys()) != list(f.items.keys()) or any(e.items[q] is not f.items[q] for q in e.items)):
                    return "a dict"
            elif e.kind == "obj":
                if e.attrs.keys() != f.attrs.keys():
                    return "attributes of a %s object" % getattr(e.cls, "name", "?")
                for q in e.attrs:
                    if e.attrs[q] is not f.attrs[q] and (k, q) not in havocked_attrs and not _same_scalar(e.attrs[q], f.attrs[q]):
                        return "attribute %s of a %s object" % (q, getattr(e.cls, "name", "?"))
            elif e.kind == "nd":
                if any(x is not y and not _same_scalar(x, y) for x, y in zip(e.data, f.data)):
                    return "an array"
            elif e.kind == "symlist":
                if e.length is not f.length or e.arr is not f.arr:
                    return "a symbolic list"
        if pre.heap.keys() != post.heap.keys() or any(pre.heap[q] is not post.heap[q] for q in pre.heap):
            if not linv.ghost_update:
                return "the abstract heap"
        return None

    if linv.ghost_update:
        linv.ghost_update(I, st, "havoc")
    assume_inv(st)
    dec0 = None
    for st1, go in list(head(st)):
        if isinstance(go, Exc):
            yield st1, ("raise", go.exc)
            continue
        if not go:
            if orelse:
                yield from I.ex_block(orelse, st1)
            else:
                yield st1, None
            continue
        if linv.decreases:
            if pre_bind:
                pre_bind(st1)
            d0 = list(I.ev(ast.parse(linv.decreases, mode="eval").body, st1))[0][1]
        pre_body = st1.fork()
        for st2, ctrl in list(I.ex_block(body_stmts, st1)):
            leak = body_effects_covered(pre_body, st2)
            if leak is not None:
                raise Unsupported("loop with an invariant modifies %s that is not havocked (add a dotted \"havoc\" path)" % leak)
            if ctrl is None or ctrl[0] == "continue":
                after_body(st2)
                check_inv(st2, "inv-preserved")
                if linv.decreases:
                    if pre_bind:
                        pre_bind(st2)
                    d1 = list(I.ev(ast.parse(linv.decreases, mode="eval").body, st2))[0][1]
                    I.oblige(st2, z3.And(z3val(d0) >= 0, z3val(d1) < z3val(d0)), "%s.variant" % tag, "variant")
                # path ends: the invariant covers all later iterations
            elif ctrl[0] == "break":
                yield st2, None
            else:
                yield st2, ctrl


def exec_while(I, st, node):
    fr = st.frame
    fr.loopno += 1
    ordinal = fr.loopno
    qual = fr.func.qualname() if fr.func else I.cur_lemma
    linv = I.loop_invariants.get((qual, ordinal))
    if linv is not None:
        def head(s):
            for s1, c in list(I.ev(node.test, s)):
                if isinstance(c, Exc):
                    yield s1, c
                    continue
                for s2, b in I.branch(s1, I.truth(c, s1)):
                    yield s2, b

        yield from run_invariant_loop(I, st, node, linv, qual, ordinal, head, lambda s: None, node.body, node.orelse)
        return

    # no invariant: unroll while the condition is decided or finitely many iterations are feasible
    def step(s, n):
        if n > 64:
            raise Unsupported("while loop at line %d needs an invariant (unrolled 64 times)" % node.lineno)
        for s1, c in list(I.ev(node.test, s)):
            if isinstance(c, Exc):
                yield s1, ("raise", c.exc)
                continue
            for s2, b in I.branch(s1, I.truth(c, s1)):
                if not b:
                    if node.orelse:
                        yield from I.ex_block(node.orelse, s2)
                    else:
                        yield s2, None
                    continue
                for s3, ctrl in list(I.ex_block(node.body, s2)):
                    if ctrl is None or ctrl[0] == "continue":
                        yield from step(s3, n + 1)
                    elif ctrl[0] == "break":
                        yield s3, None
                    else:
                        yield s3, ctrl

    yield from step(st, 0)


def exec_for(I, st, node):
    M = _M()
    fr = st.frame
    fr.loopno += 1
    ordinal = fr.loopno
    qual = fr.func.qualname() if fr.func else I.cur_lemma
    for st1, it in list(I.ev(node.iter, st)):
        if isinstance(it, Exc):
            yield st1, ("raise", it.exc)
            continue
        sym = symbolic_iter(I, st1, it)
        if sym is None:
            items = I.iterate(it, st1)
            if len(items) > 4000:
                raise Unsupported("loop over %d items" % len(items))
            yield from unroll_for(I, st1, node, items, 0)
            continue
        linv = I.loop_invariants.get((qual, ordinal))
        if linv is None:
            raise Unsupported("for loop #%d of %s iterates a symbolic-length sequence and has no invariant" % (ordinal, qual))
        yield from invariant_for(I, st1, node, sym, linv, qual, ordinal)


def unroll_for(I, st, node, items, k):
    if k == len(items):
        if node.orelse:
            yield from I.ex_block(node.orelse, st)
        else:
            yield st, None
        return
    for st1, r in list(I.assign(node.target, items[k], st)):
        if isinstance(r, Exc):
            yield st1, ("raise", r.exc)
            continue
        for st2, ctrl in list(I.ex_block(node.body, st1)):
            if ctrl is None or ctrl[0] == "continue":
                yield from unroll_for(I, st2, node, items, k + 1)
            elif ctrl[0] == "break":
                yield st2, None
            else:
                yield st2, ctrl


def symbolic_iter(I, st, it):
    """-> None for concrete-length iterables, else a descriptor dict."""
    M = _M()
    if isinstance(it, M.SymRange):
        return {"kind": "range", "lo": it.lo, "hi": it.hi, "step": it.step}
    if isinstance(it, M.CountIter):
        return {"kind": "count", "lo": it.start, "step": it.step}
    if isinstance(it, HeapSeq):
        return {"kind": "heapseq", "seq": it}
    if isinstance(it, Ref) and st.get(it).kind == "symlist":
        return {"kind": "symlist", "ref": it}
    if isinstance(it, M.EnumIter):
        inner = symbolic_iter(I, st, it.inner)
        if inner is None:
            return None
        return {"kind": "enum", "inner": inner, "start": it.start}
    return None


def invariant_for(I, st, node, sym, linv, qual, ordinal):
    cname = "__it%d" % ordinal
    kind = sym["kind"]
    inner = sym["inner"] if kind == "enum" else sym
    ik = inner["kind"]
    if ik in ("range", "count"):
        lo = inner["lo"]
        step = inner["step"]
        if step != 1:
            raise Unsupported("symbolic range with step != 1")
    else:
        lo = 0
    st.frame.vars[cname] = lo
    linv._counters = getattr(linv, "_counters", set()) | {cname}

    def upper(s):
        if ik == "range":
            return inner["hi"]
        if ik == "symlist":
            return s.get(inner["ref"]).length
        if ik == "heapseq":
            return inner["seq"].length(I, s)
        return None

    def element(s, c):
        if ik in ("range", "count"):
            return c
        if ik == "symlist":
            return z3.Select(s.get(inner["ref"]).arr, z3val(c))
        if ik == "heapseq":
            return inner["seq"].at(I, s, z3val(c))

    def pre_bind(s):
        # the invariant sees the hidden counter as `_i` (number of completed iterations + lo)
        s.frame.vars["_i"] = s.frame.vars[cname]
        if ik in ("range", "count") and isinstance(node.target, ast.Name):
            s.frame.vars[node.target.id] = s.frame.vars[cname]

    def head(s):
        c = s.frame.vars[cname]
        hi = upper(s)
        cond = True if hi is None else (z3val(c) < z3val(hi))
        for s1, b in I.branch(s, cond):
            if b:
                c1 = s1.frame.vars[cname]
                el = element(s1, c1)
                if kind == "enum":
                    from .attrs import ops_add

                    el = (ops_add(sym["start"], c1 if ik != "range" else ops_sub_(c1, lo)), el)
                for s2, r in list(I.assign(node.target, el, s1)):
                    if isinstance(r, Exc):
                        yield s2, r
                    else:
                        yield s2, True
            else:
                yield s1, False

    def after_body(s):
        from .attrs import ops_add

        s.frame.vars[cname] = ops_add(s.frame.vars[cname], 1)

    lo0 = lo

    def auto_inv(s):
        c = z3val(s.frame.vars[cname])
        hi = upper(s)
        parts = [c >= z3val(lo0)]
        if hi is not None:
            parts.append(z3.Or(c <= z3val(hi), c == z3val(lo0)))
        return z3.And(*parts)

    # the hidden counter must be havocked together with the assigned names
    orig_havoc = list(linv.havoc)

    def run():
        # havoc of the counter: replace after init check by wrapping head/after; simplest: put it in frame and
        # list it in the havoc set
        linv.havoc = orig_havoc + [cname]
        try:
            yield from run_invariant_loop(I, st, node, linv, qual, ordinal, head, after_body, node.body, node.orelse, pre_bind, auto_inv)
        finally:
            linv.havoc = orig_havoc

    # bounds on the counter are part of every for-loop invariant (lo <= counter <= hi)
    base_inv = list(linv.inv)
    yield from run()


def ops_sub_(a, b):
    from .values import coerce_pair

    x, y, _ = coerce_pair(a, b)
    return x - y


# ------------------------------------------------------------------------------- with
def exec_with(I, st, node):
    def enter(st, k, exits):
        if k == len(node.items):
            for st1, ctrl in list(I.ex_block(node.body, st)):
                yield from leave(st1, ctrl, list(exits))
            return
        item = node.items[k]
        for st1, ctx in list(I.ev(item.context_expr, st)):
            if isinstance(ctx, Exc):
                yield from leave(st1, ("raise", ctx.exc), list(exits))
                continue
            en = ex = None
            if isinstance(ctx, Ref) and st1.get(ctx).kind == "obj":
                en, _ = I.class_lookup(st1.get(ctx).cls, "__enter__")
                ex, _ = I.class_lookup(st1.get(ctx).cls, "__exit__")
            elif isinstance(ctx, HObj) and ctx.cls is not None:
                en, _ = I.class_lookup(ctx.cls, "__enter__")
                ex, _ = I.class_lookup(ctx.cls, "__exit__")
            elif isinstance(ctx, Opaque) or ctx is None:
                I.trust("with-transparent", "A7: with-blocks over uninterpreted context managers (timers, logging) are transparent")
            elif isinstance(ctx, Unknown):
                raise Unsupported("with over unmodelled %s" % ctx.desc)
            else:
                raise Unsupported("with over %r" % (ctx,))
            if en is None:
                val_outs = [(st1, ctx)]
            else:
                val_outs = list(I.call(en, [ctx], {}, st1))
            for st2, v in val_outs:
                if isinstance(v, Exc):
                    yield from leave(st2, ("raise", v.exc), list(exits))
                    continue
                if item.optional_vars is not None:
                    outs = list(I.assign(item.optional_vars, v, st2))
                else:
                    outs = [(st2, None)]
                for st3, r in outs:
                    if isinstance(r, Exc):
                        yield from leave(st3, ("raise", r.exc), list(exits))
                    else:
                        yield from enter(st3, k + 1, exits + [(ctx, ex)])

    def leave(st, ctrl, exits):
        if not exits:
            yield st, ctrl
            return
        ctx, ex = exits[-1]
        rest = exits[:-1]
        if ex is None:
            yield from leave(st, ctrl, rest)
            return
        if ctrl is not None and ctrl[0] == "raise":
            e = ctrl[1]
            for st1, r in list(I.call(ex, [ctx, e.cls, e, Opaque("traceback")], {}, st)):
                if isinstance(r, Exc):
                    yield from leave(st1, ("raise", r.exc), rest)
                    continue
                for st2, b in I.branch(st1, I.truth(r, st1)):
                    yield from leave(st2, None if b else ctrl, rest)
        else:
            for st1, r in list(I.call(ex, [ctx, None, None, None], {}, st)):
                if isinstance(r, Exc):
                    yield from leave(st1, ("raise", r.exc), rest)
                else:
                    yield from leave(st1, ctrl, rest)

    yield from enter(st, 0, [])


# ------------------------------------------------------------------------------- generators
def call_generator(I, st, f, args, kwargs):
    """Generator functions are run eagerly; the result is the list of yielded values (A3: no interleaving)."""
    from .symex import Frame

    I.trust("generator-eager", "A3: generator functions are evaluated eagerly to the list of yielded values")
    vars, err = I.bind_args(f, args, kwargs, st)
    if err is not None:
        yield st, Exc(err)
        return
    I.note_function(f)
    acc = st.alloc(ListE([]))
    vars["__yields__"] = acc
    fr = Frame(vars, f, f.module, f.cls)
    st.frames.append(fr)
    for st1, ctrl in I.ex_block(f.node.body, st):
        st1.frames.pop()
        if ctrl is None or ctrl[0] == "return":
            yield st1, acc
        elif ctrl[0] == "raise":
            yield st1, Exc(ctrl[1])
        else:
            raise EngineError("break/continue escaped generator")
