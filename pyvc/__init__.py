"""PyVC: ast -> SMT verification-condition generator / symbolic executor for the real armi source.

Runs under python3-vt (z3-solver, cvc5).  Never imports armi: it parses the files under /repo on
every run.  See /verif/DESIGN.md.
"""
