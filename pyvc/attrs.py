"""Attribute access, container methods, builtins, modelled external modules."""
import ast
import builtins as _b
import math
from fractions import Fraction

import z3

from . import ops, extract
from . import keyed as _keyed
from .ops import exc, is_number
from .values import FrozenSetE, DictViewE  # noqa: E402
from .values import (
    Ref, ListE, IterE, DequeE, SetE, NumSetE, DictE, ObjE, NdE, SymListE, FuncVal, BoundMethod, ClassVal, BuiltinClass,
    ModuleVal, Builtin, ExcVal, Exc, Opaque, SliceVal, SuperVal, Unknown, Unsupported, EngineError,
    is_z3, z3val, coerce_pair, as_arith, is_intlike, is_reallike, is_boollike, to_frac,
)
from .heap import HeapSeq, HObj, heap_getattr, heap_setattr, heap_none, heap_is_obj, obj_sort


def _m():
    from . import models

    return models


def bi(name, fn):
    return Builtin(name, fn)


def simple(name, pyfn):
    """Builtin from a plain function (I, st, *args, **kw) -> value (single outcome, no exception)."""

    def fn(I, st, args, kwargs):
        yield st, pyfn(I, st, *args, **kwargs)

    return Builtin(name, fn)


# ============================================================================ getattr
def getattr(I, st, v, name):
    M = _m()
    from .symex import FrozenList, FrozenDict, FrozenNd

    if isinstance(v, SliceVal) and name in ("start", "stop", "step"):
        yield st, {"start": v.lo, "stop": v.hi, "step": v.step}[name]
        return
    if isinstance(v, HObj):
        if heap_is_obj(I, v.term) and not I.spec_mode:
            notnone = v.term != heap_none(I)
            outs = I.branch(st, notnone)
        else:
            outs = [(st, True)]
        for st1, ok in outs:
            if not ok:
                yield st1, exc("AttributeError", "'NoneType' object has no attribute '%s'" % name)
                continue
            if name in I.heap_decls:
                yield st1, heap_getattr(I, st1, v, name)
                continue
            if v.cls is None:
                raise Unsupported("attribute %s of a heap object without a static class" % name)
            yield from class_attr_for_instance(I, st1, v, v.cls, name)
        return
    if isinstance(v, Ref):
        e = st.get(v)
        if e.kind == "obj" and "__memstream__" in e.attrs:
            from . import bytesmodel

            yield st, bytesmodel.memstream_getattr(I, st, v, name)
            return
        if e.kind == "obj":
            if isinstance(e.cls, ClassVal) and e.cls.__dict__.get("_xmeta", 0) is not None:
                from . import metaclass as _mc

                _mc.ensure(I, st, e.cls)  # class attributes made by an executed metaclass (pyvc/metaclass.py)
            if name == "__class__":
                yield st, e.cls
                return
            fl = _class_flags(I, e.cls)
            if fl["getattribute"]:
                # every attribute read of such an object goes through the user's __getattribute__
                raise Unsupported("class %s defines __getattribute__" % e.cls.name)
            if fl["initsub"]:
                ensure_init_subclass(I, st, e.cls)
            if name == "__dict__":
                if fl["slots"] is not None:
                    yield st, exc("AttributeError", "'%s' object has no attribute '__dict__'" % e.cls.name)
                    return
                if "__dictdata__" in e.attrs:
                    # the mapping payload of a dict subclass lives beside the instance attributes in the model, not in Python
                    raise Unsupported("__dict__ of an instance of a dict subclass")
                d = DictE()
                d.owner = v
                yield st, st.alloc(d)
                return
            m, where = I.class_lookup(e.cls, name)
            from .values import PropertyVal

            if st.ghost and (name not in e.attrs or _ghost_data_descriptor(I, st, e.cls, name)):
                # a class attribute rebound at run time (Cls.attr = value) is what instances see, nearest class first
                for c in I.mro(e.cls):
                    if isinstance(c, ClassVal) and ("classattr", id(c.node), name) in st.ghost:
                        gv = st.ghost[("classattr", id(c.node), name)]
                        if isinstance(gv, PropertyVal):
                            raise Unsupported("property %s rebound on a class at run time" % name)
                        if isinstance(gv, FuncVal):
                            # a function stored on the class is a non-data descriptor: read through an instance it is a bound method
                            if "property" in gv.decorators() or "cached_property" in gv.decorators():
                                raise Unsupported("property %s rebound on a class at run time" % name)
                            yield st, bind_member(I, st, gv, v, e.cls)
                            return
                        dg = _descriptor_method(I, st, gv, "__get__")
                        if dg is not None:
                            # descriptor protocol: type(obj).attr.__get__(obj, type(obj))
                            yield from I.call(dg, [gv, v, e.cls], {}, st)
                            return
                        yield st, gv
                        return
                    if where is not None and c == where:
                        break  # the first class that defines the name statically wins over rebindings further up
            if isinstance(m, PropertyVal):
                yield from I.call(m.fget, [v], {}, st)
                return
            if isinstance(m, FuncVal) and "property" in m.decorators():
                yield from I.call(m, [v], {}, st)
                return
            sd = _static_descriptor(I, st, m)
            if sd is not None:
                # descriptor protocol for an object stored in the class body: a DATA descriptor (__set__ / __delete__) is
                # consulted before the instance dictionary, a non-data descriptor (__get__ only) after it
                dobj, dget, dset, ddel = sd
                data = dset is not None or ddel is not None
                if not data and name in e.attrs:
                    yield st, e.attrs[name]
                    return
                if dget is not None:
                    yield from I.call(dget, [dobj, v, e.cls], {}, st)
                    return
                yield st, (e.attrs[name] if name in e.attrs else dobj)
                return
            if isinstance(m, FuncVal) and any(d in ("cached_property",) for d in m.decorators()):
                # functools.cached_property is a NON-data descriptor: the first read computes the value and stores it in
                # the instance dictionary under the same name, later reads find it there (nothing recomputes it)
                if name in e.attrs:
                    yield st, e.attrs[name]
                    return
                for st1, r in I.call(m, [v], {}, st):
                    if not isinstance(r, Exc):
                        st1.get(v).attrs[name] = r
                    yield st1, r
                return
            if name in e.attrs:
                yield st, e.attrs[name]
                return
            if m is not None:
                yield st, bind_member(I, st, m, v, e.cls)
                return
            if where is not None:
                yield st, None  # a class attribute whose value is None (e.g. Assembly._BLOCK_TYPE) exists
                return
            if "__list__" in e.attrs and name in _LIST_METHODS:
                # instance of a class deriving from list: methods of list not overridden by the class
                yield st, list_method(I, st, e.attrs["__list__"], name)
                return
            if "__dictdata__" in e.attrs and name in _DICT_METHODS:
                # instance of a class deriving from dict: methods of dict not overridden by the class
                yield st, dict_method(I, st, e.attrs["__dictdata__"], name)
                return
            ga, _ = I.class_lookup(e.cls, "__getattr__")
            if ga is not None:
                yield from I.call(ga, [v, name], {}, st)
                return
            yield st, exc("AttributeError", "'%s' object has no attribute '%s'" % (e.cls.name, name))
            return
        if e.__class__ is DictViewE:
            raise Unsupported("attribute %s of a dictionary view (views only support iteration, len, in)" % name)
        if e.kind in ("list", "deque"):
            yield st, list_method(I, st, v, name)
            return
        if e.kind == "dict":
            yield st, dict_method(I, st, v, name)
            return
        if e.kind == "set":
            yield st, set_method(I, st, v, name)
            return
        if e.kind == "numset":
            if name != "add":
                raise Unsupported("set of symbolic numbers: method " + name)
            yield st, set_method(I, st, v, name)
            return
        if e.kind == "nd":
            from . import npmodel

            yield from npmodel.nd_getattr(I, st, v, name)
            return
        if e.kind == "symlist":
            yield st, symlist_method(I, st, v, name)
            return
    if isinstance(v, HeapSeq):
        yield st, heapseq_method(I, st, v, name)
        return
    if isinstance(v, ObjDict):
        yield st, objdict_method(I, st, v, name)
        return
    if isinstance(v, RePattern) and name in ("match", "fullmatch", "search"):
        def _rx(I, st, a, k):
            if len(a) != 1 or not isinstance(a[0], str):
                raise Unsupported("regular expression applied to a symbolic string")
            # the string is concrete: Python's own re.Match object (truthy; group()/groups()/span() through re_method) or None
            yield st, _b.getattr(v.rx, name)(a[0])

        yield st, bi("re.Pattern." + name, _rx)
        return
    if isinstance(v, ModuleVal):
        yield st, module_attr(I, st, v, name)
        return
    if isinstance(v, ClassVal):
        if name == "__name__":
            yield st, v.name
            return
        if v.__dict__.get("_xmeta", 0) is not None:
            from . import metaclass as _mc

            found, gv = _mc.class_getattr(I, st, v, name)  # class made by an executed metaclass: MRO-aware look-up
            if found:
                if isinstance(gv, FuncVal) and "classmethod" in gv.decorators():
                    gv = BoundMethod(gv, v)
                yield st, gv
                return
        if _class_flags(I, v)["initsub"]:
            ensure_init_subclass(I, st, v)
        for c in (I.mro(v) if st.ghost else ()):
            # a class attribute rebound at run time on the class or on a base (nearest class first; a class that defines the
            # name in its body hides rebindings further up)
            if isinstance(c, ClassVal) and ("classattr", id(c.node), name) in st.ghost:
                gv = st.ghost[("classattr", id(c.node), name)]
                if isinstance(gv, FuncVal) and "classmethod" in gv.decorators():
                    gv = BoundMethod(gv, v)
                yield st, gv
                return
            if isinstance(c, ClassVal) and name in I.class_members(c):
                break
        if name in ("__mro__", "__bases__", "__subclasses__", "__dict__", "__qualname__", "__module__", "__doc__", "__slots__") and (
                I.class_lookup(v, name)[0] is None):
            raise Unsupported("class attribute %s" % name)
        if M.is_enum_class(I, v):
            yield st, enum_member(I, st, v, name)
            return
        m, where = I.class_lookup(v, name)
        if m is None and where is not None:
            yield st, None  # a class attribute whose value is None
            return
        if m is None and name == "__init__":
            # Class.__init__(obj) of a class that defines none: object.__init__, which accepts the instance only
            if any(isinstance(c, BuiltinClass) and c.name != "object" for c in I.mro(v)):
                raise Unsupported("__init__ inherited from a builtin base of %s" % v.name)

            def _obj_init(I, st, a, k):
                if len(a) != 1 or k:
                    raise Unsupported("object.__init__ with arguments")
                yield st, None
            yield st, bi("object.__init__", _obj_init)
            return
        if m is None and name == "__new__":
            # Class.__new__(C) of a class that defines none: object.__new__ - a blank instance of C, no __init__ run
            if any(isinstance(c, BuiltinClass) and c.name != "object" for c in I.mro(v)):
                raise Unsupported("__new__ inherited from a builtin base of %s" % v.name)

            def _obj_new(I, st, a, k):
                if len(a) != 1 or k or not isinstance(a[0], ClassVal) or not I.is_subclass(a[0], v):
                    raise Unsupported("object.__new__ with these arguments")
                if any(isinstance(c, BuiltinClass) and c.name != "object" for c in I.mro(a[0])) or I.class_lookup(a[0], "__new__")[0] is not None:
                    raise Unsupported("object.__new__ of a class with a builtin base / its own __new__")
                yield st, st.alloc(ObjE(a[0], {}))
            yield st, bi("object.__new__", _obj_new)
            return
        if m is None:
            yield st, exc("AttributeError", "type object '%s' has no attribute '%s'" % (v.name, name))
            return
        if isinstance(m, FuncVal) and "classmethod" in m.decorators():
            yield st, BoundMethod(m, v)
            return
        sd = _static_descriptor(I, st, m)
        if sd is not None and sd[1] is not None:
            yield from I.call(sd[1], [sd[0], None, v], {}, st)  # Class.attr: descriptor.__get__(None, Class)
            return
        yield st, I.thaw_global(m, st)  # the one object per path that instances see as well
        return
    if isinstance(v, BuiltinClass):
        if name == "__name__":
            yield st, v.name
            return
        if v.name == "dict" and name == "fromkeys":
            yield st, bi("dict.fromkeys", _dict_fromkeys)
            return
        if v.name == "int" and name == "from_bytes":
            yield st, bi("int.from_bytes", _int_from_bytes)
            return
        if v.name == "float" and name == "fromhex":
            raise Unsupported("float.fromhex")
        if v.name == "list" and name == "__init__":
            def _list_init(I, st, a, k):
                # list.__init__(self[, iterable]) on an instance of a list subclass: clear, then extend
                if k or not a or len(a) > 2 or not (isinstance(a[0], Ref) and "__list__" in _b.getattr(st.get(a[0]), "attrs", {})):
                    raise Unsupported("list.__init__ on %r" % (a[:1],))
                items = I.iterate(a[1], st) if len(a) == 2 else []
                st.get(st.get(a[0]).attrs["__list__"]).items[:] = items
                yield st, None
            yield st, bi("list.__init__", _list_init)
            return
        if v.name == "dict" and name in ("__init__", "__getitem__", "__setitem__", "__contains__", "__delitem__", "__len__", "__iter__"):
            # dict.<special>(self, ...) called explicitly on an instance of a dict subclass (or a plain dict):
            # the builtin behaviour on the dict payload, bypassing the subclass's override
            def _payload(st, x):
                if isinstance(x, Ref) and st.get(x).kind == "dict":
                    return x
                if isinstance(x, Ref) and st.get(x).kind == "obj" and "__dictdata__" in st.get(x).attrs:
                    return st.get(x).attrs["__dictdata__"]
                raise Unsupported("dict.%s on %r" % (name, x))

            def _dict_special(I, st, a, k, name=name):
                M = _m()
                if not a:
                    raise Unsupported("dict.%s without self" % name)
                d = _payload(st, a[0])
                if name == "__init__":
                    for st1, src in call_builtin_class(I, st, BuiltinClass("dict", dict), list(a[1:]), dict(k)):
                        if isinstance(src, Exc):
                            yield st1, src
                        else:
                            it = dict(st1.get(src).items)
                            st1.get(d).items.clear()
                            st1.get(d).items.update(it)
                            yield st1, None
                    return
                if k:
                    raise Unsupported("dict.%s with keywords" % name)
                if name == "__getitem__" and len(a) == 2:
                    yield from M.getitem(I, st, d, a[1])
                elif name == "__setitem__" and len(a) == 3:
                    yield from M.setitem(I, st, d, a[1], a[2])
                elif name == "__delitem__" and len(a) == 2:
                    yield from M.delitem(I, st, d, a[1])
                elif name == "__contains__" and len(a) == 2:
                    yield from M.contains(I, st, d, a[1])
                elif name == "__len__" and len(a) == 1:
                    yield st, len(st.get(d).items)
                elif name == "__iter__" and len(a) == 1:
                    yield st, st.alloc(ListE(list(st.get(d).items)))
                else:
                    raise Unsupported("dict.%s with %d arguments" % (name, len(a)))

            yield st, bi("dict." + name, _dict_special)
            return
        if v.name == "type" and name == "__new__":
            from . import metaclass as _mc

            yield st, bi("type.__new__", _mc.type_new)
            return
        if v.name == "object" and name == "__delattr__":
            def _oda(I, st, a, k):
                if len(a) != 2 or k or not isinstance(a[1], str):
                    raise Unsupported("object.__delattr__ arguments")
                yield from delattr(I, st, a[0], a[1], raw=True)  # the default deletion, bypassing a __delattr__ override

            yield st, bi("object.__delattr__", _oda)
            return
        if v.name == "object" and name == "__setattr__":
            # object.__setattr__(obj, name, value): the default attribute store (bypasses a __setattr__ override);
            # a property / descriptor of that name on the class would intercept it -> outside the model
            def _osa(I, st, a, k):
                obj, nm, val = a
                if not isinstance(nm, str):
                    raise Unsupported("object.__setattr__ with symbolic name")
                if isinstance(obj, Ref) and st.get(obj).kind == "obj":
                    from .values import PropertyVal

                    g, _ = I.class_lookup(st.get(obj).cls, nm)
                    if isinstance(g, PropertyVal) or (isinstance(g, FuncVal) and "property" in g.decorators()) or (
                            isinstance(g, Ref) and st.get(g).kind == "obj" and I.class_lookup(st.get(g).cls, "__set__")[0] is not None):
                        raise Unsupported("object.__setattr__ on a property/descriptor attribute")
                    gv = _ghost_class_attr(I, st, st.get(obj).cls, nm)
                    ds = _descriptor_method(I, st, gv, "__set__") if gv is not None else None
                    if ds is not None:
                        for st1, r in I.call(ds, [gv, obj, val], {}, st):
                            yield st1, (r if isinstance(r, Exc) else None)
                        return
                yield from setattr(I, st, obj, nm, val, raw=True)

            yield st, bi("object.__setattr__", _osa)
            return
        raise Unsupported("attribute %s of builtin class %s" % (name, v.name))
    if isinstance(v, SuperVal):
        selfv = v.self_val
        if isinstance(selfv, Ref):
            cls = st.get(selfv).cls
        elif isinstance(selfv, HObj):
            cls = selfv.cls
        elif isinstance(selfv, ClassVal):
            cls = selfv
        else:
            raise Unsupported("super() without self")
        m, where = I.class_lookup(cls, name, start_after=v.cls)
        if m is None:
            # object.__init__ etc.
            if name in ("__init__", "__setstate__", "__init_subclass__"):
                yield st, bi("object." + name, lambda I, st, a, k: iter([(st, None)]))
                return
            if name == "__setattr__":
                def _sa(I, st, a, k):
                    yield from setattr(I, st, selfv, a[0], a[1], raw=True)
                yield st, bi("object.__setattr__", _sa)
                return
            if name == "__new__" and isinstance(selfv, ClassVal):
                def _onew(I, st, a, k):
                    # object.__new__(C): a blank instance of C (extra arguments are an error unless __init__ is overridden)
                    if len(a) != 1 or k or not isinstance(a[0], ClassVal):
                        raise Unsupported("super().__new__ with extra arguments")
                    if any(isinstance(c, BuiltinClass) and c.name != "object" for c in I.mro(a[0])):
                        raise Unsupported("object.__new__ of a class with a builtin base")
                    yield st, st.alloc(ObjE(a[0], {}))
                yield st, bi("object.__new__", _onew)
                return
            raise Unsupported("super().%s not found" % name)
        if isinstance(m, FuncVal):
            if "property" in m.decorators():
                yield from I.call(m, [selfv], {}, st)
                return
            if "staticmethod" in m.decorators():
                yield st, m
                return
            if "classmethod" in m.decorators():
                yield st, BoundMethod(m, cls)
                return
            yield st, BoundMethod(m, selfv)
            return
        yield st, m
        return
    if isinstance(v, ExcVal):
        if name == "args":
            yield st, tuple(v.args)
            return
        raise Unsupported("exception attribute " + name)
    if isinstance(v, M.NamedTuple):
        if name in v.fields:
            yield st, v[v.fields.index(name)]
            return
        if name == "_asdict":
            yield st, simple("_asdict", lambda I, st: st.alloc(DictE(dict(zip(v.fields, v)))))
            return
        if name == "_replace":
            def _rep(I, st, **kw):
                vals = [kw.get(f, x) for f, x in zip(v.fields, v)]
                return M.NamedTuple(vals, v.fields, v.clsval)
            yield st, simple("_replace", _rep)
            return
        if name == "_fields":
            yield st, tuple(v.fields)
            return
    if isinstance(v, M.EnumMember):
        if name == "value":
            yield st, v.value
            return
        if name == "name":
            yield st, v.name
            return
        m, where = I.class_lookup(v.cls, name)
        if isinstance(m, FuncVal):
            if "property" in m.decorators():
                yield from I.call(m, [v], {}, st)
            else:
                yield st, BoundMethod(m, v)
            return
        if (m is not None and not isinstance(m, FuncVal) and M.is_enum_class(I, v.cls) and type(m).__name__ != "PropertyVal"
                and not name.startswith("_")):
            # another member of the same enum reached through a member (self.OTHER): class attribute lookup
            yield st, enum_member(I, st, v.cls, name)
            return
    if isinstance(v, str):
        yield st, str_method(I, st, v, name)
        return
    if isinstance(v, (_re.Pattern, _re.Match)):
        yield st, re_method(I, st, v, name)
        return
    if isinstance(v, (bytes, bytearray)):
        if name == "join":
            from . import bytesmodel

            yield st, simple("bytes.join", lambda I, st, items: bytesmodel.bytes_join(I, st, v, items))
            return
        yield st, str_method(I, st, v, name)
        return
    if isinstance(v, tuple):
        if name == "index":
            yield st, simple("tuple.index", lambda I, st, x: list(v).index(x))
            return
        if name == "count":
            yield st, simple("tuple.count", lambda I, st, x: list(v).count(x))
            return
    if isinstance(v, FrozenList):
        yield from getattr(I, st, I.thaw(v, st), name)
        return
    if isinstance(v, FrozenDict):
        yield from getattr(I, st, I.thaw(v, st), name)
        return
    if isinstance(v, FrozenNd):
        yield from getattr(I, st, I.thaw(v, st), name)
        return
    if isinstance(v, frozenset):
        yield from getattr(I, st, I.thaw(v, st), name)
        return
    if isinstance(v, Opaque):
        yield st, Opaque(v.desc + "." + name)
        return
    if isinstance(v, FuncVal) and not _b.getattr(v, "raw", False) and _b.getattr(v.node, "decorator_list", None) and any(
            not I.transparent_decorator(d) for d in v.node.decorator_list):
        # the name is bound to decorator(function): that object's attributes are the ones read
        yield from getattr(I, st, I.decorated(v, st), name)
        return
    if isinstance(v, FuncVal):
        fa = _b.getattr(v, "fattrs", None) or {}
        if name in fa:
            yield st, fa[name]
            return
        if name == "__name__":
            yield st, v.name
            return
        if name == "__wrapped__":
            yield st, exc("AttributeError", "'function' object has no attribute '__wrapped__'")
            return
    if isinstance(v, BoundMethod) and name == "__name__":
        yield st, v.func.name
        return
    if isinstance(v, Builtin) and v.name == "itertools.chain" and name == "from_iterable":
        # itertools.chain.from_iterable(it): the elements of each element of `it`, in order (evaluated eagerly)
        def _from_iterable(I, st, a, k):
            out = []
            for x in I.iterate(a[0], st):
                out.extend(I.iterate(x, st))
            yield st, st.alloc(ListE(out))

        yield st, bi("itertools.chain.from_iterable", _from_iterable)
        return
    if is_boollike(v) and name == "__bool__":
        yield st, simple("bool.__bool__", lambda I, st: v)
        return
    if isinstance(v, int) and not isinstance(v, bool) and name == "to_bytes":
        yield st, bi("int.to_bytes", lambda I, st, a, k, v=v: _int_to_bytes(I, st, v, a, k))
        return
    if is_z3(v) or isinstance(v, (int, Fraction)):
        if name == "real":
            yield st, v
            return
        if name == "is_integer" and not is_z3(v):
            yield st, simple("is_integer", lambda I, st: Fraction(v).denominator == 1)
            return
    if type(v).__name__ == "IinfoVal":
        if name in ("min", "max"):
            yield st, _b.getattr(v, name)
            return
        raise Unsupported("iinfo attribute " + name)
    if type(v).__name__ == "DtypeVal":
        if name == "kind":
            yield st, v.kind
            return
        raise Unsupported("dtype attribute " + name)
    if v is None:
        if name == "__class__":  # None.__class__ is type(None)
            yield st, BuiltinClass("NoneType", type(None))
            return
        yield st, exc("AttributeError", "'NoneType' object has no attribute '%s'" % name)
        return
    if isinstance(v, Unknown):
        raise Unsupported("attribute %s of unmodelled %s" % (name, v.desc))
    raise Unsupported("attribute %s of %r" % (name, v))


def _int_bytes_args(a, k, names):
    """positional / keyword arguments of int.to_bytes / int.from_bytes; length and byteorder must be given (their
    defaults exist only from Python 3.11 on) and concrete"""
    k = dict(k)
    vals = {}
    for n, x in zip(names, a):
        vals[n] = x
    for n in list(k):
        if n in names and n not in vals:
            vals[n] = k.pop(n)
    signed = k.pop("signed", False)
    if k or len(a) > len(names) or any(n not in vals for n in names):
        raise Unsupported("int.to_bytes / int.from_bytes: length and byteorder must be given explicitly")
    if vals["byteorder"] not in ("little", "big") or not isinstance(signed, bool):
        raise Unsupported("int.to_bytes / int.from_bytes: byteorder / signed")
    return vals, signed


def _int_to_bytes(I, st, v, a, k):
    """(concrete int).to_bytes(length, byteorder, *, signed=False): exact (python's own), OverflowError included"""
    vals, signed = _int_bytes_args(a, k, ("length", "byteorder"))
    n = vals["length"]
    if isinstance(n, bool) or not isinstance(n, int):
        raise Unsupported("int.to_bytes with a symbolic length")
    try:
        yield st, v.to_bytes(n, vals["byteorder"], signed=signed)
    except OverflowError as e:
        yield st, exc("OverflowError", str(e))
    except ValueError as e:
        yield st, exc("ValueError", str(e))


def _int_from_bytes(I, st, a, k):
    """int.from_bytes(concrete bytes, byteorder, *, signed=False): exact (python's own)"""
    vals, signed = _int_bytes_args(a, k, ("bytes", "byteorder"))
    b = vals["bytes"]
    if not isinstance(b, (bytes, bytearray)):
        raise Unsupported("int.from_bytes of %r" % (b,))
    yield st, int.from_bytes(bytes(b), vals["byteorder"], signed=signed)


def _class_flags(I, cls):
    """static facts about a class (cached): does a class of its MRO define __getattribute__ / __init_subclass__ / only __slots__"""
    k = ("flags", id(_b.getattr(cls, "node", None)) if isinstance(cls, ClassVal) else cls.name)
    c = I._class_cache.get(k)
    if c is None:
        mro = [x for x in I.mro(cls) if isinstance(x, ClassVal)]
        slots = None
        if mro and all("__slots__" in I.class_members(x) for x in mro) and all(
                isinstance(x, ClassVal) or x.name == "object" for x in I.mro(cls)):
            slots = set()
            for x in mro:
                v, _ = I.class_lookup(x, "__slots__")
                if isinstance(v, str):
                    v = (v,)
                if not isinstance(v, tuple) and type(v).__name__ == "FrozenList":
                    v = tuple(v.items)
                if not isinstance(v, tuple) or not all(isinstance(n, str) for n in v):
                    slots = "?"
                    break
                slots.update(v)
        c = I._class_cache[k] = {
            "getattribute": any("__getattribute__" in I.class_members(x) for x in mro),
            "initsub": any("__init_subclass__" in I.class_members(x) for x in mro),
            "slots": slots,
        }
    return c


def _mangled(cls_name, n):
    return "_" + cls_name.lstrip("_") + n if n.startswith("__") and not n.endswith("__") else n


def slot_check(I, st, cls, name):
    """CPython: an instance of a class whose whole MRO declares __slots__ has no __dict__: only the declared names can be
    bound, anything else raises AttributeError.  -> None (allowed) or the exception"""
    fl = _class_flags(I, cls)
    if fl["slots"] is None or name in ("__class__",) or name.startswith("__") and name.endswith("__"):
        return None
    if fl["slots"] == "?":
        raise Unsupported("__slots__ of %s is not a tuple of literal names" % cls.name)
    allowed = set(fl["slots"])
    for x in I.mro(cls):
        if isinstance(x, ClassVal):
            v, _ = I.class_lookup(x, "__slots__")
            for n in ((v,) if isinstance(v, str) else (v if isinstance(v, tuple) else _b.getattr(v, "items", ()))):
                allowed.add(_mangled(x.name, n))
    if name in allowed or "__dict__" in allowed:
        return None
    return exc("AttributeError", "'%s' object has no attribute '%s'" % (cls.name, name))


def ensure_init_subclass(I, st, cls):
    """`__init_subclass__` hooks: CPython calls `super(C, C).__init_subclass__(**class keywords)` when the statement
    `class C(Base)` is executed.  Classes are static objects of the model, so the hooks of C and of its bases (bases first)
    run the first time C is used on a path; the class attributes they assign are per-path class attributes."""
    if not isinstance(cls, ClassVal) or not _class_flags(I, cls)["initsub"]:
        return
    if ("initsub", id(cls.node)) in st.ghost:
        return
    for c in reversed(I.mro(cls)):
        if not isinstance(c, ClassVal) or ("initsub", id(c.node)) in st.ghost:
            continue
        st.ghost[("initsub", id(c.node))] = True
        hook, where = I.class_lookup(c, "__init_subclass__", start_after=c)
        if hook is None:
            continue
        kw = {}
        from .symex import Frame

        for k in c.node.keywords:
            if k.arg == "metaclass":
                continue
            if k.arg is None:
                raise Unsupported("class statement with ** keywords")
            st.frames.append(Frame({}, None, c.module))
            try:
                outs = list(I.ev(k.value, st))
            finally:
                st.frames.pop()
            if len(outs) != 1 or outs[0][0] is not st or isinstance(outs[0][1], Exc):
                raise Unsupported("class keyword of %s" % c.name)
            kw[k.arg] = outs[0][1]
        before = st.fork()
        outs = list(I.call(hook, [c], kw, st))
        if len(outs) != 1 or outs[0][0] is not st or isinstance(outs[0][1], Exc):
            raise Unsupported("__init_subclass__ for %s forks or raises" % c.name)
        # running the hook late is only the same as running it at class creation if all it does is set attributes of the
        # new class: a hook that changes anything else (a registry of subclasses, a module global) is refused
        if not I._same_store(before, st):
            raise Unsupported("__init_subclass__ for %s changes objects other than the new class" % c.name)
        for gk, gv in st.ghost.items():
            if before.ghost.get(gk, _b) is gv:
                continue
            if isinstance(gk, tuple) and gk and (gk[0] in ("env", "initsub", "default", "decorated") or (gk[0] == "classattr" and gk[1] == id(c.node))):
                continue
            raise Unsupported("__init_subclass__ for %s changes state other than attributes of the new class (%s)" % (c.name, gk[0] if isinstance(gk, tuple) else gk))


def _static_descriptor(I, st, m):
    """a class attribute defined in the class body whose value is an object with __get__/__set__/__delete__ -> (the one
    object per path, get, set, delete) else None"""
    from .symex import FrozenObj

    if not isinstance(m, FrozenObj):
        return None
    g, s_, d = (I.class_lookup(m.cls, n)[0] for n in ("__get__", "__set__", "__delete__"))
    if g is None and s_ is None and d is None:
        return None
    return I.thaw_global(m, st), g, s_, d


def _functools_wraps(I, st, a, k):
    """functools.wraps(wrapped)(wrapper) -> the wrapper with __wrapped__ = wrapped and wrapped's __name__/__doc__/attributes.
    Function values are shared between paths, so the result is a copy of the wrapper carrying the new attributes."""
    if len(a) != 1 or k:
        raise Unsupported("functools.wraps with these arguments")
    wrapped = a[0]

    def deco(I, st, a2, k2):
        if len(a2) != 1 or k2 or not isinstance(a2[0], FuncVal):
            raise Unsupported("functools.wraps applied to a non-function")
        import copy as _copy

        w = _copy.copy(a2[0])
        fa = dict(_b.getattr(a2[0], "fattrs", None) or {})
        if isinstance(wrapped, FuncVal):
            fa.update(_b.getattr(wrapped, "fattrs", None) or {})
            fa["__name__"] = wrapped.name
        fa["__wrapped__"] = wrapped
        w.fattrs = fa
        yield st, w

    yield st, bi("functools.wraps(...)", deco)


def _descriptor_method(I, st, val, which):
    """`which` (__get__/__set__/__delete__) of a store object used as a class attribute, or None"""
    if isinstance(val, Ref) and st.get(val).kind == "obj":
        m, _ = I.class_lookup(st.get(val).cls, which)
        return m
    return None


def _ghost_class_attr(I, st, cls, name):
    """value of a class attribute rebound at run time that an instance of cls sees (nearest class first), else None"""
    if not st.ghost:
        return None
    _, where = I.class_lookup(cls, name)
    for c in I.mro(cls):
        if isinstance(c, ClassVal) and ("classattr", id(c.node), name) in st.ghost:
            return st.ghost[("classattr", id(c.node), name)]
        if where is not None and c == where:
            return None
    return None


def _ghost_data_descriptor(I, st, cls, name):
    gv = _ghost_class_attr(I, st, cls, name)
    return gv is not None and _descriptor_method(I, st, gv, "__set__") is not None


def class_attr_for_instance(I, st, inst, cls, name):
    m, where = I.class_lookup(cls, name)
    if m is None and where is not None:
        yield st, None  # a class attribute whose value is None
        return
    if m is None:
        if name == "__class__":
            yield st, cls
            return
        yield st, exc("AttributeError", "'%s' object has no attribute '%s'" % (cls.name, name))
        return
    if isinstance(m, FuncVal) and "property" in m.decorators():
        yield from I.call(m, [inst], {}, st)
        return
    yield st, bind_member(I, st, m, inst, cls)


_DICT_METHODS = ("get", "items", "keys", "values", "update", "pop", "setdefault", "clear")  # not copy: returns a plain dict in Python, kept out
_LIST_METHODS = ("append", "extend", "insert", "pop", "remove", "index", "count", "clear", "reverse", "sort", "copy")


def bind_member(I, st, m, inst, cls):
    if isinstance(m, FuncVal):
        d = m.decorators()
        if "staticmethod" in d:
            return m
        if "classmethod" in d:
            return BoundMethod(m, cls)
        return BoundMethod(m, inst)
    return I.thaw_global(m, st)  # a mutable class attribute read through an instance is the class's one object


def module_attr(I, st, mv, name):
    if mv.info is not None:
        if mv.info.name == "armi.runLog" or mv.info.name.endswith(".runLog"):
            I.trust("runLog", "A7: armi.runLog calls are effect-free for the model")
            return bi("runLog." + name, lambda I, st, a, k: iter([(st, None)]))
        if ("modglobal", mv.info.name, name) in st.ghost:
            return st.ghost[("modglobal", mv.info.name, name)]  # rebound on this path
        try:
            return I.thaw_global(I.resolve_global(mv.info, name), st)
        except KeyError:
            sub = extract.load_module(mv.info.name + "." + name)
            if sub is not None:
                return ModuleVal(info=sub)
            raise Unsupported("module %s has no attribute %s" % (mv.info.name, name))
    d = I.ext_modules.get(mv.model)
    if d is None:
        raise Unsupported("unmodelled module " + str(mv.model))
    if name in d:
        return d[name]
    sub = mv.model + "." + name
    if sub in I.ext_modules:
        return ModuleVal(model=sub)
    raise Unsupported("unmodelled %s.%s" % (mv.model, name))


def enum_member(I, st, cls, name):
    M = _m()
    m, where = I.class_lookup(cls, name)
    if m is None:
        raise Unsupported("enum member %s.%s" % (cls.name, name))
    if isinstance(m, (FuncVal,)):
        if "classmethod" in m.decorators():
            return BoundMethod(m, cls)
        return m
    return M.EnumMember(cls, name, m)


# ============================================================================ setattr
def setattr(I, st, obj, name, v, raw=False):
    if isinstance(obj, HObj):
        if not raw and obj.cls is not None:
            sa, _ = I.class_lookup(obj.cls, "__setattr__")
            if sa is not None:
                for st1, r in I.call(sa, [obj, name, v], {}, st):
                    yield st1, (r if isinstance(r, Exc) else None)
                return
            m, mwhere = I.class_lookup(obj.cls, name + ".setter")
            if m is not None and I.class_lookup(obj.cls, name)[1] != mwhere:
                m = None  # a subclass redefines the property: the setter of the base class's property does not apply
            if m is not None:
                for st1, r in I.call(m, [obj, v], {}, st):
                    yield st1, (r if isinstance(r, Exc) else None)
                return
        heap_setattr(I, st, obj, name, v)
        yield st, None
        return
    if isinstance(obj, Ref) and st.get(obj).kind == "obj":
        e = st.get(obj)
        if not raw:
            sa, _ = I.class_lookup(e.cls, "__setattr__")
            if sa is not None:
                for st1, r in I.call(sa, [obj, name, v], {}, st):
                    yield st1, (r if isinstance(r, Exc) else None)
                return
            m, mwhere = I.class_lookup(e.cls, name + ".setter")
            if m is not None and I.class_lookup(e.cls, name)[1] != mwhere:
                m = None  # a subclass redefines the property: the setter of the base class's property does not apply
            if m is not None:
                for st1, r in I.call(m, [obj, v], {}, st):
                    yield st1, (r if isinstance(r, Exc) else None)
                return
            gv = _ghost_class_attr(I, st, e.cls, name)
            ds = _descriptor_method(I, st, gv, "__set__") if gv is not None else None
            if ds is not None:
                for st1, r in I.call(ds, [gv, obj, v], {}, st):
                    yield st1, (r if isinstance(r, Exc) else None)
                return
            g, _ = I.class_lookup(e.cls, name)
            from .values import PropertyVal

            sd = _static_descriptor(I, st, g)
            if sd is not None and (sd[2] is not None or sd[3] is not None):
                if sd[2] is None:
                    yield st, exc("AttributeError", "__set__")  # data descriptor without __set__
                    return
                for st1, r in I.call(sd[2], [sd[0], obj, v], {}, st):
                    yield st1, (r if isinstance(r, Exc) else None)
                return
            if isinstance(g, PropertyVal):
                if g.fset is None:
                    yield st, exc("AttributeError", "can't set attribute '%s'" % name)
                    return
                for st1, r in I.call(g.fset, [obj, v], {}, st):
                    yield st1, (r if isinstance(r, Exc) else None)
                return
            if isinstance(g, FuncVal) and "property" in g.decorators():
                yield st, exc("AttributeError", "can't set attribute '%s'" % name)
                return
        if name == "__dict__":
            # obj.__dict__ = d: the instance attributes become exactly the items of d, and d stays the live __dict__
            if not (isinstance(v, Ref) and st.get(v).kind == "dict") or st.get(v).owner is not None:
                raise Unsupported("assignment of a non-dict to __dict__")
            d = st.get(v)
            if not all(isinstance(kk, str) for kk in d.items):
                raise Unsupported("__dict__ with non-string keys")
            e.attrs = dict(d.items)
            d.owner = obj
            yield st, None
            return
        bad = slot_check(I, st, e.cls, name)
        if bad is not None:
            yield st, bad
            return
        e.attrs[name] = v
        yield st, None
        return
    if isinstance(obj, Opaque):
        yield st, None
        return
    if isinstance(obj, ClassVal):
        # class attribute rebinding (e.g. instance counters): kept per path
        if obj.__dict__.get("_xmeta", 0) is not None:
            from . import metaclass as _mc

            _mc.ensure(I, st, obj)
        ensure_init_subclass(I, st, obj)
        st.ghost[("classattr", id(obj.node), name)] = v
        yield st, None
        return
    if isinstance(obj, ModuleVal) and obj.info is not None and not (obj.info.name == "armi.runLog" or obj.info.name.endswith(".runLog")):
        # module.NAME = v: the module global is rebound for the rest of this path (seen by lookup / module_attr)
        st.ghost[("modglobal", obj.info.name, name)] = v
        yield st, None
        return
    raise Unsupported("attribute assignment on %r" % (obj,))


def delattr(I, st, obj, name, raw=False):
    if isinstance(obj, Ref) and st.get(obj).kind == "obj":
        e = st.get(obj)
        if not raw:
            # CPython: type(obj).__delattr__ if defined; else a data descriptor of the class (property deleter, __delete__)
            # takes the deletion; else the instance dictionary entry is removed
            da, _ = I.class_lookup(e.cls, "__delattr__")
            if da is not None:
                for st1, r in I.call(da, [obj, name], {}, st):
                    yield st1, (r if isinstance(r, Exc) else None)
                return
            from .values import PropertyVal

            g = _ghost_class_attr(I, st, e.cls, name)
            if g is None:
                g, _ = I.class_lookup(e.cls, name)
            if isinstance(g, PropertyVal):
                raise Unsupported("del of a run-time property")
            if isinstance(g, FuncVal) and "property" in g.decorators():
                fdel, dwhere = I.class_lookup(e.cls, name + ".deleter")
                if fdel is not None and I.class_lookup(e.cls, name)[1] != dwhere:
                    fdel = None
                if fdel is None:
                    yield st, exc("AttributeError", "property '%s' of '%s' object has no deleter" % (name, e.cls.name))
                    return
                for st1, r in I.call(fdel, [obj], {}, st):
                    yield st1, (r if isinstance(r, Exc) else None)
                return
            sd = _static_descriptor(I, st, g)
            if sd is None and isinstance(g, Ref) and st.get(g).kind == "obj":
                sd = (g,) + tuple(I.class_lookup(st.get(g).cls, n)[0] for n in ("__get__", "__set__", "__delete__"))
            if sd is not None and (sd[2] is not None or sd[3] is not None):
                if sd[3] is None:
                    yield st, exc("AttributeError", "__delete__")
                    return
                for st1, r in I.call(sd[3], [sd[0], obj], {}, st):
                    yield st1, (r if isinstance(r, Exc) else None)
                return
        if name in e.attrs:
            del e.attrs[name]
            yield st, None
        else:
            yield st, exc("AttributeError", name)
        return
    raise Unsupported("del attribute on %r" % (obj,))


# ============================================================================ container methods
def list_method(I, st, ref, name):
    M = _m()

    def L(st):
        return st.get(ref).items

    def append(I, st, a, k):
        L(st).append(a[0])
        yield st, None

    def extend(I, st, a, k):
        L(st).extend(I.iterate(a[0], st))
        yield st, None

    def insert(I, st, a, k):
        i = a[0]
        if not isinstance(i, int):
            raise Unsupported("list.insert at symbolic index")
        L(st).insert(i, a[1])
        yield st, None

    def pop(I, st, a, k):
        items = L(st)
        i = a[0] if a else -1
        if not isinstance(i, int):
            raise Unsupported("list.pop at symbolic index")
        if not items or not (-len(items) <= i < len(items)):
            yield st, exc("IndexError", "pop from empty list / index out of range")
            return
        yield st, items.pop(i)

    def _find(st, x, lo=0, hi=None):
        """-> list of (state, index or None); forks on symbolic equality.  lo / hi: list.index(x, start, stop) searches
        items[start:stop] only (slice semantics for negative / out-of-range bounds) and returns the index in the whole list"""
        items = L(st)
        rng = range(*slice(lo, hi).indices(len(items)))
        conds = [(M.eq_values(I, st, y, x) if i in rng else False) for i, y in enumerate(items)]
        out = []
        prefix = []
        for i, c in enumerate(conds):
            here = M.conj(prefix + [c])
            if I.feasible(st, here):
                s2 = st.fork()
                if is_z3(here):
                    s2.pc.append(here)
                out.append((s2, i))
            if not is_z3(c) and c:
                return out
            prefix.append(M.znot(c))
        none = M.conj(prefix)
        if I.feasible(st, none):
            s3 = st.fork()
            if is_z3(none):
                s3.pc.append(none)
            out.append((s3, None))
        return out

    def remove(I, st, a, k):
        if len(a) != 1 or k:
            raise Unsupported("list.remove takes exactly one argument")
        for s2, i in _find(st, a[0]):
            if i is None:
                yield s2, exc("ValueError", "list.remove(x): x not in list")
            else:
                del s2.get(ref).items[i]
                yield s2, None

    def index(I, st, a, k):
        if k or len(a) > 3 or any(not (isinstance(b, int) or b is None) for b in a[1:]):
            raise Unsupported("list.index with keyword or symbolic bounds")
        for s2, i in _find(st, a[0], *(a[1:])):
            if i is None:
                yield s2, exc("ValueError", "x not in list")
            else:
                yield s2, i

    def count(I, st, a, k):
        if len(a) != 1 or k:
            raise Unsupported("list.count takes exactly one argument")
        items = L(st)
        tot = 0
        for y in items:
            c = M.eq_values(I, st, y, a[0])
            tot = ops_sum(tot, z3.If(c, 1, 0) if is_z3(c) else int(bool(c)))
        yield st, tot

    def sort(I, st, a, k):
        for st1, r in sorted_values(I, st, L(st), k.get("key"), k.get("reverse", False)):
            if isinstance(r, SortFailed):
                st1.get(ref).items[:] = r.arrangement  # the list keeps the partially sorted arrangement
                yield st1, r.exc
            elif isinstance(r, Exc):
                yield st1, r
            else:
                st1.get(ref).items[:] = r
                yield st1, None

    def reverse(I, st, a, k):
        L(st).reverse()
        yield st, None

    def copy(I, st, a, k):
        yield st, st.alloc(type(st.get(ref))(L(st)))  # list.copy() -> list, deque.copy() -> deque

    def clear(I, st, a, k):
        del L(st)[:]
        yield st, None

    def rotate(I, st, a, k):
        n = a[0] if a else 1
        items = L(st)
        ln = len(items)
        I.trust("deque.rotate", "A3: deque.rotate(n) moves each element n places to the right, cyclically")
        if isinstance(n, int):
            if ln:
                s = n % ln
                items[:] = items[-s:] + items[:-s] if s else items
            yield st, None
            return
        n = z3val(n)
        for r in range(ln):
            c = (n % ln) == r
            if I.feasible(st, c):
                s2 = st.fork()
                s2.pc.append(c)
                it = s2.get(ref).items
                it[:] = (it[-r:] + it[:-r]) if r else it
                yield s2, None

    def appendleft(I, st, a, k):
        L(st).insert(0, a[0])
        yield st, None

    def popleft(I, st, a, k):
        if not L(st):
            yield st, exc("IndexError", "pop from an empty deque")
        else:
            yield st, L(st).pop(0)

    tbl = dict(append=append, extend=extend, insert=insert, pop=pop, remove=remove, index=index, count=count,
               sort=sort, reverse=reverse, copy=copy, clear=clear, rotate=rotate, appendleft=appendleft, popleft=popleft)
    if name not in tbl:
        raise Unsupported("list method " + name)
    return bi("list." + name, tbl[name])


def ops_sum(a, b):
    x, y, sym = coerce_pair(a, b)
    return x + y


def sorted_values(I, st, items, key=None, reverse=False):
    """Sort a concrete-length list.  Concrete keys, objects with __lt__, symbolic numbers / tuples (forking)."""
    M = _m()
    items = list(items)  # snapshot: list.sort() writes the result of one path into the very list object passed in
    if key is not None:
        keys = []
        cur = st
        for x in items:
            outs = list(I.call(key, [x], {}, cur))
            if len(outs) != 1 or isinstance(outs[0][1], Exc):
                raise Unsupported("sort key forks or raises")
            cur, kv = outs[0]
            keys.append(kv)
    else:
        keys = list(items)
        cur = st

    def conc(k):
        if isinstance(k, (int, Fraction, str, bool)):
            return True
        if isinstance(k, tuple):
            return all(conc(x) for x in k)
        return False

    if all(conc(k) for k in keys):
        try:
            order = sorted(range(len(items)), key=lambda i: keys[i], reverse=bool(reverse))
        except TypeError:
            yield cur, exc("TypeError", "unorderable")
            return
        I.trust("sorted", "A3: sorted/list.sort is the stable ordering permutation w.r.t. <")
        yield cur, [items[i] for i in order]
        return
    if len(items) <= 1:
        yield cur, list(items)
        return
    if all(obj_lt(I, cur, k) for k in keys):
        yield from sort_objects(I, cur, items, keys, reverse)
        return
    if all(isinstance(k, tuple) and len(k) >= 1 for k in keys):
        # tuples compare lexicographically: if a concrete prefix is pairwise distinct, every comparison is decided
        # inside that prefix and the remaining (symbolic / object) components are never looked at
        for p in range(1, min(len(k) for k in keys) + 1):
            pre = [k[:p] for k in keys]
            if not all(conc(x) for x in pre):
                break
            if len(set(pre)) == len(pre):
                try:
                    order = sorted(range(len(items)), key=lambda i: pre[i], reverse=bool(reverse))
                except TypeError:
                    yield cur, exc("TypeError", "unorderable")
                    return
                I.trust("sorted", "A3: sorted/list.sort is the stable ordering permutation w.r.t. <")
                yield cur, [items[i] for i in order]
                return
    if key is None and reverse in (False, True) and all(_plain_number(k) for k in keys):
        yield from sort_symbolic_numbers(I, cur, items, bool(reverse))
        return
    if all(is_number(k) for k in keys) or all(isinstance(k, tuple) for k in keys):
        # symbolic numbers / tuples (compared lexicographically, element by element): same scheme, `<` by key_lt
        yield from sort_by_pairs(I, cur, items, keys, reverse, lt_fn=key_lt)
        return
    raise Unsupported("sorting symbolic keys")


def key_lt(I, st, x, y):
    """x < y for sort keys: numbers (possibly symbolic), strings, tuples of those (lexicographic; a later element is
    only compared when all earlier ones are equal, as CPython does); objects with __lt__.  yields (state, bool | z3 | Exc)"""
    M = _m()
    if isinstance(x, tuple) and isinstance(y, tuple):
        def rec(s, i):
            if i == len(x) or i == len(y):
                yield s, len(x) < len(y)
                return
            for s1, same in I.branch(s, M.eq_values(I, s, x[i], y[i])):
                if same:
                    yield from rec(s1, i + 1)
                else:
                    yield from key_lt(I, s1, x[i], y[i])
        yield from rec(st, 0)
        return
    yield from M.compare(I, st, "Lt", x, y)


def sort_symbolic_numbers(I, st, items, reverse):
    """sorted() of a concrete-length sequence of numbers, some symbolic: stable insertion sort, one path per feasible
    order.  x goes behind every element that does not have to follow it (<= x ascending, >= x descending) - ties keep
    their input order, as in Python."""
    I.trust("sorted", "A3: sorted/list.sort is the stable ordering permutation w.r.t. <")
    work = [(st, [])]
    for pos in range(len(items)):
        nxt = []
        for s, acc in work:
            x = items[pos]
            m = len(acc)
            for p in range(m + 1):
                conds = []
                if p > 0:
                    a, b, _sym = coerce_pair(acc[p - 1], x)
                    conds.append((a >= b) if reverse else (a <= b))
                if p < m:
                    a, b, _sym = coerce_pair(x, acc[p])
                    conds.append((a > b) if reverse else (a < b))
                c = _m().conj(conds)
                if not I.feasible(s, c):
                    continue
                s2 = s.fork()
                if is_z3(c):
                    s2.pc.append(c)
                nxt.append((s2, acc[:p] + [x] + acc[p:]))
        work = nxt
    for s, acc in work:
        yield s, acc


def obj_lt(I, st, k):
    return isinstance(k, Ref) and st.get(k).kind == "obj" and I.class_lookup(st.get(k).cls, "__lt__")[0] is not None


def sort_by_pairs(I, st, items, keys, reverse, lt_fn=None):
    """sorted() of objects whose class defines __lt__ (keys[i] is the object compared for items[i]).  Every ordered
    pair is compared with the class's __lt__ (forking on symbolic outcomes); if the outcomes form a strict weak
    order the result is THE stable sorted permutation (A3), which is what CPython's sort returns for any consistent
    `<`; otherwise the result would depend on the sorting algorithm: Unsupported."""
    if reverse:
        raise Unsupported("sorting objects by __lt__ with reverse")
    n = len(items)
    if n > 6:
        raise Unsupported("sorting more than 6 objects by __lt__")
    pairs = [(i, j) for i in range(n) for j in range(n) if i != j]

    def rec(s, p, lt):
        if p == len(pairs):
            yield s, lt
            return
        i, j = pairs[p]
        if lt_fn is not None:
            outs = list(lt_fn(I, s, keys[i], keys[j]))
        else:
            m, _ = I.class_lookup(s.get(keys[i]).cls, "__lt__")
            outs = list(I.call(m, [keys[i], keys[j]], {}, s))
        for s1, r in outs:
            if isinstance(r, Exc):
                yield s1, r
                continue
            if isinstance(r, Opaque):
                raise Unsupported("__lt__ returns an uninterpreted value")
            for s2, b in I.branch(s1, I.truth(r, s1)):
                d = dict(lt)
                d[(i, j)] = bool(b)
                yield from rec(s2, p + 1, d)

    for s, lt in rec(st, 0, {}):
        if isinstance(lt, Exc):
            yield s, lt
            continue
        inc = lambda a, b: a == b or (not lt[(a, b)] and not lt[(b, a)])
        for a in range(n):
            for b in range(n):
                if a != b and lt[(a, b)] and lt[(b, a)]:
                    raise Unsupported("__lt__ is not asymmetric on the sorted objects")
                for c in range(n):
                    if len({a, b, c}) == 3:
                        if lt[(a, b)] and lt[(b, c)] and not lt[(a, c)]:
                            raise Unsupported("__lt__ is not transitive on the sorted objects")
                        if inc(a, b) and inc(b, c) and not inc(a, c):
                            raise Unsupported("__lt__ is not a strict weak order on the sorted objects")
        # stable: i before j iff items[i] < items[j], or they are equivalent and i < j
        order = sorted(range(n), key=lambda i: (sum(1 for j in range(n) if j != i and lt[(j, i)]), i))
        I.trust("sorted", "A3: sorted/list.sort is the stable ordering permutation w.r.t. <")
        yield s, [items[i] for i in order]


class SortFailed:
    """a comparison raised during list.sort(): the exception and the arrangement the list is left in"""

    def __init__(self, exc_val, arrangement):
        self.exc, self.arrangement = exc_val, arrangement


def sort_objects(I, st, items, keys, reverse):
    """list.sort / sorted over objects compared by their own __lt__ (symbolic outcomes fork): the EXACT sequence of
    comparisons CPython (3.8-3.12) makes for fewer than 64 elements - count the initial run (strictly descending runs are
    reversed), then binary insertion of the remaining elements.  No assumption that __lt__ is a consistent order.
    yields (state, list) or (state, SortFailed) when a comparison raises."""
    M = _m()
    items, keys = list(items), list(keys)  # snapshots: the caller's list is rewritten per path while other paths are still pending
    n = len(items)
    if reverse:
        raise Unsupported("sorting objects by __lt__ with reverse=True")
    if n >= 64:
        raise Unsupported("sorting 64 or more objects by __lt__ (merge phase not modelled)")
    for kv in keys:
        if M.obj_has(I, st, kv, "__gt__") is not None:
            raise Unsupported("sorting objects whose class also defines __gt__")
    I.trust("list.sort-objects", "A3: list.sort on < 64 objects = CPython's count_run + binary insertion sort, comparisons through __lt__ of the left operand")

    def lt(s, a, b):
        m = M.obj_has(I, s, keys[a], "__lt__")
        for s1, r in list(I.call(m, [keys[a], keys[b]], {}, s)):
            if isinstance(r, Exc):
                yield s1, r
                continue
            if isinstance(r, Opaque):
                raise Unsupported("__lt__ returned NotImplemented / an uninterpreted value during sort")
            for s2, b2 in I.branch(s1, I.truth(r, s1)):
                yield s2, b2

    def run_len(s, idx, k, descending):
        """idx[:k] is a run; extend it"""
        if k == n:
            yield s, k
            return
        for s1, r in lt(s, idx[k], idx[k - 1]):
            if isinstance(r, Exc):
                yield s1, r
            elif bool(r) == descending:
                yield from run_len(s1, idx, k + 1, descending)
            else:
                yield s1, k

    def search(s, idx, pivot, l, r):
        if not (l < r):
            yield s, l
            return
        p = l + ((r - l) >> 1)
        for s1, res in lt(s, pivot, idx[p]):
            if isinstance(res, Exc):
                yield s1, res
            elif res:
                yield from search(s1, idx, pivot, l, p)
            else:
                yield from search(s1, idx, pivot, p + 1, r)

    def binsort(s, idx, start):
        if start >= n:
            yield s, idx
            return
        pivot = idx[start]
        for s1, l in search(s, idx, pivot, 0, start):
            if isinstance(l, Exc):
                yield s1, SortFailed(l, idx)
                continue
            yield from binsort(s1, idx[:l] + [pivot] + idx[l:start] + idx[start + 1:], start + 1)

    idx0 = list(range(n))
    if n < 2:
        yield st, list(items)
        return
    for s1, r in lt(st, 1, 0):
        if isinstance(r, Exc):
            yield s1, SortFailed(r, [items[i] for i in idx0])
            continue
        descending = bool(r)
        for s2, k in run_len(s1, idx0, 2, descending):
            if isinstance(k, Exc):
                yield s2, SortFailed(k, [items[i] for i in idx0])
                continue
            idx = (idx0[:k][::-1] + idx0[k:]) if descending else list(idx0)
            for s3, res in binsort(s2, idx, k):
                if isinstance(res, SortFailed):
                    yield s3, SortFailed(res.exc, [items[i] for i in res.arrangement])
                else:
                    yield s3, [items[i] for i in res]


def dict_method(I, st, ref, name):
    M = _m()

    def D(st):
        return st.get(ref).items

    def get(I, st, a, k):
        d = D(st)
        default = a[1] if len(a) > 1 else k.get("default", None)
        if M.symmode(I, st, st.get(ref), a[0]):
            for s2, v in M.dict_symbolic_get(I, st, st.get(ref), a[0]):
                yield s2, (default if isinstance(v, Exc) else v)
            return
        if _keyed.needs_resolution(I, st, d, a[0]):
            for s2, k1, found in _keyed.resolve_key(I, st, ref, a[0]):
                yield s2, (k1 if isinstance(k1, Exc) else (s2.get(ref).items[k1] if found else default))
            return
        yield st, d.get(I.hashable(a[0]), default)

    # d.items() / d.keys() / d.values() are LIVE views of d (values.DictViewE), not lists and not snapshots
    def items(I, st, a, k):
        if a or k:
            raise Unsupported("dict.items takes no argument")
        r = st.alloc(DictViewE(ref, "items"))
        st.get(r)
        yield st, r

    def keys(I, st, a, k):
        if a or k:
            raise Unsupported("dict.keys takes no argument")
        r = st.alloc(DictViewE(ref, "keys"))
        st.get(r)
        yield st, r

    def values(I, st, a, k):
        if a or k:
            raise Unsupported("dict.values takes no argument")
        r = st.alloc(DictViewE(ref, "values"))
        st.get(r)
        yield st, r

    def update(I, st, a, k):
        d = D(st)
        if M.dict_symkeyed(st.get(ref)) or (a and isinstance(a[0], Ref) and st.get(a[0]).kind == "dict" and M.dict_symkeyed(st.get(a[0])) and d):
            raise Unsupported("dict.update with symbolic keys")
        if a:
            src = a[0]
            if isinstance(src, Ref) and st.get(src).kind == "dict":
                d.update(st.get(src).items)
            else:
                for kk, vv in _mapping_or_pairs(I, st, src):
                    d[I.hashable(kk)] = vv
        d.update(k)
        yield st, None

    def pop(I, st, a, k):
        d = D(st)
        if M.symmode(I, st, st.get(ref), a[0]):
            raise Unsupported("dict.pop with symbolic keys")
        if not is_z3(a[0]) and _keyed.needs_resolution(I, st, d, a[0]):
            for s2, k1, found in _keyed.resolve_key(I, st, ref, a[0]):
                if isinstance(k1, Exc):
                    yield s2, k1
                elif found:
                    yield s2, s2.get(ref).items.pop(k1)
                elif len(a) > 1:
                    yield s2, a[1]
                else:
                    yield s2, exc("KeyError", k1)
            return
        key = I.hashable(a[0])
        if key in d:
            yield st, d.pop(key)
        elif len(a) > 1:
            yield st, a[1]
        else:
            yield st, exc("KeyError", key)

    def setdefault(I, st, a, k):
        d = D(st)
        if M.symmode(I, st, st.get(ref), a[0]):
            raise Unsupported("dict.setdefault with symbolic keys")
        if not is_z3(a[0]) and _keyed.needs_resolution(I, st, d, a[0]):
            for s2, k1, found in _keyed.resolve_key(I, st, ref, a[0]):
                if isinstance(k1, Exc):
                    yield s2, k1
                    continue
                d2 = s2.get(ref).items
                if not found:
                    d2[k1] = a[1] if len(a) > 1 else None
                yield s2, d2[k1]
            return
        key = I.hashable(a[0])
        if key not in d:
            d[key] = a[1] if len(a) > 1 else None
        yield st, d[key]

    def copy(I, st, a, k):
        yield st, st.alloc(DictE(D(st)))

    def clear(I, st, a, k):
        D(st).clear()
        yield st, None

    tbl = dict(get=get, items=items, keys=keys, values=values, update=update, pop=pop, setdefault=setdefault, copy=copy, clear=clear)
    if name not in tbl:
        raise Unsupported("dict method " + name)
    return bi("dict." + name, tbl[name])


def _plain_number(v):
    return (isinstance(v, (int, Fraction)) and not isinstance(v, bool)) or (is_z3(v) and (z3.is_int(v) or z3.is_real(v)))


def numset_add(I, st, ref, x):
    """set.add(x) where x or an element already in the set is a symbolic number: x is a member iff it EQUALS an element
    (numbers hash by value), so fork on x == e for each element e; on the remaining path x differs from all and is added."""
    e = st.get(ref)
    if not _plain_number(x) or not all(_plain_number(i) for i in e.items):
        raise Unsupported("set mixing symbolic numbers with other keys")
    if e.kind == "set":
        st.store[ref.id] = NumSetE(e.items)
    n = len(e.items)
    pending = [st]
    for idx in range(n):
        nxt = []
        for s in pending:
            for s2, t in I.branch(s, _m().eq_values(I, s, s.get(ref).items[idx], x)):
                if t:
                    yield s2, None
                else:
                    nxt.append(s2)
        pending = nxt
    for s in pending:
        s.get(ref).items.append(x)
        yield s, None


def _dict_fromkeys(I, st, a, k):
    keys = I.iterate(a[0], st)
    v = a[1] if len(a) > 1 else None
    yield st, st.alloc(DictE({I.hashable(x): v for x in keys}))


def set_method(I, st, ref, name):
    def S(st):
        return st.get(ref).items

    def same_type(st, items):
        # s.union(..) / s.copy() ... of a frozenset is a frozenset, of a set a set
        return st.alloc(FrozenSetE(items) if st.get(ref).frozen else SetE(items))

    if st.get(ref).frozen and name in ("add", "discard", "remove", "update", "difference_update", "intersection_update",
                                       "symmetric_difference_update", "pop", "clear"):
        raise Unsupported("frozenset has no method %s (AttributeError in Python)" % name)

    def add(I, st, a, k):
        if (is_z3(a[0]) and _plain_number(a[0])) or st.get(ref).kind == "numset":
            yield from numset_add(I, st, ref, a[0])
            return
        x = I.set_elem(st, a[0], S(st))
        if x not in S(st):
            S(st).append(x)
        yield st, None

    def discard(I, st, a, k):
        x = I.set_elem(st, a[0], S(st))
        if x in S(st):
            S(st).remove(x)
        yield st, None

    def remove(I, st, a, k):
        x = I.set_elem(st, a[0], S(st))
        if x in S(st):
            S(st).remove(x)
            yield st, None
        else:
            yield st, exc("KeyError", x)

    def update(I, st, a, k):
        for src in a:
            for x in I.iterate(src, st):
                x = I.set_elem(st, x, S(st))
                if x not in S(st):
                    S(st).append(x)
        yield st, None

    def union(I, st, a, k):
        out = list(S(st))
        for src in a:
            for x in I.iterate(src, st):
                I.set_elem(st, x, out)
                if x not in out:
                    out.append(x)
        yield st, same_type(st, out)

    def intersection(I, st, a, k):
        out = list(S(st))
        for src in a:
            other = I.iterate(src, st)
            for x in other:
                I.set_elem(st, x, out)
            out = [x for x in out if x in other]
        yield st, same_type(st, out)

    def difference(I, st, a, k):
        out = list(S(st))
        for src in a:
            other = I.iterate(src, st)
            for x in other:
                I.set_elem(st, x, out)
            out = [x for x in out if x not in other]
        yield st, same_type(st, out)

    def difference_update(I, st, a, k):
        # s.difference_update(*others): remove every element found in any of the others (in place, returns None)
        for src in a:
            other = [I.set_elem(st, x, S(st)) for x in I.iterate(src, st)]
            S(st)[:] = [x for x in S(st) if x not in other]
        yield st, None

    def issubset(I, st, a, k):
        other = I.iterate(a[0], st)
        for x in S(st):
            I.set_elem(st, x, other)
        yield st, all(x in other for x in S(st))

    def copy(I, st, a, k):
        yield st, same_type(st, S(st))

    def symmetric_difference(I, st, a, k):
        # s.symmetric_difference(other): elements in exactly one of the two (exactly one argument; concrete keys only)
        if len(a) != 1 or k:
            raise Unsupported("set.symmetric_difference takes exactly one argument")
        mine = list(S(st))
        other = []
        for x in I.iterate(a[0], st):
            x = I.set_elem(st, x, S(st))
            if x not in other:
                other.append(x)
        if any(is_z3(x) for x in mine + other) or st.get(ref).kind == "numset":
            raise Unsupported("set.symmetric_difference over symbolic elements")
        yield st, same_type(st, [x for x in mine if x not in other] + [x for x in other if x not in mine])

    tbl = dict(add=add, discard=discard, remove=remove, update=update, union=union, intersection=intersection,
               difference=difference, difference_update=difference_update, issubset=issubset, copy=copy,
               symmetric_difference=symmetric_difference)
    if name not in tbl:
        raise Unsupported("set method " + name)
    return bi("set." + name, tbl[name])


def symlist_method(I, st, ref, name):
    def append(I, st, a, k):
        e = st.get(ref)
        e.arr = z3.Store(e.arr, e.length, z3val(as_arith(a[0])))
        e.length = e.length + 1
        yield st, None

    def pop(I, st, a, k):
        e = st.get(ref)
        i = z3val(as_arith(a[0])) if a else z3.IntVal(-1)
        n = e.length
        for st1, ok in I.branch(st, z3.And(i >= -n, i < n)):
            if not ok:
                yield st1, exc("IndexError", "pop index out of range")
                continue
            e1 = st1.get(ref)
            p = z3.simplify(z3.If(i < 0, i + n, i))
            kk = z3.Int("k!pop")
            val = z3.Select(e1.arr, p)
            I.trust("list.pop", "A3: list.pop(i) removes position i and shifts the tail left")
            e1.arr = z3.Lambda([kk], z3.If(kk < p, z3.Select(e1.arr, kk), z3.Select(e1.arr, kk + 1)))
            e1.length = n - 1
            st1.ghost["last_pop_pos"] = p
            yield st1, val

    tbl = dict(append=append, pop=pop)
    if name not in tbl:
        raise Unsupported("method %s on a symbolic-length list" % name)
    return bi("symlist." + name, tbl[name])


def heapseq_method(I, st, hs, name):
    def wrap1(meth):
        def fn(I, st, a, k):
            yield from meth(I, st, *a)

        return fn

    tbl = dict(append=hs.append, insert=hs.insert, remove=hs.remove, index=hs.index, pop=hs.pop, clear=hs.clear)
    if name not in tbl:
        raise Unsupported("method %s on a heap sequence" % name)
    return bi("heapseq." + name, wrap1(tbl[name]))


def str_method(I, st, s, name):
    if not hasattr(s, name):
        raise Unsupported("str attribute " + name)
    pm = _b.getattr(s, name)

    def fn(I, st, a, k):
        def conc(x):
            if isinstance(x, Fraction):
                return float(x)
            if isinstance(x, (str, int, bool, bytes, type(None))):
                return x
            if isinstance(x, tuple):
                return tuple(conc(y) for y in x)
            if isinstance(x, Ref) and st.get(x).kind == "list":
                return [conc(y) for y in st.get(x).items]
            raise Unsupported("symbolic")

        try:
            ca = [conc(x) for x in a]
            ck = {kk: conc(v) for kk, v in k.items()}
        except Unsupported:
            if name == "format" and isinstance(s, str):
                r = _format_symbolic(s, a, k)
                if r is not None:
                    yield st, r
                    return
            if name in ("format", "join"):
                yield st, Opaque("str." + name)
                return
            raise Unsupported("str.%s with symbolic argument" % name)
        try:
            r = pm(*ca, **ck)
        except Exception as e:  # noqa
            yield st, exc(type(e).__name__, str(e))
            return
        if isinstance(r, list):
            r = st.alloc(ListE(r))
        if isinstance(r, float):
            r = to_frac(r)
        yield st, r

    return bi("str." + name, fn)


def _format_symbolic(fmt, args, kwargs):
    """fmt.format(*args, **kwargs) where some arguments are symbolic ints: -> FmtStr, or None (caller falls back to an
    uninterpreted string) when a field is outside the modelled forms"""
    import string as _string
    from .values import FmtStr, fmt_int_field, build_fmtstr

    parts = []
    auto = 0
    try:
        fields = list(_string.Formatter().parse(fmt))
    except ValueError:
        return None
    for lit, fname, spec, conv in fields:
        if lit:
            parts.append(("lit", lit))
        if fname is None:
            continue
        if conv is not None or (spec and ("{" in spec)):
            return None
        if fname == "":
            if auto is None:
                return None
            key, auto = auto, auto + 1
        elif fname.isdigit():
            if auto:
                return None
            key, auto = int(fname), None
        elif fname.isidentifier():
            key = fname
        else:
            return None
        try:
            v = args[key] if isinstance(key, int) else kwargs[key]
        except (IndexError, KeyError):
            return None
        v = as_arith(v) if not isinstance(v, str) else v
        if isinstance(v, str):
            try:
                parts.append(("lit", format(v, spec or "")))
            except ValueError:
                return None
        elif isinstance(v, FmtStr) and not spec:
            parts.extend(v.parts)
        elif (isinstance(v, int) and not isinstance(v, bool)) or (is_z3(v) and z3.is_int(v)):
            p = fmt_int_field(v, spec)
            if p is None:
                return None
            parts.append(p)
        else:
            return None
    return build_fmtstr(parts)


# ---- regular expressions: concrete only (pattern, subject and results are concrete strings); the CPython `re`
# engine is the model.  Anything symbolic is Unsupported.
import re as _re  # noqa: E402

_RE_METHODS = {"match", "fullmatch", "search", "findall", "sub", "split", "group", "groups", "groupdict", "start", "end", "span"}
_RE_ATTRS = {"pattern", "groups", "string", "lastindex"}


def _re_conc(x):
    if isinstance(x, (str, int, bool, type(None), _re.Pattern, _re.Match)) and not is_z3(x):
        return x
    if isinstance(x, tuple):
        return tuple(_re_conc(y) for y in x)
    raise Unsupported("re with a symbolic / non-string argument")


def _re_result(st, r):
    if isinstance(r, list):
        return st.alloc(ListE([_re_result(st, x) for x in r]))
    if isinstance(r, dict):
        return st.alloc(DictE({k: _re_result(st, x) for k, x in r.items()}))
    if isinstance(r, tuple):
        return tuple(_re_result(st, x) for x in r)
    if isinstance(r, (str, int, bool, type(None), _re.Pattern, _re.Match)):
        return r
    raise Unsupported("re result %r" % (r,))


def re_call(pyfn, label):
    def fn(I, st, a, k):
        ca = [_re_conc(x) for x in a]
        ck = {kk: _re_conc(x) for kk, x in k.items()}
        try:
            r = pyfn(*ca, **ck)
        except Exception as e:  # noqa
            yield st, exc(type(e).__name__ if type(e).__name__ in ("IndexError", "TypeError", "ValueError") else "ValueError", str(e))
            return
        yield st, _re_result(st, r)

    return bi(label, fn)


def re_method(I, st, v, name):
    if isinstance(v, _re.Match) and name in ("group", "groups", "groupdict", "start", "end", "span"):
        return re_call(_b.getattr(v, name), "re.Match." + name)
    if isinstance(v, _re.Pattern) and name in ("match", "fullmatch", "search", "findall", "sub", "split"):
        return re_call(_b.getattr(v, name), "re.Pattern." + name)
    if name in _RE_ATTRS and not (isinstance(v, _re.Match) and name == "groups"):
        return _re_result(st, _b.getattr(v, name))
    raise Unsupported("re attribute " + name)


# ============================================================================ builtin classes as callables
def _mapping_or_pairs(I, st, src):
    """dict(src) / d.update(src) for a non-dict source, CPython's rule: an object that has a `keys` attribute is read as a
    mapping (for k in src.keys(): src[k]); anything else is iterated as key/value pairs (a wrong pair length is an error the
    model does not fork: Unsupported).  Every call involved must have exactly one, non-raising outcome."""
    def one(outs, what):
        outs = list(outs)
        if len(outs) != 1 or isinstance(outs[0][1], Exc) or outs[0][0] is not st:
            raise Unsupported("dict(...) from a mapping-like object: %s forks or raises" % what)
        return outs[0][1]

    if isinstance(src, Ref) and st.get(src).kind == "obj":
        outs = list(I.getattr(src, "keys", st))
        if len(outs) == 1 and outs[0][0] is st and not isinstance(outs[0][1], Exc):
            keys = I.iterate(one(I.call(outs[0][1], [], {}, st), "keys()"), st)
            return [(kk, one(_m().getitem(I, st, src, kk), "__getitem__")) for kk in keys]
        if not (len(outs) == 1 and isinstance(outs[0][1], Exc) and outs[0][1].exc.cls.name == "AttributeError"):
            raise Unsupported("dict(...) from an object whose `keys` lookup forks")
    out = []
    for kv in I.iterate(src, st):
        pair = I.iterate(kv, st)
        if len(pair) != 2:
            raise Unsupported("dict(...) from a sequence whose elements are not pairs")
        out.append((pair[0], pair[1]))
    return out


def call_builtin_class(I, st, c, args, kwargs):
    M = _m()
    n = c.name
    if c.pyobj is not None and isinstance(c.pyobj, type) and issubclass(c.pyobj, BaseException):
        yield st, ExcVal(c, args)
        return
    if n == "int":
        if len(args) > 1 or kwargs:
            # int(text, base): python's own conversion on concrete arguments (the base must not be dropped)
            base = args[1] if len(args) > 1 else kwargs.get("base")
            if len(args) > 2 or set(kwargs) - {"base"} or not args or not isinstance(args[0], str) or not isinstance(base, int) or isinstance(base, bool):
                raise Unsupported("int() with these arguments")
            try:
                yield st, int(args[0], base)
            except ValueError as e:
                yield st, exc("ValueError", str(e))
            return
        yield from to_int(I, st, args[0] if args else 0)
    elif n == "float":
        if len(args) > 1 or kwargs:
            raise Unsupported("float() with more than one argument")
        yield from to_float(I, st, args[0] if args else Fraction(0))
    elif n == "bool":
        yield st, I.truth(args[0], st) if args else False
    elif n == "str":
        v = args[0] if args else ""
        if isinstance(v, str):
            yield st, v
        elif isinstance(v, (int, bool)) or v is None:
            yield st, str(v)
        elif isinstance(v, Fraction):
            yield st, repr(float(v))
        elif isinstance(v, M.EnumMember):
            m, _ = I.class_lookup(v.cls, "__str__")
            if isinstance(m, FuncVal):
                yield from I.call(BoundMethod(m, v), [], {}, st)  # the enum's own __str__
            elif (m is None and not any(I.class_lookup(v.cls, h)[0] is not None for h in ("__repr__", "__format__"))
                  and [ast.unparse(b) for b in v.cls.node.bases] in (["enum.Enum"], ["Enum"])):  # not IntEnum / Flag / StrEnum
                yield st, "%s.%s" % (v.cls.name, v.name)  # enum.Enum.__str__
            else:
                yield st, Opaque("str()")
        elif isinstance(v, Ref) and st.get(v).kind == "obj" and I.class_lookup(st.get(v).cls, "__str__")[0] is not None:
            # str(obj) is type(obj).__str__(obj)
            yield from I.call(BoundMethod(I.class_lookup(st.get(v).cls, "__str__")[0], v), [], {}, st)
        else:
            # str(x) = type(x).__str__(x) when the class (of an object or an enum member) defines __str__
            vcls = None
            if isinstance(v, Ref) and st.get(v).kind == "obj" and isinstance(st.get(v).cls, ClassVal):
                vcls = st.get(v).cls
            elif isinstance(v, M.EnumMember) and isinstance(v.cls, ClassVal):
                vcls = v.cls
            m = I.class_lookup(vcls, "__str__")[0] if vcls is not None else None
            if isinstance(m, FuncVal):
                for st1, r in I.call(m, [v], {}, st):
                    if not isinstance(r, Exc) and not isinstance(r, (str, Opaque)):
                        yield st1, exc("TypeError", "__str__ returned non-string")
                    else:
                        yield st1, r
            else:
                yield st, Opaque("str()")
    elif n == "tuple":
        yield st, tuple(I.iterate(args[0], st)) if args else ()
    elif n == "list":
        if args and isinstance(args[0], SymSetOf):
            yield st, args[0]
            return
        yield st, st.alloc(ListE(I.iterate(args[0], st) if args else []))
    elif (n == "set" or n == "frozenset") and args and isinstance(args[0], Ref) and st.get(args[0]).kind == "symlist":
        yield st, SymSetOf(args[0])
    elif n == "set" or n == "frozenset":
        items = []
        for x in I.iterate(args[0], st) if args else []:
            I.set_elem(st, x, items)
            if x not in items:
                items.append(x)
        # frozenset(...) is immutable and is not a `set` (values.FrozenSetE)
        yield st, st.alloc(FrozenSetE(items) if n == "frozenset" else SetE(items))
    elif n == "dict":
        d = {}
        if args:
            src = args[0]
            if isinstance(src, Ref) and st.get(src).kind == "dict":
                d.update(st.get(src).items)
            else:
                for kk, vv in _mapping_or_pairs(I, st, src):
                    d[I.hashable(kk)] = vv
        d.update(kwargs)
        yield st, st.alloc(DictE(d))
    elif n == "object":
        yield st, Opaque("object()")
    elif n == "deque":
        yield st, st.alloc(DequeE(I.iterate(args[0], st) if args else []))
    elif n == "type":
        yield st, type_of(I, st, args[0])
    elif n == "range":
        bad = [a for a in args if a is None or isinstance(a, (tuple, str)) or (isinstance(a, Ref) and st.get(a).kind in ("list", "dict", "set"))]
        if bad:
            # range(None) / range((2, 3)) / range("3") / range([..]): exactly Python's TypeError
            yield st, exc("TypeError", "object cannot be interpreted as an integer")
            return
        yield st, make_range(I, st, args)
    elif n == "ndarray":
        from . import npmodel

        yield from npmodel.ndarray_new(I, st, args, kwargs)
    else:
        raise Unsupported("call of builtin class " + n)


def type_of(I, st, v):
    if isinstance(v, Ref):
        e = st.get(v)
        if e.kind == "obj":
            return e.cls
        if e.__class__ is DictViewE:
            raise Unsupported("type() of a dictionary view")
        if e.kind == "set" and e.frozen:
            return BuiltinClass("frozenset", frozenset)
        return BuiltinClass({"list": "list", "dict": "dict", "set": "set", "nd": "ndarray", "deque": "deque", "symlist": "list"}[e.kind])
    if isinstance(v, HObj):
        return v.cls
    if isinstance(v, bool) or (is_z3(v) and z3.is_bool(v)):
        return BuiltinClass("bool", bool)
    if is_intlike(v):
        return BuiltinClass("int", int)
    if is_reallike(v):
        return BuiltinClass("float", float)
    if isinstance(v, str):
        return BuiltinClass("str", str)
    if isinstance(v, tuple):
        return BuiltinClass("tuple", tuple)
    if v is None:
        return BuiltinClass("NoneType", type(None))
    if isinstance(v, ExcVal):
        return v.cls
    if isinstance(v, ClassVal):
        from . import metaclass as _mc

        m = _mc.executed(I, v)
        if m is not None:
            return m  # type(cls) of a class made by a metaclass the engine executes
    raise Unsupported("type() of %r" % (v,))


def to_int(I, st, v):
    v = as_arith(v)
    if isinstance(v, int):
        yield st, v
    elif isinstance(v, Fraction):
        yield st, math.trunc(v)
    elif isinstance(v, str):
        try:
            yield st, int(v)
        except ValueError as e:
            yield st, exc("ValueError", str(e))
    elif is_z3(v) and z3.is_int(v):
        yield st, v
    elif is_z3(v) and z3.is_real(v):
        yield st, ops.z_trunc(v)
    elif isinstance(v, _FmtStr()):
        yield from _int_of_fmtstr(I, st, v)
    elif isinstance(v, Opaque):
        raise Unsupported("int() of an uninterpreted string")
    elif isinstance(v, Ref) and st.get(v).kind == "obj" and isinstance(st.get(v).cls, ClassVal) and isinstance(
            I.class_lookup(st.get(v).cls, "__int__")[0], FuncVal):
        # int(obj) is type(obj).__int__(obj); the result must be an int
        for st1, r in I.call(I.class_lookup(st.get(v).cls, "__int__")[0], [v], {}, st):
            if isinstance(r, Exc) or (is_intlike(r) and not is_boollike(r)):
                yield st1, r
            elif is_boollike(r):
                raise Unsupported("__int__ returning a bool")
            else:
                yield st1, exc("TypeError", "__int__ returned non-int")
    elif v is None or isinstance(v, tuple) or (isinstance(v, Ref) and st.get(v).kind in ("list", "dict", "set")):
        yield st, exc("TypeError", "int() argument must be a string, a bytes-like object or a real number")
    else:
        raise Unsupported("int() of %r" % (v,))  # bytes, float('inf') (OverflowError), objects with __index__ / __trunc__ ...


def _FmtStr():
    from .values import FmtStr

    return FmtStr


def _int_of_fmtstr(I, st, v):
    """int(s) for a formatted string made of decimal digits only: literal digit runs and NON-NEGATIVE int fields that
    are zero-filled (or not padded).  The value is the decimal reading of the concatenation; the number of digits of a
    field is max(width, number of digits of its value): case split on the magnitude (< 10, < 100, ... < 10**9)."""
    for p in v.parts:
        if p[0] == "lit" and not (p[1].isdigit() and p[1].isascii()):
            raise Unsupported("int() of a formatted string with non-digit text")
        if p[0] == "int" and p[3] != "0" and p[2] > 1:
            raise Unsupported("int() of a formatted string with space padding")

    def rec(s, i, val):
        if i == len(v.parts):
            yield s, val
            return
        p = v.parts[i]
        if p[0] == "lit":
            yield from rec(s, i + 1, val * (10 ** len(p[1])) + int(p[1]))
            return
        t, width = p[1], p[2]
        for s1, nonneg in I.branch(s, t >= 0):
            if not nonneg:
                raise Unsupported("int() of a formatted string with a possibly negative field")
            lo = 0
            for nd in range(1, 11):
                if nd == 10:
                    if I.feasible(s1, t >= 10 ** 9):
                        raise Unsupported("int() of a formatted string with a field >= 10**9")
                    break
                hi = 10 ** nd
                cond = z3.And(t >= lo, t < hi) if lo else t < hi
                if I.feasible(s1, cond):
                    s2 = s1.fork()
                    s2.pc.append(cond)
                    yield from rec(s2, i + 1, val * (10 ** max(width, nd)) + t)
                lo = hi

    yield from rec(st, 0, 0)


def to_float(I, st, v):
    v = as_arith(v)
    if isinstance(v, (int, Fraction)):
        yield st, Fraction(v)
    elif isinstance(v, str):
        try:
            f = float(v)
        except ValueError as e:
            yield st, exc("ValueError", str(e))
            return
        if f != f:
            yield st, Opaque("nan")  # float("nan"): the NaN literal (A1: no real value is NaN)
            return
        if f in (math.inf, -math.inf):
            from .values import Inf

            yield st, Inf(1 if f > 0 else -1)
            return
        yield st, to_frac(f)
    elif is_z3(v) and z3.is_int(v):
        yield st, z3.ToReal(v)
    elif is_z3(v) and z3.is_real(v):
        yield st, v
    elif v is None or isinstance(v, tuple) or (isinstance(v, Ref) and st.get(v).kind in ("list", "dict", "set")):
        yield st, exc("TypeError", "float() argument must be a string or a real number")
    else:
        raise Unsupported("float() of %r" % (v,))  # objects with __float__ / __index__, bytes, inf ...


def make_range(I, st, args):
    M = _m()
    args = [as_arith(a) for a in args]
    if all(isinstance(a, int) for a in args):
        return range(*args)
    if len(args) == 1:
        return M.SymRange(0, args[0], 1)
    if len(args) == 2:
        return M.SymRange(args[0], args[1], 1)
    if len(args) == 3 and isinstance(args[2], int):
        return M.SymRange(args[0], args[1], args[2])
    raise Unsupported("range with symbolic step")


# ============================================================================ builtins
def make_builtins(I):
    M = _m()
    B = {}

    def add(name, fn):
        B[name] = Builtin(name, fn)

    for nm in ("int", "float", "bool", "str", "tuple", "list", "set", "frozenset", "dict", "object", "type", "range",
               "bytes", "bytearray"):
        B[nm] = BuiltinClass(nm, _b.__dict__.get(nm))
    for nm, o in _b.__dict__.items():
        if isinstance(o, type) and issubclass(o, BaseException):
            B[nm] = BuiltinClass(nm, o)
    B["None"] = None
    B["True"] = True
    B["False"] = False
    B["NotImplemented"] = Opaque("NotImplemented")
    B["__name__"] = "__pyvc__"
    B["NATIVE"] = False

    def _len(I, st, a, k):
        v = a[0]
        from . import bytesmodel

        if isinstance(v, Ref) and isinstance(st.get(v), IterE):
            yield st, exc("TypeError", "object of type 'iterator' has no len()")
            return
        if isinstance(v, (tuple, str, bytes)):
            yield st, len(v)
        elif isinstance(v, bytesmodel.BytesVal):
            yield st, v.length()
        elif isinstance(v, HeapSeq):
            yield st, v.length(I, st)
        elif isinstance(v, ObjDict):
            yield st, len(v.attrs(st))
        elif isinstance(v, Ref):
            e = st.get(v)
            if e.kind in ("list", "deque", "set", "dict", "numset"):
                yield st, len(e.items)
            elif e.kind == "symlist":
                yield st, e.length
            elif e.kind == "nd":
                if not e.shape:
                    yield st, exc("TypeError", "len() of unsized object")
                else:
                    yield st, e.shape[0]
            elif e.kind == "obj":
                m, _ = I.class_lookup(e.cls, "__len__")
                if m is None and "__list__" in e.attrs:
                    yield st, len(st.get(e.attrs["__list__"]).items)
                elif m is None and "__dictdata__" in e.attrs:
                    yield st, len(st.get(e.attrs["__dictdata__"]).items)
                elif m is None:
                    yield st, exc("TypeError", "object has no len()")
                else:
                    yield from I.call(m, [v], {}, st)
        elif isinstance(v, range):
            yield st, len(v)
        elif isinstance(v, M.SymRange):
            d = ops.zmax(0, ops_sub(v.hi, v.lo))
            yield st, d
        elif hasattr(v, "items") and isinstance(getattr_py(v, "items"), (list, dict)):
            yield st, len(v.items)
        elif isinstance(v, frozenset):
            yield st, len(v)
        elif v is None or is_number(v):
            yield st, exc("TypeError", "object has no len()")
        else:
            raise Unsupported("len of %r" % (v,))

    add("len", _len)

    def _abs(I, st, a, k):
        v = as_arith(a[0])
        if is_z3(v):
            yield st, ops.z_abs(v)
        elif isinstance(v, Ref) and st.get(v).kind == "nd":
            from . import npmodel

            yield st, npmodel.nd_map(I, st, v, lambda x: ops.z_abs(x) if is_z3(x) else abs(x))
        else:
            yield st, abs(v)

    add("abs", _abs)

    def _minmax(which):
        def fn(I, st, a, k):
            if "key" in k:
                raise Unsupported("min/max with key")
            items = I.iterate(a[0], st) if len(a) == 1 else list(a)
            if not items:
                if "default" in k:
                    yield st, k["default"]
                else:
                    yield st, exc("ValueError", "%s() arg is an empty sequence" % which)
                return
            if all(isinstance(x, tuple) for x in items):
                if all(all(isinstance(y, (int, Fraction)) for y in x) for x in items):
                    yield st, (min(items) if which == "min" else max(items))
                    return
                raise Unsupported("min/max over symbolic tuples")
            if any(isinstance(x, _m().Inf) for x in items):
                raise Unsupported("min/max with float('inf')")
            if not all(is_number(x) for x in items):
                if all(isinstance(x, str) for x in items):
                    yield st, (min(items) if which == "min" else max(items))
                    return
                if any(isinstance(x, Opaque) for x in items):
                    # e.g. max(nan, 1.0) is nan but max(1.0, nan) is 1.0 in CPython (every comparison with NaN is False)
                    raise Unsupported("%s() over an uninterpreted value (nan)" % which)
                if all(x is None or is_number(x) or isinstance(x, str) for x in items):
                    yield st, exc("TypeError", "unorderable types in %s()" % which)  # numbers mixed with str / None
                    return
                # e.g. max(2-d array): rows are compared with <, whose truth value is ambiguous (ValueError); lists compare
                # lexicographically; objects by __lt__
                raise Unsupported("min/max over values ordered by something else than numbers (lists, arrays, objects with __lt__, ...)")
            # min / max return one of their ARGUMENTS, with its own type: max(0, x) is the int 0 or the float x.  Arguments
            # of one kind are merged into one term; an int against a float splits the path (the merged term would be a
            # real whatever the outcome, and isinstance / `//` on it would see a float)
            cur = [(st, items[0])]
            for x in items[1:]:
                nxt = []
                for s1, r in cur:
                    ra, xa = as_arith(r), as_arith(x)
                    if (is_z3(ra) or is_z3(xa)) and is_intlike(ra) != is_intlike(xa):
                        for s2, take in I.branch(s1, ops.num_compare("Lt" if which == "min" else "Gt", xa, ra)):
                            nxt.append((s2, x if take else r))
                    else:
                        nxt.append((s1, ops.zmin(r, x) if which == "min" else ops.zmax(r, x)))
                cur = nxt
            yield from cur

        return fn

    add("min", _minmax("min"))
    add("max", _minmax("max"))

    def _sum(I, st, a, k):
        if isinstance(a[0], Ref) and st.get(a[0]).kind == "symlist":
            outs = list(I.call(I.builtins["psum"], [a[0], st.get(a[0]).length], {}, st))
            start = a[1] if len(a) > 1 else k.get("start", 0)
            for s1, v in outs:
                if isinstance(v, Exc) or (not is_z3(start) and start == 0):
                    yield s1, v
                else:
                    yield from M.binop(I, s1, "Add", start, v)
            return
        items = I.iterate(a[0], st)
        tot = a[1] if len(a) > 1 else k.get("start", 0)
        cur = [(st, tot)]
        for x in items:
            nxt = []
            for s1, t in cur:
                if isinstance(t, Exc):  # an addition already raised on this path: sum() stops there
                    nxt.append((s1, t))
                    continue
                for s2, r in M.binop(I, s1, "Add", t, x):
                    nxt.append((s2, r))
            cur = nxt
        for s1, t in cur:
            yield s1, t

    add("sum", _sum)

    def _divmod(I, st, a, k):
        for s1, q in M.binop(I, st, "FloorDiv", a[0], a[1]):
            if isinstance(q, Exc):
                yield s1, q
                continue
            for s2, r in M.binop(I, s1, "Mod", a[0], a[1]):
                yield s2, (r if isinstance(r, Exc) else (q, r))

    add("divmod", _divmod)

    def _round(I, st, a, k):
        v = as_arith(a[0])
        nd = a[1] if len(a) > 1 else k.get("ndigits")
        if nd is not None:
            if not isinstance(nd, int):
                raise Unsupported("round with symbolic ndigits")
            if isinstance(v, bool):
                v = int(v)
            if is_z3(v) and z3.is_int(v):
                # round(int, n) is an INT in CPython: the number itself for n >= 0, the nearest multiple of 10**-n
                # (ties to the even multiple) for n < 0
                if nd >= 0:
                    yield st, v
                else:
                    m = 10 ** (-nd)
                    yield st, ops.z_round_half_even(z3.ToReal(v) / z3.RealVal(m)) * m
            elif is_z3(v):
                I.trust("round-ndigits", "A1: round(x, n) = round_half_even(x*10^n)/10^n over the reals")
                sc = z3.RealVal(10 ** nd) if nd >= 0 else z3.RealVal(Fraction(1, 10 ** (-nd)))
                vr = z3.ToReal(v) if z3.is_int(v) else v
                yield st, z3.ToReal(ops.z_round_half_even(vr * sc)) / sc
            else:
                yield st, to_frac(round(float(v), nd)) if isinstance(v, Fraction) else round(v, nd)
            return
        if isinstance(v, int):
            yield st, v
        elif isinstance(v, Fraction):
            yield st, round(v)
        elif z3.is_int(v):
            yield st, v
        elif z3.is_app_of(v, z3.Z3_OP_TO_REAL):
            yield st, v.arg(0)  # the real is an integer: round is the identity
        else:
            I.trust("round", "A1: round(x) is round-half-to-even over the reals")
            yield st, ops.z_round_half_even(v)

    add("round", _round)

    def _isinstance(I, st, a, k):
        yield st, isinstance_model(I, st, a[0], a[1])

    add("isinstance", _isinstance)

    def _issubclass(I, st, a, k):
        c, o = a
        if not isinstance(c, (ClassVal, BuiltinClass)):
            yield st, exc("TypeError", "issubclass() arg 1 must be a class")
            return
        yield st, I.is_subclass(c, o)

    add("issubclass", _issubclass)

    def _enumerate(I, st, a, k):
        start = a[1] if len(a) > 1 else k.get("start", 0)
        inner = a[0]
        try:
            items = I.iterate(inner, st)
        except Unsupported:
            yield st, M.EnumIter(inner, start)
            return
        yield st, st.alloc(IterE([(ops_add(start, i), x) for i, x in enumerate(items)]))

    add("enumerate", _enumerate)

    def _zip(I, st, a, k):
        its = [isinstance(x, Ref) and isinstance(st.get(x), IterE) for x in a]
        cols = [I.iterate(x, st) for x in a]
        if any(its):
            # zip takes one item from each argument in turn and stops at the first one that is exhausted: the arguments before
            # it have then given n+1 items, the others n.  The model consumes an ITERATOR argument completely: refused unless
            # that is what CPython takes from it.
            n = min(len(c) for c in cols)
            j = next(i for i, c in enumerate(cols) if len(c) == n)
            if any(it and len(c) != (n + 1 if i < j else n) for i, (it, c) in enumerate(zip(its, cols))):
                raise Unsupported("zip over iterator objects of unequal length (the longer ones keep their remaining items)")
        yield st, st.alloc(IterE([tuple(t) for t in zip(*cols)]))

    add("zip", _zip)

    def _reversed(I, st, a, k):
        yield st, st.alloc(IterE(list(reversed(I.iterate(a[0], st)))))

    add("reversed", _reversed)

    def _sorted(I, st, a, k):
        src = a[0]
        if isinstance(src, SymSetOf) or (isinstance(src, Ref) and st.get(src).kind == "symlist"):
            yield st, sorted_symbolic(I, st, src, k.get("reverse", False))
            return
        if isinstance(src, Ref) and st.get(src).kind == "numset":
            items = list(st.get(src).items)  # sorted() does not depend on the iteration order of the set
        else:
            items = I.iterate(a[0], st)
        for st1, r in sorted_values(I, st, items, k.get("key"), k.get("reverse", False)):
            if isinstance(r, SortFailed):
                r = r.exc
            yield st1, (r if isinstance(r, Exc) else st1.alloc(ListE(r)))

    add("sorted", _sorted)

    def _anyall(which):
        def fn(I, st, a, k):
            items = I.iterate(a[0], st)
            ts = [I.truth(x, st) for x in items]
            yield st, (M.disj(ts) if which == "any" else M.conj(ts))

        return fn

    add("any", _anyall("any"))
    add("all", _anyall("all"))

    def _map(I, st, a, k):
        f = a[0]
        cols = [I.iterate(x, st) for x in a[1:]]
        out = []
        cur = st
        for t in zip(*cols):
            outs = list(I.call(f, list(t), {}, cur))
            if len(outs) != 1:
                raise Unsupported("map() callee forks")
            cur, v = outs[0]
            if isinstance(v, Exc):
                yield cur, v
                return
            out.append(v)
        yield cur, cur.alloc(IterE(out))

    add("map", _map)

    def _filter(I, st, a, k):
        f, items = a[0], I.iterate(a[1], st)

        def rec(s, i, acc):
            if i == len(items):
                yield s, s.alloc(IterE(acc))
                return
            if f is None:
                outs = [(s, items[i])]
            else:
                outs = list(I.call(f, [items[i]], {}, s))
            for s1, v in outs:
                if isinstance(v, Exc):
                    yield s1, v
                    continue
                for s2, b in I.branch(s1, I.truth(v, s1)):
                    yield from rec(s2, i + 1, acc + [items[i]] if b else acc)

        yield from rec(st, 0, [])

    add("filter", _filter)

    def _print(I, st, a, k):
        yield st, None

    add("print", _print)

    def _ord(I, st, a, k):
        v = a[0]
        if isinstance(v, (str, bytes)):
            if len(v) == 1:
                yield st, ord(v)
            else:
                yield st, exc("TypeError", "ord() expected a character, but string of length %d found" % len(v))
        elif isinstance(v, Opaque):
            raise Unsupported("ord() of an uninterpreted string")
        else:
            yield st, exc("TypeError", "ord() expected string of length 1")

    add("ord", _ord)

    def _chr(I, st, a, k):
        v = as_arith(a[0])
        if isinstance(v, bool) or not isinstance(v, int):
            if is_z3(v):
                raise Unsupported("chr() of a symbolic integer")
            if isinstance(v, bool):
                yield st, chr(v)
            else:
                yield st, exc("TypeError", "an integer is required")
        elif 0 <= v < 0x110000:
            yield st, chr(v)
        else:
            yield st, exc("ValueError", "chr() arg not in range(0x110000)")

    add("chr", _chr)

    def _id(I, st, a, k):
        v = a[0]
        if isinstance(v, Ref):
            I.trust("id", "A3: id() is injective on live objects")
            yield st, 1000000 + v.id
        elif isinstance(v, HObj):
            f = I.func("id", obj_sort(), z3.IntSort())
            I.trust("id", "A3: id() is injective on live objects")
            yield st, f(v.term)
        else:
            raise Unsupported("id() of a value")

    add("id", _id)

    def _hasattr(I, st, a, k):
        outs = list(getattr(I, st.fork(), a[0], a[1]))
        res = [not isinstance(v, Exc) for _, v in outs]
        if all(res):
            yield st, True
        elif not any(res):
            yield st, False
        else:
            raise Unsupported("hasattr forks")

    add("hasattr", _hasattr)

    def _getattr(I, st, a, k):
        if not isinstance(a[1], str):
            raise Unsupported("getattr with symbolic name")
        for s1, v in getattr(I, st, a[0], a[1]):
            if isinstance(v, Exc) and len(a) > 2 and v.exc.name == "AttributeError":
                yield s1, a[2]
            else:
                yield s1, v

    add("getattr", _getattr)

    def _setattr(I, st, a, k):
        if not isinstance(a[1], str):
            raise Unsupported("setattr with symbolic name")
        yield from setattr(I, st, a[0], a[1], a[2])

    add("setattr", _setattr)

    def _delattr(I, st, a, k):
        if not isinstance(a[1], str):
            raise Unsupported("delattr with symbolic name")
        if isinstance(a[0], Ref) and st.get(a[0]).kind == "obj":
            if I.class_lookup(st.get(a[0]).cls, "__delattr__")[0] is not None or _ghost_class_attr(I, st, st.get(a[0]).cls, a[1]) is not None:
                raise Unsupported("delattr through __delattr__ / a descriptor")
        yield from delattr(I, st, a[0], a[1])

    add("delattr", _delattr)

    def _callable(I, st, a, k):
        v = a[0]
        if isinstance(v, Ref) and st.get(v).kind == "obj":
            yield st, I.class_lookup(st.get(v).cls, "__call__")[0] is not None  # an instance is callable iff its class has __call__
            return
        from .values import Partial as _P

        yield st, isinstance(v, (FuncVal, BoundMethod, Builtin, ClassVal, BuiltinClass, _P))

    add("callable", _callable)

    def _repr(I, st, a, k):
        v = a[0]
        if isinstance(v, (str, int, bool)) or v is None:
            yield st, repr(v)
        else:
            yield st, Opaque("repr")

    add("repr", _repr)

    def _hash(I, st, a, k):
        v = a[0]
        if isinstance(v, Ref) and st.get(v).kind == "obj":
            m, wh = I.class_lookup(st.get(v).cls, "__hash__")
            eqm, we = I.class_lookup(st.get(v).cls, "__eq__")
            if eqm is not None and (m is None or (we != wh and I.is_subclass(we, wh))):
                # a class that defines __eq__ without __hash__ gets __hash__ = None: its instances are unhashable
                yield st, exc("TypeError", "unhashable type: '%s'" % st.get(v).cls.name)
                return
            if m is not None:
                yield from I.call(m, [v], {}, st)
                return
            if wh is not None:
                yield st, exc("TypeError", "unhashable type: '%s'" % st.get(v).cls.name)  # __hash__ = None
                return
            # object.__hash__: derived from the address - some integer, the same for the same object
            k = ("objhash", v.id)
            if k not in st.ghost:
                st.ghost[k] = I.fresh("int", "hash")
            yield st, st.ghost[k]
            return
        if isinstance(v, tuple) and v and all((isinstance(x, int) and not isinstance(x, bool)) or (is_z3(x) and z3.is_int(x)) for x in v):
            # hash of a tuple of ints: a function of the elements (uninterpreted); on concrete elements its value is
            # CPython's deterministic tuple hash, so that (in)equality of hashes of concrete tuples is decided as it runs
            f = I.func("pyhash_int_tuple%d" % len(v), *([z3.IntSort()] * (len(v) + 1)))
            t = f(*[z3val(x) for x in v])
            if all(isinstance(x, int) for x in v):
                I.trust("hash-int-tuple", "A3: hash() of a tuple of ints is CPython's deterministic tuple hash (no hash randomisation for ints)")
                I.axiom(("pyhash",) + tuple(v), t == _b.hash(tuple(v)))
            yield st, t
            return
        yield st, Opaque("hash")

    add("hash", _hash)

    def _iter(I, st, a, k):
        from .loops import lazy_begin, lazy_end

        old = lazy_begin(st)  # iter() is lazy: remember which list it walks (see loops.lazy_check)
        if isinstance(a[0], Ref) and isinstance(st.get(a[0]), IterE):
            lazy_end(st, old, None)
            yield st, a[0]  # iter(iterator) is the iterator itself
            return
        acc = st.alloc(IterE(I.iterate(a[0], st)))
        lazy_end(st, old, acc)
        yield st, acc

    add("iter", _iter)

    def _next(I, st, a, k):
        v = a[0]
        if isinstance(v, Ref) and st.get(v).kind in ("list", "deque") and not isinstance(st.get(v), IterE):
            # a list / deque / dictionary view is iterable but not an iterator
            yield st, exc("TypeError", "'%s' object is not an iterator" % type(st.get(v)).__name__)
            return
        if isinstance(v, Ref) and st.get(v).kind == "list":
            from .loops import lazy_check

            lazy_check(st, st.ghost.get(("lazy_src", v.id)))
            if st.get(v).taken or st.get(v).pending is not None:
                raise Unsupported("next() on an iterator that another (eagerly evaluated) lazy iterator was built on / whose items raise")
            items = st.get(v).items
            if items:
                yield st, items.pop(0)
            elif len(a) > 1:
                yield st, a[1]
            else:
                yield st, exc("StopIteration")
            return
        if isinstance(v, Ref) and st.get(v).kind == "nd" and st.get(v).__dict__.get("flatiter"):
            # next(a.flat): numpy.flatiter is an iterator with its own position over the elements in row-major order
            fe = st.get(v)
            pos = fe.__dict__.get("cursor", 0)
            if pos < len(fe.data):
                fe.cursor = pos + 1
                yield st, fe.data[pos]
            elif len(a) > 1:
                yield st, a[1]
            else:
                yield st, exc("StopIteration")
            return
        raise Unsupported("next() on %r" % (v,))

    add("next", _next)

    def _property(I, st, a, k):
        from .values import PropertyVal

        fget = a[0] if a else k.get("fget")
        fset = a[1] if len(a) > 1 else k.get("fset")
        yield st, PropertyVal(fget, fset)

    add("property", _property)
    add("staticmethod", lambda I, st, a, k: iter([(st, a[0])]))
    add("classmethod", _property)
    add("vars", lambda I, st, a, k: getattr(I, st, a[0], "__dict__"))

    from . import speclib

    speclib.install(I, B)
    return B


class RePattern:
    """re.compile(literal): match/fullmatch/search on CONCRETE strings are decided by Python's re; only the truth value
    of the result (a match or None) is available"""

    def __init__(self, pattern):
        import re as _re

        self.pattern, self.rx = pattern, _re.compile(pattern)


class ReMatch:
    """a successful match (truthy); its groups are not modelled"""


class ObjDict:
    """obj.__dict__: a LIVE view of the instance attributes of a store object (reads and writes go to the object,
    bypassing __setattr__ / properties, as in Python)"""

    def __init__(self, ref):
        self.ref = ref

    def attrs(self, st):
        return st.get(self.ref).attrs


def objdict_method(I, st, od, name):
    def key(x):
        if not isinstance(x, str):
            raise Unsupported("__dict__ access with a non-string key")
        return x

    def copy(I, st, a, k):
        yield st, st.alloc(DictE(dict(od.attrs(st))))

    def update(I, st, a, k):
        if a:
            src = a[0]
            if isinstance(src, ObjDict):
                items = dict(src.attrs(st))
            elif isinstance(src, Ref) and st.get(src).kind == "dict":
                items = dict(st.get(src).items)
            else:
                raise Unsupported("__dict__.update from %r" % (src,))
            for kk, vv in items.items():
                od.attrs(st)[key(kk)] = vv
        for kk, vv in k.items():
            od.attrs(st)[kk] = vv
        yield st, None

    def get(I, st, a, k):
        yield st, od.attrs(st).get(key(a[0]), a[1] if len(a) > 1 else None)

    def items(I, st, a, k):
        yield st, st.alloc(ListE([(kk, vv) for kk, vv in od.attrs(st).items()]))

    def keys(I, st, a, k):
        yield st, st.alloc(ListE(list(od.attrs(st))))

    def values(I, st, a, k):
        yield st, st.alloc(ListE(list(od.attrs(st).values())))

    tbl = dict(copy=copy, update=update, get=get, items=items, keys=keys, values=values)
    if name not in tbl:
        raise Unsupported("__dict__ method " + name)
    return bi("__dict__." + name, tbl[name])


class PickleBlob:
    """result of pickle.dumps(plain data): an immutable bytes object whose content is only read by pickle.loads"""

    def __init__(self, payload):
        self.payload = payload

    def __eq__(self, other):
        if other is self:
            return True
        raise Unsupported("== on pickled bytes")

    def __hash__(self):
        return id(self)


class SymSetOf:
    """set(L) / list(set(L)) for a symbolic-length list L: only sorted() of it is modelled"""

    def __init__(self, ref):
        self.ref = ref


def sorted_symbolic(I, st, src, reverse):
    """A3: sorted(L) is a non-decreasing rearrangement of L; sorted(set(L)) the strictly increasing enumeration of
    the values of L.  Facts added: order; every result element is an element of L and vice versa; equal length and
    identity when L itself is already (strictly) increasing - for plain lists."""
    if reverse not in (False, True):
        raise Unsupported("sorted with symbolic reverse")
    dedup = isinstance(src, SymSetOf)
    ref = src.ref if dedup else src
    e = st.get(ref)
    n = I.fresh("int", "sorted_len")
    arr = I.fresh(e.arr.sort(), "sorted")
    k, j = z3.Int("k!so"), z3.Int("j!so")
    st.pc.append(n >= 0)
    if dedup:
        st.pc.append(n <= e.length)
        st.pc.append(z3.Implies(e.length > 0, n > 0))
    else:
        st.pc.append(n == e.length)
    less = (lambda x, y: x > y) if reverse else (lambda x, y: x < y)
    leq = (lambda x, y: x >= y) if reverse else (lambda x, y: x <= y)
    order = less if dedup else leq
    st.pc.append(z3.ForAll([k], z3.Implies(z3.And(k >= 0, k < n - 1), order(z3.Select(arr, k), z3.Select(arr, k + 1)))))
    w1 = I.func("sorted_src_%d" % arr.get_id(), z3.IntSort(), z3.IntSort())
    w2 = I.func("sorted_dst_%d" % arr.get_id(), z3.IntSort(), z3.IntSort())
    st.pc.append(z3.ForAll([k], z3.Implies(z3.And(k >= 0, k < n), z3.And(w1(k) >= 0, w1(k) < e.length, z3.Select(e.arr, w1(k)) == z3.Select(arr, k))),
                           patterns=[z3.Select(arr, k)]))
    st.pc.append(z3.ForAll([j], z3.Implies(z3.And(j >= 0, j < e.length), z3.And(w2(j) >= 0, w2(j) < n, z3.Select(arr, w2(j)) == z3.Select(e.arr, j))),
                           patterns=[z3.Select(e.arr, j)]))
    if not dedup:
        already = z3.ForAll([k], z3.Implies(z3.And(k >= 0, k < e.length - 1), leq(z3.Select(e.arr, k), z3.Select(e.arr, k + 1))))
        st.pc.append(z3.Implies(already, z3.ForAll([k], z3.Implies(z3.And(k >= 0, k < n), z3.Select(arr, k) == z3.Select(e.arr, k)))))
    I.trust("sorted-symbolic", "A3: sorted(L) / sorted(set(L)) of a symbolic list: ordered rearrangement / strictly increasing enumeration of the values of L")
    return st.alloc(SymListE(n, arr))


def getattr_py(o, n):
    return _b.getattr(o, n, None)


def ops_add(a, b):
    x, y, sym = coerce_pair(a, b)
    return x + y


def ops_sub(a, b):
    x, y, sym = coerce_pair(a, b)
    return x - y


def isinstance_model(I, st, v, cls):
    M = _m()
    if isinstance(cls, tuple):
        return M.disj([isinstance_model(I, st, v, c) for c in cls])
    if isinstance(cls, Opaque):
        raise Unsupported("isinstance against an unmodelled class")
    if isinstance(cls, Unknown):
        raise Unsupported("isinstance against unmodelled " + cls.desc)
    if isinstance(cls, BuiltinClass) and cls.name == "collections.abc.Iterable":
        # Iterable.__subclasshook__: the type (or a base) defines __iter__
        if isinstance(v, Ref):
            e = st.get(v)
            if e.kind == "obj":
                if not isinstance(e.cls, ClassVal) or "__tuple__" in e.attrs:
                    raise Unsupported("isinstance(obj, Iterable) for this object")
                return I.class_lookup(e.cls, "__iter__")[0] is not None
            return True  # list, deque, dict, set, ndarray, symbolic-length list
        if isinstance(v, (str, tuple, frozenset)):
            return True
        from .symex import FrozenList as _FL, FrozenDict as _FD, FrozenNd as _FN

        if isinstance(v, (_FL, _FD, _FN)):
            return True
        if v is None or isinstance(v, (bool, int, Fraction)) or (is_z3(v) and (z3.is_int(v) or z3.is_real(v) or z3.is_bool(v))):
            return False
        raise Unsupported("isinstance(%r, Iterable)" % (v,))
    if isinstance(v, Ref):
        e = st.get(v)
        if e.kind == "obj":
            if isinstance(cls, ClassVal):
                return I.is_subclass(e.cls, cls)
            if isinstance(cls, BuiltinClass) and cls.name == "list" and "__list__" in e.attrs:
                return True
            if isinstance(cls, BuiltinClass) and cls.name == "dict" and "__dictdata__" in e.attrs:
                return True
            return isinstance(cls, BuiltinClass) and cls.name == "object"
        if e.__class__ is DictViewE:
            if isinstance(cls, BuiltinClass) and cls.name in ("list", "tuple", "dict", "set", "frozenset", "str", "int", "float", "bool", "NoneType", "ndarray", "deque"):
                return False  # a view is none of these
            raise Unsupported("isinstance of a dictionary view")
        # a frozenset is not a set and a set is not a frozenset (neither class derives from the other)
        kind = {"list": ("list",), "deque": ("deque",), "dict": ("dict",), "set": (("frozenset",) if (e.kind == "set" and e.frozen) else ("set",)),
                "nd": ("ndarray",), "numset": ("set",), "symlist": ("list",)}[e.kind]
        return isinstance(cls, BuiltinClass) and (cls.name in kind or cls.name == "object")
    if isinstance(v, HObj):
        if isinstance(cls, ClassVal) and v.cls is not None:
            if I.is_subclass(v.cls, cls):
                return True
            if I.is_subclass(cls, v.cls):
                raise Unsupported("isinstance of a heap object against a subclass of its static class")
            return False
        return False
    if not isinstance(cls, BuiltinClass):
        if isinstance(cls, ClassVal):
            if isinstance(v, M.EnumMember):
                return I.is_subclass(v.cls, cls)
            if isinstance(v, ExcVal):
                return I.is_subclass(v.cls, cls)
            if isinstance(v, M.NamedTuple):
                return v.clsval == cls
            return False
        raise Unsupported("isinstance against %r" % (cls,))
    n = cls.name
    if n == "object":
        return True
    if isinstance(v, bool) or (is_z3(v) and z3.is_bool(v)):
        return n in ("bool", "int", "integer", "number", "Number", "Integral")
    if is_intlike(v):
        return n in ("int", "integer", "number", "Number", "Integral", "Real")
    if is_reallike(v):
        return n in ("float", "floating", "number", "Number", "Real")
    if isinstance(v, str):
        return n == "str"
    if isinstance(v, tuple):
        return n == "tuple"
    if v is None:
        return n == "NoneType"
    if isinstance(v, ExcVal):
        return I.is_subclass(v.cls, cls)
    if isinstance(v, (frozenset,)):
        return n == "frozenset"  # frozenset does not derive from set
    from .symex import FrozenList, FrozenDict, FrozenNd

    if isinstance(v, FrozenList):
        return n == "list"
    if isinstance(v, FrozenDict):
        return n == "dict"
    if isinstance(v, FrozenNd):
        return n == "ndarray"
    if isinstance(v, (FuncVal, BoundMethod, Builtin, M.EnumMember, ClassVal, ModuleVal)):
        return False
    if isinstance(v, BuiltinClass) and isinstance(cls, BuiltinClass):
        # a builtin class object (str, int, ValueError ...) is an instance of type and object only
        return n in ("type", "object")
    raise Unsupported("isinstance of %r" % (v,))


# ============================================================================ external modules
def make_ext_modules(I):
    M = _m()
    E = {}

    # ---- math
    mth = {}

    def m_sqrt(I, st, a, k):
        yield from ops.sqrt(I, st, a[0])

    mth["sqrt"] = bi("math.sqrt", m_sqrt)

    def m_exp(I, st, a, k):
        yield from ops.exp(I, st, a[0])

    mth["exp"] = bi("math.exp", m_exp)

    def m_ceil(I, st, a, k):
        v = as_arith(a[0])
        if is_z3(v):
            yield st, (v if z3.is_int(v) else ops.z_ceil(v))
        else:
            yield st, math.ceil(v)

    def m_floor(I, st, a, k):
        v = as_arith(a[0])
        if is_z3(v):
            yield st, (v if z3.is_int(v) else ops.z_floor(v))
        else:
            yield st, math.floor(v)

    mth["ceil"] = bi("math.ceil", m_ceil)
    mth["floor"] = bi("math.floor", m_floor)
    pi = z3.Real("pi")
    I.axiom("pi", z3.And(pi > z3.RealVal("3.14159265358979"), pi < z3.RealVal("3.14159265358980")))
    mth["pi"] = pi
    mth["e"] = Fraction(math.e)  # A1: the float constant math.e as the exact rational it is
    mth["tau"] = 2 * pi
    mth["inf"] = M.Inf(1)  # math.inf IS float("inf")
    mth["nan"] = Opaque("nan")  # the NaN literal (A1: no real value is NaN)

    def m_fabs(I, st, a, k):
        v = as_arith(a[0])
        yield st, (ops.z_abs(z3.ToReal(v) if z3.is_int(v) else v) if is_z3(v) else Fraction(abs(v)))

    mth["fabs"] = bi("math.fabs", m_fabs)

    def trig(which):
        def fn(I, st, a, k):
            x = as_arith(a[0])
            zx = z3val(x)
            if z3.is_int(zx):
                zx = z3.ToReal(zx)
            s = I.func("sin", z3.RealSort(), z3.RealSort())
            c = I.func("cos", z3.RealSort(), z3.RealSort())
            I.trust("trig", "A1: sin/cos are uninterpreted reals with sin^2+cos^2=1, |.|<=1 and exact values at 0")
            q = ops.pi_coeff(zx)
            if q is not None:
                # the argument is q * pi identically: exact values at the multiples of pi / 6 (concrete q) or pi / 3
                # (symbolic q: sound instances "3q is the integer n and n mod 6 = r -> sin = S_r, cos = C_r")
                I.trust("trig-exact", "A1: sin/cos at integer multiples of pi/6 (pi/3 for a symbolic multiple) have their exact values 0, +-1/2, +-sqrt(3)/2, +-1")
                r3 = None
                for st3, v3 in ops.sqrt(I, st, 3):
                    if not isinstance(v3, Exc):
                        st, r3 = st3, v3
                if r3 is None:
                    raise Unsupported("sqrt(3) for exact trigonometric values")
                h, z, o = z3.RealVal("1/2"), z3.RealVal(0), z3.RealVal(1)
                sq = r3 / 2
                COS12 = [o, sq, h, z, -h, -sq, -o, -sq, -h, z, h, sq]
                SIN12 = [z, h, sq, o, sq, h, z, -h, -sq, -o, -sq, -h]
                if isinstance(q, Fraction):
                    if (6 * q).denominator == 1:
                        n = int(6 * q) % 12
                        yield st, (SIN12[n] if which == "sin" else COS12[n])
                        return
                else:
                    n3 = z3.ToInt(3 * q)
                    isint = z3.ToReal(n3) == 3 * q
                    for r in range(6):
                        st.pc.append(z3.Implies(z3.And(isint, n3 % 6 == r), z3.And(s(zx) == SIN12[2 * r], c(zx) == COS12[2 * r])))
            st.pc.append(s(zx) * s(zx) + c(zx) * c(zx) == 1)
            I.axiom("sin0", s(z3.RealVal(0)) == 0)
            I.axiom("cos0", c(z3.RealVal(0)) == 1)
            yield st, (s(zx) if which == "sin" else c(zx))

        return fn

    mth["sin"] = bi("math.sin", trig("sin"))
    mth["cos"] = bi("math.cos", trig("cos"))

    def m_isclose(I, st, a, k):
        x, y = as_arith(a[0]), as_arith(a[1])
        rel = k.get("rel_tol", Fraction(1, 10**9))
        ab = k.get("abs_tol", Fraction(0))
        xx, yy, sym = coerce_pair(x, y)
        if not sym:
            d = abs(xx - yy)
            yield st, d <= max(rel * max(abs(xx), abs(yy)), ab)
            return
        xr = z3.ToReal(xx) if z3.is_int(xx) else xx
        yr = z3.ToReal(yy) if z3.is_int(yy) else yy
        d = ops.z_abs(xr - yr)
        mx = ops.zmax(ops.z_abs(xr), ops.z_abs(yr))
        I.trust("isclose", "A1: math.isclose(a,b) = |a-b| <= max(rel_tol*max(|a|,|b|), abs_tol) over the reals")
        yield st, d <= ops.zmax(z3val(rel) * mx, z3val(ab))

    mth["isclose"] = bi("math.isclose", m_isclose)

    def m_isnan(I, st, a, k):
        # A1: a real number is never NaN; the NaN literal (float("nan"), np.nan, math.nan) is
        v = a[0]
        if isinstance(v, Opaque) and v.desc == "nan":
            yield st, True
        elif is_number(v) or isinstance(v, M.Inf):
            yield st, False
        elif v is None or isinstance(v, (str, tuple, Ref)):
            yield st, exc("TypeError", "must be real number")
        else:
            raise Unsupported("math.isnan of %r" % (v,))

    mth["isnan"] = bi("math.isnan", m_isnan)

    def m_radians(I, st, a, k):
        for s1, r in M.binop(I, st, "Mult", a[0], pi / 180):
            yield s1, r

    mth["radians"] = bi("math.radians", m_radians)

    def m_degrees(I, st, a, k):
        for s1, r in M.binop(I, st, "Mult", a[0], 180 / pi):
            yield s1, r

    mth["degrees"] = bi("math.degrees", m_degrees)
    E["math"] = mth

    # ---- collections
    col = {}
    col["deque"] = BuiltinClass("deque")

    def c_namedtuple(I, st, a, k):
        name, fields = a[0], a[1]
        if isinstance(fields, str):
            fl = fields.replace(",", " ").split()
        else:
            fl = I.iterate(fields, st)
        node = ast.ClassDef(name=name, bases=[], keywords=[], body=[], decorator_list=[])
        cv = ClassVal(node, None)
        cv._nt_fields = list(fl)
        cv._members = {}
        yield st, cv

    col["namedtuple"] = bi("collections.namedtuple", c_namedtuple)

    def c_defaultdict(I, st, a, k):
        e = DictE()
        e.default_factory = a[0] if a else None
        yield st, st.alloc(e)

    col["defaultdict"] = bi("collections.defaultdict", c_defaultdict)
    col["OrderedDict"] = BuiltinClass("dict", dict)
    E["collections"] = col

    # ---- itertools
    it = {}

    def i_count(I, st, a, k):
        yield st, M.CountIter(a[0] if a else 0, a[1] if len(a) > 1 else 1)

    it["count"] = bi("itertools.count", i_count)

    def i_product(I, st, a, k):
        import itertools as _it

        cols = [I.iterate(x, st) for x in a]
        rep = k.get("repeat", 1)
        yield st, st.alloc(IterE([tuple(t) for t in _it.product(*cols, repeat=rep)]))

    it["product"] = bi("itertools.product", i_product)

    def i_chain(I, st, a, k):
        out = []
        for x in a:
            out.extend(I.iterate(x, st))
        yield st, st.alloc(IterE(out))

    it["chain"] = bi("itertools.chain", i_chain)

    def i_islice(I, st, a, k):
        """itertools.islice(iterable, stop) / (iterable, start, stop[, step]) with concrete non-negative ints or None
        (eager, like every iterator of this engine)"""
        import itertools as _it

        if k or len(a) not in (2, 3, 4):
            raise Unsupported("itertools.islice arguments")
        for x in a[1:]:
            if not (x is None or (isinstance(x, int) and not isinstance(x, bool))):
                raise Unsupported("itertools.islice with symbolic bounds")
            if x is not None and x < 0:
                yield st, exc("ValueError", "Indices for islice() must be None or an integer: 0 <= x <= sys.maxsize.")
                return
        if len(a) == 4 and a[3] == 0:
            yield st, exc("ValueError", "Step for islice() must be a positive integer or None.")
            return
        src_is_iterator = isinstance(a[0], Ref) and isinstance(st.get(a[0]), IterE)
        items = I.iterate(a[0], st)
        stop = a[1] if len(a) == 2 else a[2]
        if src_is_iterator and stop is not None and stop < len(items):
            raise Unsupported("itertools.islice that leaves items in the iterator object it reads (the model consumes it completely)")
        yield st, st.alloc(IterE(list(_it.islice(items, *a[1:]))))

    it["islice"] = bi("itertools.islice", i_islice)

    def i_zip_longest(I, st, a, k):
        import itertools as _it

        cols = [I.iterate(x, st) for x in a]
        yield st, st.alloc(IterE([tuple(t) for t in _it.zip_longest(*cols, fillvalue=k.get("fillvalue"))]))

    it["zip_longest"] = bi("itertools.zip_longest", i_zip_longest)
    E["itertools"] = it

    # ---- typing / abc / misc: names only
    class _Any(dict):
        def __contains__(self, k):
            return True

        def __getitem__(self, k):
            return Opaque("typing." + k)

    E["typing"] = _Any()
    E["abc"] = {"abstractmethod": bi("abstractmethod", lambda I, st, a, k: iter([(st, a[0])])), "ABC": BuiltinClass("object", object),
                "ABCMeta": BuiltinClass("type", type)}
    E["enum"] = {"Enum": BuiltinClass("Enum"), "IntEnum": BuiltinClass("IntEnum"), "Flag": BuiltinClass("Flag"),
                 "auto": bi("enum.auto", lambda I, st, a, k: iter([(st, Opaque("auto"))]))}
    E["numbers"] = {"Number": BuiltinClass("Number"), "Integral": BuiltinClass("Integral"), "Real": BuiltinClass("Real")}

    def cp_copy(I, st, a, k):
        v = a[0]
        if isinstance(v, Ref):
            e = st.get(v)
            if e.kind != "obj":
                c = e.detached() if e.kind == "nd" else e.copy()
                if e.kind == "dict":
                    c.owner = None  # a copy of obj.__dict__ is a plain dict, not the live view
                    c.items = dict(e.items)
                yield st, st.alloc(c)
                return
            m, _ = I.class_lookup(e.cls, "__copy__")
            if m is not None:
                yield from I.call(BoundMethod(m, v), [], {}, st)  # the class's own shallow-copy hook
                return
            for hook in ("__reduce_ex__", "__reduce__", "__getstate__", "__setstate__"):
                if I.class_lookup(e.cls, hook)[0] is not None:
                    raise Unsupported("copy.copy of an object with %s" % hook)
            attrs = dict(e.attrs)
            if "__list__" in attrs:
                # copy.copy of a list subclass instance: copyreg rebuilds it from its items - a NEW list payload with the same
                # elements (the two instances must not share one payload)
                attrs["__list__"] = st.alloc(ListE(list(st.get(attrs["__list__"]).items)))
            if "__dictdata__" in attrs:
                # copy.copy of a dict subclass instance: a new mapping with the same entries (copyreg: dictitems)
                attrs["__dictdata__"] = st.alloc(DictE(dict(st.get(attrs["__dictdata__"]).items)))
            yield st, st.alloc(ObjE(e.cls, attrs))
            return
        yield st, v

    def cp_deepcopy(I, st, a, k):
        I.trust("deepcopy", "A6: copy.deepcopy yields a structurally equal, disjoint copy (containers and plain objects; "
                            "__getstate__/__setstate__ honoured as by copyreg: new object, state deep-copied, then set; a class's own "
                            "__deepcopy__(memo) is executed; the memo maps id(original) -> copy and is shared with nested deepcopy(x, memo) calls)")
        S = [st]
        if len(a) > 2 or (k and set(k) - {"memo"}):
            raise Unsupported("copy.deepcopy arguments")
        mref = a[1] if len(a) > 1 else k.get("memo")
        if mref is None:
            mref = S[0].alloc(DictE({}))
        elif not (isinstance(mref, Ref) and S[0].get(mref).kind == "dict" and S[0].get(mref).owner is None):
            raise Unsupported("copy.deepcopy with a memo that is not a plain dict")

        def memo():
            return S[0].get(mref).items  # keyed by id(original) exactly as the builtin id() model numbers store objects

        def ident(v):
            return 1000000 + v.id

        class _Raised(Exception):
            """a copy-protocol method raised on its only path: the exception leaves deepcopy() as in Python"""

        def call1(fn, args):
            outs = list(I.call(fn, args, {}, S[0]))
            if len(outs) != 1:
                raise Unsupported("copy protocol method forks")
            S[0] = outs[0][0]
            if isinstance(outs[0][1], Exc):
                raise _Raised(outs[0][1])
            return outs[0][1]

        def has_ref(x):
            return isinstance(x, Ref) or (isinstance(x, tuple) and any(has_ref(y) for y in x))

        def dc(v):
            if isinstance(v, Ref):
                if ident(v) in memo():
                    return memo()[ident(v)]
                e = S[0].get(v)
                if e.kind == "obj":
                    dcp, _ = I.class_lookup(e.cls, "__deepcopy__")
                    if dcp is not None:
                        # the class's own hook, run as the ordinary method it is; deepcopy() then records the result
                        y = call1(BoundMethod(dcp, v), [mref])
                        if not (isinstance(y, Ref) and y == v):
                            memo()[ident(v)] = y
                        return y
                    for hook in ("__reduce_ex__", "__reduce__"):
                        if I.class_lookup(e.cls, hook)[0] is not None:
                            raise Unsupported("deepcopy of object with %s" % hook)
                    gs, _ = I.class_lookup(e.cls, "__getstate__")
                    ss, _ = I.class_lookup(e.cls, "__setstate__")
                    if "__dictdata__" in e.attrs and (gs is not None or ss is not None):
                        raise Unsupported("deepcopy of a dict subclass instance with __getstate__/__setstate__")
                    if "__tuple__" in e.attrs:
                        # instance of a class deriving from tuple: copyreg rebuilds it as cls.__new__(cls, <deep copy of the
                        # items>) - the items are copied BEFORE the new object exists and is recorded in the memo
                        if gs is not None or ss is not None or I.class_lookup(e.cls, "__new__")[0] is not None or I.class_lookup(e.cls, "__getnewargs__")[0] is not None:
                            raise Unsupported("deepcopy of a tuple subclass with its own copy protocol")
                        items = tuple(dc(x) for x in e.attrs["__tuple__"])
                        new = S[0].alloc(ObjE(e.cls, {"__tuple__": items}))
                        memo()[ident(v)] = new
                        for kk, x in S[0].get(v).attrs.items():
                            if kk != "__tuple__":
                                S[0].get(new).attrs[kk] = dc(x)
                        return new
                    new = S[0].alloc(ObjE(e.cls, {}))
                    memo()[ident(v)] = new
                    if gs is None:
                        attrs = {kk: dc(x) for kk, x in S[0].get(v).attrs.items()}
                        if ss is None:
                            S[0].get(new).attrs = attrs
                        else:
                            call1(BoundMethod(ss, new), [S[0].alloc(DictE(attrs))])
                        return new
                    state = dc(call1(BoundMethod(gs, v), []))
                    if state is None:
                        pass  # copyreg: no state, __setstate__ is not called
                    elif ss is not None:
                        call1(BoundMethod(ss, new), [state])
                    elif isinstance(state, Ref) and S[0].get(state).kind == "dict" and all(isinstance(kk, str) for kk in S[0].get(state).items):
                        S[0].get(new).attrs.update(S[0].get(state).items)
                    else:
                        raise Unsupported("deepcopy: __getstate__ result is not a dict")
                    return new
                c = e.detached() if e.kind == "nd" else e.copy()
                if e.kind == "dict":
                    c.owner = None  # a copy of obj.__dict__ is a plain dict, not the live view
                if e.kind == "nd":
                    # ndarray.__deepcopy__: a new array; entries of an object array are deep-copied with the same memo
                    c.data = [dc(x) for x in e.data]
                    new = S[0].alloc(c)
                    memo()[ident(v)] = new
                    return new
                if e.kind == "dict" and any(has_ref(kk) for kk in e.items.keys()) and getattr_py(e, "default_factory") is None:
                    # keys that are (or hold) objects are deep-copied too and the copy is filled entry by entry - y[copy(k)] = copy(v),
                    # the value being copied first (Python evaluates the right-hand side first) - through the dict model, which
                    # decides hash / == of the new keys; an insertion that forks or raises is outside the model
                    c.items = {}
                    new = S[0].alloc(c)
                    memo()[ident(v)] = new
                    for kk, x in list(e.items.items()):
                        xc = dc(x)
                        kc = dc(kk)
                        outs = list(I.models.setitem(I, S[0], new, kc, xc))
                        if len(outs) != 1 or isinstance(outs[0][1], Exc):
                            raise Unsupported("deepcopy of a dict keyed by objects: insertion of a copied key forks or raises")
                        S[0] = outs[0][0]
                    return new
                if e.kind in ("dict", "set", "numset") and any(has_ref(kk) for kk in (e.items if e.kind != "dict" else e.items.keys())):
                    raise Unsupported("deepcopy of a dict / set keyed by objects")
                new = S[0].alloc(c)
                memo()[ident(v)] = new
                if e.kind in ("list", "deque"):
                    items = [dc(x) for x in e.items]
                    S[0].get(new).items = items
                elif e.kind == "dict":
                    items = {kk: dc(x) for kk, x in e.items.items()}
                    S[0].get(new).items = items
                return new
            if isinstance(v, tuple):
                # copy._deepcopy_tuple: a tuple whose items are all returned unchanged (immutable content) IS its own deep
                # copy - the same object, not an equal one; a namedtuple is rebuilt as a namedtuple
                items = [dc(x) for x in v]
                if all(c is x for c, x in zip(items, v)):
                    return v
                if isinstance(v, M.NamedTuple):
                    return M.NamedTuple(items, v.fields, v.clsval)
                return tuple(items)
            if isinstance(v, ObjDict):
                # deepcopy(obj.__dict__): a plain dict holding deep copies of the instance attributes
                return S[0].alloc(DictE({kk: dc(x) for kk, x in v.attrs(S[0]).items()}))
            if isinstance(v, BoundMethod) and isinstance(v.self_val, Ref):
                return BoundMethod(v.func, dc(v.self_val))  # types.MethodType: same function bound to the copy of its object
            return v

        try:
            r = dc(a[0])
        except _Raised as e:
            r = e.args[0]
        yield S[0], r

    E["copy"] = {"copy": bi("copy.copy", cp_copy), "deepcopy": bi("copy.deepcopy", cp_deepcopy)}

    # ---- pickle of PLAIN DATA only: numbers, bool, None, str, bytes, earlier pickles, tuples/lists/dicts/sets/arrays of these.
    # dumps() freezes a structurally equal, disjoint copy; loads() hands out a fresh copy of it.  Anything else
    # (instances, functions, classes) is outside the model -> Unsupported.
    def _plain_copy(st, v, what, memo=None):
        """structurally equal, disjoint copy of plain data.  Like pickle's memo, an object reached twice is copied ONCE:
        `a, b = loads(dumps((l, l)))` gives `a is b`, and a list that contains itself comes back as one cyclic list."""
        from . import bytesmodel

        if memo is None:
            memo = {}
        if v is None or isinstance(v, (bool, int, Fraction, str, bytes, PickleBlob, bytesmodel.BytesVal)) or is_z3(v):
            if is_z3(v) and not (z3.is_int(v) or z3.is_real(v) or z3.is_bool(v)):
                raise Unsupported("%s of a term of sort %s" % (what, v.sort()))
            return v
        if isinstance(v, tuple) and type(v) is tuple:
            return tuple(_plain_copy(st, x, what, memo) for x in v)
        if isinstance(v, Ref):
            if v.id in memo:
                return memo[v.id]
            e = st.get(v)
            if e.kind == "list" and type(e) is ListE:
                new = memo[v.id] = st.alloc(ListE([]))
                st.get(new).items = [_plain_copy(st, x, what, memo) for x in e.items]
                return new
            if e.kind == "dict" and getattr_py(e, "default_factory") is None and e.owner is None:
                new = memo[v.id] = st.alloc(DictE({}))
                st.get(new).items = {_plain_copy(st, kk, what, memo): _plain_copy(st, x, what, memo) for kk, x in e.items.items()}
                return new
            if e.kind == "set":
                new = memo[v.id] = st.alloc((FrozenSetE if e.frozen else SetE)([_plain_copy(st, x, what, memo) for x in e.items]))
                return new
            if e.kind == "nd":
                c = e.detached()  # keeps the dtype mark and the (un)known memory layout
                c.data = [_plain_copy(st, x, what, memo) for x in e.data]
                new = memo[v.id] = st.alloc(c)
                return new
        if isinstance(v, ClassVal) and what == "pickle":
            # classes are pickled by reference (module-level name): the same class object comes back
            return v
        raise Unsupported("%s of %r (only plain data is modelled)" % (what, v))

    # ---- pickle of OBJECT GRAPHS (used when the value is not plain data): dumps() records a recipe - what the pickle stream
    # would hold - by running the reduce protocol on the live objects (__reduce__ / __getstate__ are CALLED at dump time);
    # loads() replays it: objects are created (cls.__new__(cls) or callable(*args)), recorded in the memo, THEN their state is
    # rebuilt and handed to __setstate__ (or merged into __dict__) - the order pickle's NEWOBJ/REDUCE .. BUILD opcodes give.
    # Classes, module-level functions and class methods are pickled by reference.  Outside the model (Unsupported): a
    # user-defined __reduce_ex__ / __new__ / __getnewargs__, __slots__ without __getstate__, reduce values with list / dict
    # items, dicts or sets keyed by objects, bound instance methods, anything the engine cannot name by reference.
    class _PkRaised(Exception):
        pass

    def _pk_call1(I, S, fn, args):
        outs = list(I.call(fn, args, {}, S[0]))
        if len(outs) != 1:
            raise Unsupported("pickle protocol method forks")
        S[0] = outs[0][0]
        if isinstance(outs[0][1], Exc):
            raise _PkRaised(outs[0][1])
        return outs[0][1]

    def _pk_atom(I, st, v):
        from . import bytesmodel

        if v is None or isinstance(v, (bool, int, Fraction, str, bytes, PickleBlob, bytesmodel.BytesVal)):
            return True
        if is_z3(v):
            if not (z3.is_int(v) or z3.is_real(v) or z3.is_bool(v)):
                raise Unsupported("pickle of a term of sort %s" % v.sort())
            return True
        if isinstance(v, (ClassVal, BuiltinClass)):
            return True  # by reference
        if isinstance(v, FuncVal) and v.cls is None and v.closure is None and v.name != "<lambda>":
            return True  # module-level function: by reference
        if isinstance(v, BoundMethod) and isinstance(v.self_val, ClassVal) and isinstance(v.func, FuncVal) and "classmethod" in v.func.decorators():
            return True  # class method: getattr(cls, name), by reference
        return False

    def _pk_record(I, S, root):
        memo = {}

        def has_ref(x):
            return isinstance(x, Ref) or (isinstance(x, tuple) and any(has_ref(y) for y in x))

        def rec(v):
            if _pk_atom(I, S[0], v):
                return ["atom", v]
            if isinstance(v, tuple) and type(v) is tuple:
                return ["tuple", [rec(x) for x in v]]
            if not isinstance(v, Ref):
                raise Unsupported("pickle of %r" % (v,))
            if v.id in memo:
                return memo[v.id]
            e = S[0].get(v)
            if e.kind in ("list", "deque"):
                node = memo[v.id] = [e.kind, None]
                node[1] = [rec(x) for x in e.items]
                return node
            if e.kind == "dict":
                if getattr_py(e, "default_factory") is not None or e.owner is not None:
                    raise Unsupported("pickle of a defaultdict / live __dict__")
                if any(has_ref(kk) for kk in e.items):
                    raise Unsupported("pickle of a dict keyed by objects")
                node = memo[v.id] = ["dict", None]
                node[1] = [(kk, rec(x)) for kk, x in e.items.items()]
                return node
            if e.kind == "set":
                if any(has_ref(kk) for kk in e.items):
                    raise Unsupported("pickle of a set of objects")
                node = memo[v.id] = ["set", list(e.items)]
                return node
            if e.kind == "nd":
                node = memo[v.id] = ["nd", e.detached(), None]
                node[2] = [rec(x) for x in e.data]
                return node
            if e.kind != "obj":
                raise Unsupported("pickle of a %s" % e.kind)
            cls = e.cls
            if not isinstance(cls, ClassVal):
                raise Unsupported("pickle of an instance of %r" % (cls,))
            for hook in ("__reduce_ex__", "__new__", "__getnewargs__", "__getnewargs_ex__"):
                if I.class_lookup(cls, hook)[0] is not None:
                    raise Unsupported("pickle of an object with %s" % hook)
            red, _ = I.class_lookup(cls, "__reduce__")
            if red is not None:
                rv = _pk_call1(I, S, BoundMethod(red, v), [])
                if not (isinstance(rv, tuple) and len(rv) in (2, 3) and isinstance(rv[1], tuple)):
                    raise Unsupported("__reduce__ value outside the modelled forms (callable, args[, state])")
                if not _pk_atom(I, S[0], rv[0]) or rv[0] is None or isinstance(rv[0], (bool, int, Fraction, str, bytes)) or is_z3(rv[0]):
                    raise Unsupported("__reduce__ callable that is not picklable by reference")
                node = ["reduce", rv[0], rec(rv[1]), None]  # callable and arguments are written BEFORE the object is memoised
                memo[v.id] = node
                if len(rv) == 3 and rv[2] is not None:
                    node[3] = rec(rv[2])
                return node
            gs, _ = I.class_lookup(cls, "__getstate__")
            if gs is None and any(isinstance(c, ClassVal) and "__slots__" in I.class_members(c) for c in I.mro(cls)):
                raise Unsupported("pickle of an object with __slots__ and no __getstate__")
            if any(isinstance(c, BuiltinClass) and c.name not in ("object", "tuple") for c in I.mro(cls)):
                raise Unsupported("pickle of an instance of a class with a builtin base")
            if "__tuple__" in e.attrs:
                node = ["obj", cls, rec(tuple(e.attrs["__tuple__"])), None]
            else:
                node = ["obj", cls, None, None]
            memo[v.id] = node
            if gs is not None:
                state = _pk_call1(I, S, BoundMethod(gs, v), [])
                node[3] = None if state is None else rec(state)
            else:
                attrs = {kk: x for kk, x in S[0].get(v).attrs.items() if kk != "__tuple__"}
                node[3] = ["dict", [(kk, rec(x)) for kk, x in attrs.items()]] if attrs else None
            return node

        return rec(root)

    def _pk_replay(I, S, root):
        lm = {}

        def set_state(new, snode):
            if snode is None:
                return
            state = build(snode)
            ne = S[0].get(new) if isinstance(new, Ref) else None
            if ne is None or ne.kind != "obj":
                raise Unsupported("pickle: state for a reconstructed value that is not an object")
            ss, _ = I.class_lookup(ne.cls, "__setstate__")
            if ss is not None:
                _pk_call1(I, S, BoundMethod(ss, new), [state])
            elif isinstance(state, Ref) and S[0].get(state).kind == "dict" and all(isinstance(kk, str) for kk in S[0].get(state).items):
                S[0].get(new).attrs.update(S[0].get(state).items)
            else:
                raise Unsupported("pickle: state that is not a dict for an object without __setstate__")

        def build(node):
            kind = node[0]
            if kind == "atom":
                return node[1]
            if kind == "tuple":
                return tuple(build(x) for x in node[1])
            if id(node) in lm:
                return lm[id(node)]
            if kind in ("list", "deque"):
                new = lm[id(node)] = S[0].alloc(ListE([]) if kind == "list" else DequeE([]))
                items = [build(x) for x in node[1]]
                S[0].get(new).items = items
                return new
            if kind == "dict":
                new = lm[id(node)] = S[0].alloc(DictE({}))
                items = {kk: build(x) for kk, x in node[1]}
                S[0].get(new).items = items
                return new
            if kind == "set":
                new = lm[id(node)] = S[0].alloc(SetE(node[1]))
                return new
            if kind == "nd":
                c = node[1].detached()
                c.data = [build(x) for x in node[2]]
                new = lm[id(node)] = S[0].alloc(c)
                return new
            if kind == "obj":
                attrs = {"__tuple__": build(node[2])} if node[2] is not None else {}
                new = lm[id(node)] = S[0].alloc(ObjE(node[1], attrs))
                set_state(new, node[3])
                return new
            if kind == "reduce":
                args = build(node[2])
                new = _pk_call1(I, S, node[1], list(args))
                lm[id(node)] = new
                set_state(new, node[3])
                return new
            raise EngineError("pickle recipe node %r" % (kind,))

        return build(root)

    class PickleRecipe:
        def __init__(self, root):
            self.root = root

    def pk_dumps(I, st, a, k):
        I.trust("pickle", "A6: pickle.loads(pickle.dumps(x)) of plain data (numbers, None, str, bytes, containers of these) is a structurally equal, disjoint copy")
        try:
            plain = PickleBlob(_plain_copy(st, a[0], "pickle"))
        except Unsupported:
            plain = None
        if plain is not None:
            yield st, plain
            return
        I.trust("pickle-objects", "A6: pickle of object graphs follows the reduce protocol: __reduce__ / __getstate__ run at dumps(), objects are "
                                  "re-created (cls.__new__ / callable(*args)), memoised, then given their state (__setstate__ / __dict__) at loads(); classes, "
                                  "module functions and class methods by reference")
        S = [st]
        try:
            root = _pk_record(I, S, a[0])
        except _PkRaised as e:
            yield S[0], e.args[0]
            return
        yield S[0], PickleBlob(PickleRecipe(root))

    def pk_loads(I, st, a, k):
        if not isinstance(a[0], PickleBlob):
            raise Unsupported("pickle.loads of something that is not a modelled pickle.dumps result")
        if isinstance(a[0].payload, PickleRecipe):
            S = [st]
            try:
                r = _pk_replay(I, S, a[0].payload.root)
            except _PkRaised as e:
                r = e.args[0]
            yield S[0], r
            return
        yield st, _plain_copy(st, a[0].payload, "pickle")

    E["pickle"] = {"dumps": bi("pickle.dumps", pk_dumps), "loads": bi("pickle.loads", pk_loads)}
    from .values import Partial

    E["functools"] = {"partial": bi("functools.partial", lambda I, st, a, k: iter([(st, Partial(a[0], a[1:], k))])),
                      "wraps": bi("functools.wraps", _functools_wraps)}
    # functools.lru_cache / cache are NOT modelled: treating them as the identity would recompute (and re-run the side effects
    # of) a function whose result CPython returns from the cache - the same object - on every later call
    def _op2(opname):
        # operator.mul / truediv / add / sub (a, b) = the binary operator on the same operands
        return lambda I, st, a, k: M.binop(I, st, opname, a[0], a[1])

    E["operator"] = {"mul": bi("operator.mul", _op2("Mult")), "truediv": bi("operator.truediv", _op2("Div")),
                     "add": bi("operator.add", _op2("Add")), "sub": bi("operator.sub", _op2("Sub"))}
    def _cmp2(opname):
        # operator.lt / le / gt / ge / eq / ne (a, b) = the comparison operator on the same operands
        def fn(I, st, a, k):
            if k or len(a) != 2:
                raise Unsupported("operator comparison arguments")
            yield from M.compare(I, st, opname, a[0], a[1])
        return fn

    for _nm, _op in (("lt", "Lt"), ("le", "LtE"), ("gt", "Gt"), ("ge", "GtE"), ("eq", "Eq"), ("ne", "NotEq")):
        E["operator"][_nm] = bi("operator." + _nm, _cmp2(_op))
    E["collections.abc"] = {"Iterable": BuiltinClass("collections.abc.Iterable")}
    import string as _string

    # string: only the constant alphabets (exact values of CPython's string module)
    E["string"] = {n: _b.getattr(_string, n) for n in ("ascii_uppercase", "ascii_lowercase", "ascii_letters", "digits", "hexdigits",
                                                       "octdigits", "punctuation", "whitespace", "printable")}


    def st_mean(I, st, a, k):
        """statistics.mean of a concrete-length sequence of numbers: their sum / their number (A1: as a real);
        an empty sequence raises StatisticsError (a ValueError)"""
        if k or len(a) != 1:
            raise Unsupported("statistics.mean arguments")
        xs = I.iterate(a[0], st)
        if not xs:
            yield st, exc("ValueError", "mean requires at least one data point")
            return
        if not all(_plain_number(x) for x in xs):
            raise Unsupported("statistics.mean of non-numbers")
        tot = xs[0]
        for x in xs[1:]:
            tot = ops_add(tot, x)
        npm = __import__("pyvc.npmodel", fromlist=["tofloat"])
        tot = npm.tofloat(tot)
        yield st, (tot / Fraction(len(xs)) if isinstance(tot, Fraction) else tot / z3.RealVal(len(xs)))

    E["statistics"] = {"mean": bi("statistics.mean", st_mean)}
    # time.time() / perf_counter(): the clock is an arbitrary real number (a fresh unconstrained value per call)
    E["time"] = {n: bi("time." + n, lambda I, st, a, k: iter([(st, I.fresh("real", "clock"))])) for n in ("time", "perf_counter", "monotonic")}
    E["re"] = {n: re_call(_b.getattr(_re, n), "re." + n) for n in ("compile", "match", "fullmatch", "search", "findall", "sub", "split", "escape")}
    for n in ("IGNORECASE", "I", "MULTILINE", "M", "DOTALL", "S", "VERBOSE", "X"):
        E["re"][n] = int(_b.getattr(_re, n))
    E["warnings"] = {"warn": bi("warnings.warn", lambda I, st, a, k: iter([(st, None)]))}
    # traceback.format_exc(): a string whose content is unspecified (opaque text, only ever formatted into messages)
    E["traceback"] = {"format_exc": bi("traceback.format_exc", lambda I, st, a, k: iter([(st, Opaque("traceback text"))]))}

    # os.path: pure string functions on CONCRETE posix paths only (no file-system access is modelled)
    import posixpath as _pp

    def _ospath(fname):
        fn = _b.getattr(_pp, fname)

        def call(I, st, a, k):
            if k or not a or not all(isinstance(x, str) for x in a):
                raise Unsupported("os.path.%s on non-concrete-string arguments" % fname)
            yield st, fn(*a)

        return bi("os.path." + fname, call)

    E["os"] = {"sep": "/"}
    E["os.path"] = {n: _ospath(n) for n in ("basename", "dirname", "join", "splitext")}

    from . import npmodel, bytesmodel

    E["struct"] = bytesmodel.make_struct(I)
    E["io"] = {"DEFAULT_BUFFER_SIZE": 8192}
    def rnd_randint(I, st, a, k):
        # random.randint(lo, hi): ANY integer of the closed range (a fresh unconstrained Int with lo <= r <= hi on the path
        # condition), so a discharged obligation holds for every outcome of the generator
        if k or len(a) != 2 or any(isinstance(x, bool) or not (isinstance(x, int) or (is_z3(x) and z3.is_int(x))) for x in a):
            raise Unsupported("random.randint arguments")
        lo, hi = a
        if not (isinstance(lo, int) and isinstance(hi, int)):
            raise Unsupported("random.randint with symbolic bounds")
        if lo > hi:
            yield st, exc("ValueError", "empty range for randrange() (%d, %d, %d)" % (lo, hi + 1, hi + 1 - lo))
            return
        r = I.fresh("int", "randint")
        st.pc.append(z3.And(r >= lo, r <= hi))
        yield st, r

    E["random"] = {"randint": bi("random.randint", rnd_randint)}
    E["sys"] = {"maxsize": 2**63 - 1}  # 64-bit CPython (the native interpreter of this framework); nothing else of sys is modelled
    E["numpy"] = npmodel.make_module(I)
    E["numpy.linalg"] = npmodel.make_linalg(I)
    E["numpy.char"] = npmodel.make_char(I)
    return E
