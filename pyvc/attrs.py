"""Attribute access, container methods, builtins, modelled external modules."""
import ast
import builtins as _b
import math
from fractions import Fraction

import z3

from . import ops, extract
from .ops import exc, is_number
from .values import (
    Ref, ListE, DequeE, SetE, DictE, ObjE, NdE, SymListE, FuncVal, BoundMethod, ClassVal, BuiltinClass,
    ModuleVal, Builtin, ExcVal, Exc, Opaque, SliceVal, SuperVal, Unknown, Unsupported, EngineError,
    is_z3, z3val, coerce_pair, as_arith, is_intlike, is_reallike, is_boollike, to_frac,
)
from .heap import HeapSeq, HObj, heap_getattr, heap_setattr, heap_none, heap_is_obj, obj_sort


def _m():
    from . import models

    return models


def bi(name, fn):
    return Builtin(name, fn)


def simple(name, pyfn):
    """Builtin from a plain function (I, st, *args, **kw) -> value (single outcome, no exception)."""

    def fn(I, st, args, kwargs):
        yield st, pyfn(I, st, *args, **kwargs)

    return Builtin(name, fn)


# ============================================================================ getattr
def getattr(I, st, v, name):
    M = _m()
    from .symex import FrozenList, FrozenDict, FrozenNd

    if isinstance(v, SliceVal) and name in ("start", "stop", "step"):
        yield st, {"start": v.lo, "stop": v.hi, "step": v.step}[name]
        return
    if isinstance(v, HObj):
        if heap_is_obj(I, v.term) and not I.spec_mode:
            notnone = v.term != heap_none(I)
            outs = I.branch(st, notnone)
        else:
            outs = [(st, True)]
        for st1, ok in outs:
            if not ok:
                yield st1, exc("AttributeError", "'NoneType' object has no attribute '%s'" % name)
                continue
            if name in I.heap_decls:
                yield st1, heap_getattr(I, st1, v, name)
                continue
            if v.cls is None:
                raise Unsupported("attribute %s of a heap object without a static class" % name)
            yield from class_attr_for_instance(I, st1, v, v.cls, name)
        return
    if isinstance(v, Ref):
        e = st.get(v)
        if e.kind == "obj" and "__memstream__" in e.attrs:
            from . import bytesmodel

            yield st, bytesmodel.memstream_getattr(I, st, v, name)
            return
        if e.kind == "obj":
            if name == "__class__":
                yield st, e.cls
                return
            if name == "__dict__":
                d = DictE()
                d.owner = v
                yield st, st.alloc(d)
                return
            m, where = I.class_lookup(e.cls, name)
            from .values import PropertyVal

            if isinstance(m, PropertyVal):
                yield from I.call(m.fget, [v], {}, st)
                return
            if isinstance(m, FuncVal) and "property" in m.decorators():
                yield from I.call(m, [v], {}, st)
                return
            if isinstance(m, FuncVal) and any(d in ("cached_property",) for d in m.decorators()):
                yield from I.call(m, [v], {}, st)
                return
            if name in e.attrs:
                yield st, e.attrs[name]
                return
            if m is not None:
                yield st, bind_member(I, st, m, v, e.cls)
                return
            ga, _ = I.class_lookup(e.cls, "__getattr__")
            if ga is not None:
                yield from I.call(ga, [v, name], {}, st)
                return
            yield st, exc("AttributeError", "'%s' object has no attribute '%s'" % (e.cls.name, name))
            return
        if e.kind in ("list", "deque"):
            yield st, list_method(I, st, v, name)
            return
        if e.kind == "dict":
            yield st, dict_method(I, st, v, name)
            return
        if e.kind == "set":
            yield st, set_method(I, st, v, name)
            return
        if e.kind == "nd":
            from . import npmodel

            yield from npmodel.nd_getattr(I, st, v, name)
            return
        if e.kind == "symlist":
            yield st, symlist_method(I, st, v, name)
            return
    if isinstance(v, HeapSeq):
        yield st, heapseq_method(I, st, v, name)
        return
    if isinstance(v, ModuleVal):
        yield st, module_attr(I, st, v, name)
        return
    if isinstance(v, ClassVal):
        if name == "__name__":
            yield st, v.name
            return
        if ("classattr", id(v.node), name) in st.ghost:
            yield st, st.ghost[("classattr", id(v.node), name)]
            return
        if M.is_enum_class(I, v):
            yield st, enum_member(I, st, v, name)
            return
        m, where = I.class_lookup(v, name)
        if m is None:
            yield st, exc("AttributeError", "type object '%s' has no attribute '%s'" % (v.name, name))
            return
        if isinstance(m, FuncVal) and "classmethod" in m.decorators():
            yield st, BoundMethod(m, v)
            return
        yield st, I.thaw(m, st)
        return
    if isinstance(v, BuiltinClass):
        if name == "__name__":
            yield st, v.name
            return
        if v.name == "dict" and name == "fromkeys":
            yield st, bi("dict.fromkeys", _dict_fromkeys)
            return
        if v.name == "float" and name == "fromhex":
            raise Unsupported("float.fromhex")
        raise Unsupported("attribute %s of builtin class %s" % (name, v.name))
    if isinstance(v, SuperVal):
        selfv = v.self_val
        if isinstance(selfv, Ref):
            cls = st.get(selfv).cls
        elif isinstance(selfv, HObj):
            cls = selfv.cls
        elif isinstance(selfv, ClassVal):
            cls = selfv
        else:
            raise Unsupported("super() without self")
        m, where = I.class_lookup(cls, name, start_after=v.cls)
        if m is None:
            # object.__init__ etc.
            if name in ("__init__", "__setstate__", "__init_subclass__"):
                yield st, bi("object." + name, lambda I, st, a, k: iter([(st, None)]))
                return
            if name == "__setattr__":
                def _sa(I, st, a, k):
                    yield from setattr(I, st, selfv, a[0], a[1], raw=True)
                yield st, bi("object.__setattr__", _sa)
                return
            raise Unsupported("super().%s not found" % name)
        if isinstance(m, FuncVal):
            if "property" in m.decorators():
                yield from I.call(m, [selfv], {}, st)
                return
            if "staticmethod" in m.decorators():
                yield st, m
                return
            if "classmethod" in m.decorators():
                yield st, BoundMethod(m, cls)
                return
            yield st, BoundMethod(m, selfv)
            return
        yield st, m
        return
    if isinstance(v, ExcVal):
        if name == "args":
            yield st, tuple(v.args)
            return
        raise Unsupported("exception attribute " + name)
    if isinstance(v, M.NamedTuple):
        if name in v.fields:
            yield st, v[v.fields.index(name)]
            return
        if name == "_asdict":
            yield st, simple("_asdict", lambda I, st: st.alloc(DictE(dict(zip(v.fields, v)))))
            return
        if name == "_replace":
            def _rep(I, st, **kw):
                vals = [kw.get(f, x) for f, x in zip(v.fields, v)]
                return M.NamedTuple(vals, v.fields, v.clsval)
            yield st, simple("_replace", _rep)
            return
        if name == "_fields":
            yield st, tuple(v.fields)
            return
    if isinstance(v, M.EnumMember):
        if name == "value":
            yield st, v.value
            return
        if name == "name":
            yield st, v.name
            return
        m, where = I.class_lookup(v.cls, name)
        if isinstance(m, FuncVal):
            if "property" in m.decorators():
                yield from I.call(m, [v], {}, st)
            else:
                yield st, BoundMethod(m, v)
            return
    if isinstance(v, str):
        yield st, str_method(I, st, v, name)
        return
    if isinstance(v, (bytes, bytearray)):
        if name == "join":
            from . import bytesmodel

            yield st, simple("bytes.join", lambda I, st, items: bytesmodel.bytes_join(I, st, v, items))
            return
        yield st, str_method(I, st, v, name)
        return
    if isinstance(v, tuple):
        if name == "index":
            yield st, simple("tuple.index", lambda I, st, x: list(v).index(x))
            return
        if name == "count":
            yield st, simple("tuple.count", lambda I, st, x: list(v).count(x))
            return
    if isinstance(v, FrozenList):
        yield from getattr(I, st, I.thaw(v, st), name)
        return
    if isinstance(v, FrozenDict):
        yield from getattr(I, st, I.thaw(v, st), name)
        return
    if isinstance(v, FrozenNd):
        yield from getattr(I, st, I.thaw(v, st), name)
        return
    if isinstance(v, frozenset):
        yield from getattr(I, st, I.thaw(v, st), name)
        return
    if isinstance(v, Opaque):
        yield st, Opaque(v.desc + "." + name)
        return
    if isinstance(v, FuncVal):
        if name == "__name__":
            yield st, v.name
            return
    if isinstance(v, BoundMethod) and name == "__name__":
        yield st, v.func.name
        return
    if is_boollike(v) and name == "__bool__":
        yield st, simple("bool.__bool__", lambda I, st: v)
        return
    if is_z3(v) or isinstance(v, (int, Fraction)):
        if name == "real":
            yield st, v
            return
        if name == "is_integer" and not is_z3(v):
            yield st, simple("is_integer", lambda I, st: Fraction(v).denominator == 1)
            return
    if v is None:
        yield st, exc("AttributeError", "'NoneType' object has no attribute '%s'" % name)
        return
    if isinstance(v, Unknown):
        raise Unsupported("attribute %s of unmodelled %s" % (name, v.desc))
    raise Unsupported("attribute %s of %r" % (name, v))


def class_attr_for_instance(I, st, inst, cls, name):
    m, where = I.class_lookup(cls, name)
    if m is None:
        if name == "__class__":
            yield st, cls
            return
        yield st, exc("AttributeError", "'%s' object has no attribute '%s'" % (cls.name, name))
        return
    if isinstance(m, FuncVal) and "property" in m.decorators():
        yield from I.call(m, [inst], {}, st)
        return
    yield st, bind_member(I, st, m, inst, cls)


def bind_member(I, st, m, inst, cls):
    if isinstance(m, FuncVal):
        d = m.decorators()
        if "staticmethod" in d:
            return m
        if "classmethod" in d:
            return BoundMethod(m, cls)
        return BoundMethod(m, inst)
    return I.thaw(m, st)


def module_attr(I, st, mv, name):
    if mv.info is not None:
        if mv.info.name == "armi.runLog" or mv.info.name.endswith(".runLog"):
            I.trust("runLog", "A7: armi.runLog calls are effect-free for the model")
            return bi("runLog." + name, lambda I, st, a, k: iter([(st, None)]))
        try:
            return I.thaw(I.resolve_global(mv.info, name), st)
        except KeyError:
            sub = extract.load_module(mv.info.name + "." + name)
            if sub is not None:
                return ModuleVal(info=sub)
            raise Unsupported("module %s has no attribute %s" % (mv.info.name, name))
    d = I.ext_modules.get(mv.model)
    if d is None:
        raise Unsupported("unmodelled module " + str(mv.model))
    if name in d:
        return d[name]
    sub = mv.model + "." + name
    if sub in I.ext_modules:
        return ModuleVal(model=sub)
    raise Unsupported("unmodelled %s.%s" % (mv.model, name))


def enum_member(I, st, cls, name):
    M = _m()
    m, where = I.class_lookup(cls, name)
    if m is None:
        raise Unsupported("enum member %s.%s" % (cls.name, name))
    if isinstance(m, (FuncVal,)):
        if "classmethod" in m.decorators():
            return BoundMethod(m, cls)
        return m
    return M.EnumMember(cls, name, m)


# ============================================================================ setattr
def setattr(I, st, obj, name, v, raw=False):
    if isinstance(obj, HObj):
        if not raw and obj.cls is not None:
            sa, _ = I.class_lookup(obj.cls, "__setattr__")
            if sa is not None:
                for st1, r in I.call(sa, [obj, name, v], {}, st):
                    yield st1, (r if isinstance(r, Exc) else None)
                return
            m, _ = I.class_lookup(obj.cls, name + ".setter")
            if m is not None:
                for st1, r in I.call(m, [obj, v], {}, st):
                    yield st1, (r if isinstance(r, Exc) else None)
                return
        heap_setattr(I, st, obj, name, v)
        yield st, None
        return
    if isinstance(obj, Ref) and st.get(obj).kind == "obj":
        e = st.get(obj)
        if not raw:
            sa, _ = I.class_lookup(e.cls, "__setattr__")
            if sa is not None:
                for st1, r in I.call(sa, [obj, name, v], {}, st):
                    yield st1, (r if isinstance(r, Exc) else None)
                return
            m, _ = I.class_lookup(e.cls, name + ".setter")
            if m is not None:
                for st1, r in I.call(m, [obj, v], {}, st):
                    yield st1, (r if isinstance(r, Exc) else None)
                return
            g, _ = I.class_lookup(e.cls, name)
            from .values import PropertyVal

            if isinstance(g, PropertyVal):
                if g.fset is None:
                    yield st, exc("AttributeError", "can't set attribute '%s'" % name)
                    return
                for st1, r in I.call(g.fset, [obj, v], {}, st):
                    yield st1, (r if isinstance(r, Exc) else None)
                return
            if isinstance(g, FuncVal) and "property" in g.decorators():
                yield st, exc("AttributeError", "can't set attribute '%s'" % name)
                return
        if name == "__dict__":
            # obj.__dict__ = d: the instance attributes become exactly the items of d, and d stays the live __dict__
            if not (isinstance(v, Ref) and st.get(v).kind == "dict") or st.get(v).owner is not None:
                raise Unsupported("assignment of a non-dict to __dict__")
            d = st.get(v)
            if not all(isinstance(kk, str) for kk in d.items):
                raise Unsupported("__dict__ with non-string keys")
            e.attrs = dict(d.items)
            d.owner = obj
            yield st, None
            return
        e.attrs[name] = v
        yield st, None
        return
    if isinstance(obj, Opaque):
        yield st, None
        return
    if isinstance(obj, ClassVal):
        # class attribute rebinding (e.g. instance counters): kept per path
        st.ghost[("classattr", id(obj.node), name)] = v
        yield st, None
        return
    raise Unsupported("attribute assignment on %r" % (obj,))


def delattr(I, st, obj, name):
    if isinstance(obj, Ref) and st.get(obj).kind == "obj":
        e = st.get(obj)
        if name in e.attrs:
            del e.attrs[name]
            yield st, None
        else:
            yield st, exc("AttributeError", name)
        return
    raise Unsupported("del attribute on %r" % (obj,))


# ============================================================================ container methods
def list_method(I, st, ref, name):
    M = _m()

    def L(st):
        return st.get(ref).items

    def append(I, st, a, k):
        L(st).append(a[0])
        yield st, None

    def extend(I, st, a, k):
        L(st).extend(I.iterate(a[0], st))
        yield st, None

    def insert(I, st, a, k):
        i = a[0]
        if not isinstance(i, int):
            raise Unsupported("list.insert at symbolic index")
        L(st).insert(i, a[1])
        yield st, None

    def pop(I, st, a, k):
        items = L(st)
        i = a[0] if a else -1
        if not isinstance(i, int):
            raise Unsupported("list.pop at symbolic index")
        if not items or not (-len(items) <= i < len(items)):
            yield st, exc("IndexError", "pop from empty list / index out of range")
            return
        yield st, items.pop(i)

    def _find(st, x):
        """-> list of (state, index or None); forks on symbolic equality"""
        items = L(st)
        conds = [M.eq_values(I, st, y, x) for y in items]
        out = []
        prefix = []
        for i, c in enumerate(conds):
            here = M.conj(prefix + [c])
            if I.feasible(st, here):
                s2 = st.fork()
                if is_z3(here):
                    s2.pc.append(here)
                out.append((s2, i))
            if not is_z3(c) and c:
                return out
            prefix.append(M.znot(c))
        none = M.conj(prefix)
        if I.feasible(st, none):
            s3 = st.fork()
            if is_z3(none):
                s3.pc.append(none)
            out.append((s3, None))
        return out

    def remove(I, st, a, k):
        for s2, i in _find(st, a[0]):
            if i is None:
                yield s2, exc("ValueError", "list.remove(x): x not in list")
            else:
                del s2.get(ref).items[i]
                yield s2, None

    def index(I, st, a, k):
        for s2, i in _find(st, a[0]):
            if i is None:
                yield s2, exc("ValueError", "x not in list")
            else:
                yield s2, i

    def count(I, st, a, k):
        items = L(st)
        tot = 0
        for y in items:
            c = M.eq_values(I, st, y, a[0])
            tot = ops_sum(tot, z3.If(c, 1, 0) if is_z3(c) else int(bool(c)))
        yield st, tot

    def sort(I, st, a, k):
        for st1, r in sorted_values(I, st, L(st), k.get("key"), k.get("reverse", False)):
            if isinstance(r, Exc):
                yield st1, r
            else:
                st1.get(ref).items[:] = r
                yield st1, None

    def reverse(I, st, a, k):
        L(st).reverse()
        yield st, None

    def copy(I, st, a, k):
        yield st, st.alloc(ListE(L(st)))

    def clear(I, st, a, k):
        del L(st)[:]
        yield st, None

    def rotate(I, st, a, k):
        n = a[0] if a else 1
        items = L(st)
        ln = len(items)
        I.trust("deque.rotate", "A3: deque.rotate(n) moves each element n places to the right, cyclically")
        if isinstance(n, int):
            if ln:
                s = n % ln
                items[:] = items[-s:] + items[:-s] if s else items
            yield st, None
            return
        n = z3val(n)
        for r in range(ln):
            c = (n % ln) == r
            if I.feasible(st, c):
                s2 = st.fork()
                s2.pc.append(c)
                it = s2.get(ref).items
                it[:] = (it[-r:] + it[:-r]) if r else it
                yield s2, None

    def appendleft(I, st, a, k):
        L(st).insert(0, a[0])
        yield st, None

    def popleft(I, st, a, k):
        if not L(st):
            yield st, exc("IndexError", "pop from an empty deque")
        else:
            yield st, L(st).pop(0)

    tbl = dict(append=append, extend=extend, insert=insert, pop=pop, remove=remove, index=index, count=count,
               sort=sort, reverse=reverse, copy=copy, clear=clear, rotate=rotate, appendleft=appendleft, popleft=popleft)
    if name not in tbl:
        raise Unsupported("list method " + name)
    return bi("list." + name, tbl[name])


def ops_sum(a, b):
    x, y, sym = coerce_pair(a, b)
    return x + y


def sorted_values(I, st, items, key=None, reverse=False):
    """Sort a concrete-length list.  Concrete keys only (symbolic keys: Unsupported)."""
    M = _m()
    if key is not None:
        keys = []
        cur = st
        for x in items:
            outs = list(I.call(key, [x], {}, cur))
            if len(outs) != 1 or isinstance(outs[0][1], Exc):
                raise Unsupported("sort key forks or raises")
            cur, kv = outs[0]
            keys.append(kv)
    else:
        keys = list(items)
        cur = st

    def conc(k):
        if isinstance(k, (int, Fraction, str, bool)):
            return True
        if isinstance(k, tuple):
            return all(conc(x) for x in k)
        return False

    if all(conc(k) for k in keys):
        try:
            order = sorted(range(len(items)), key=lambda i: keys[i], reverse=bool(reverse))
        except TypeError:
            yield cur, exc("TypeError", "unorderable")
            return
        I.trust("sorted", "A3: sorted/list.sort is the stable ordering permutation w.r.t. <")
        yield cur, [items[i] for i in order]
        return
    if len(items) <= 1:
        yield cur, list(items)
        return
    if all(obj_lt(I, cur, k) for k in keys):
        yield from sort_objects(I, cur, items, keys, reverse)
        return
    # tuples whose concrete leading components are pairwise distinct: lexicographic comparison is decided inside
    # that prefix (the first differing position lies in it), the symbolic rest is never compared
    if all(isinstance(k, tuple) for k in keys):
        maxp = min(len(k) for k in keys)
        for p in range(1, maxp + 1):
            if not all(conc(k[:p]) for k in keys):
                break
            prefixes = [k[:p] for k in keys]
            if all(prefixes[i] != prefixes[j] for i in range(len(keys)) for j in range(i)):
                try:
                    order = sorted(range(len(items)), key=lambda i: prefixes[i], reverse=bool(reverse))
                except TypeError:
                    yield cur, exc("TypeError", "unorderable")
                    return
                I.trust("sorted", "A3: sorted/list.sort is the stable ordering permutation w.r.t. <")
                yield cur, [items[i] for i in order]
                return
    raise Unsupported("sorting symbolic keys")


def obj_lt(I, st, k):
    return isinstance(k, Ref) and st.get(k).kind == "obj" and I.class_lookup(st.get(k).cls, "__lt__")[0] is not None


def sort_objects(I, st, items, keys, reverse):
    raise Unsupported("sorting objects by __lt__")


def dict_method(I, st, ref, name):
    M = _m()

    def D(st):
        return st.get(ref).items

    def get(I, st, a, k):
        d = D(st)
        default = a[1] if len(a) > 1 else k.get("default", None)
        if is_z3(a[0]):
            for s2, v in M.dict_symbolic_get(I, st, st.get(ref), a[0]):
                yield s2, (default if isinstance(v, Exc) else v)
            return
        yield st, d.get(I.hashable(a[0]), default)

    def items(I, st, a, k):
        yield st, st.alloc(ListE([(kk, vv) for kk, vv in D(st).items()]))

    def keys(I, st, a, k):
        yield st, st.alloc(ListE(list(D(st))))

    def values(I, st, a, k):
        yield st, st.alloc(ListE(list(D(st).values())))

    def update(I, st, a, k):
        d = D(st)
        if a:
            src = a[0]
            if isinstance(src, Ref) and st.get(src).kind == "dict":
                d.update(st.get(src).items)
            else:
                for kv in I.iterate(src, st):
                    kk, vv = I.iterate(kv, st)
                    d[I.hashable(kk)] = vv
        d.update(k)
        yield st, None

    def pop(I, st, a, k):
        d = D(st)
        key = I.hashable(a[0])
        if key in d:
            yield st, d.pop(key)
        elif len(a) > 1:
            yield st, a[1]
        else:
            yield st, exc("KeyError", key)

    def setdefault(I, st, a, k):
        d = D(st)
        key = I.hashable(a[0])
        if key not in d:
            d[key] = a[1] if len(a) > 1 else None
        yield st, d[key]

    def copy(I, st, a, k):
        yield st, st.alloc(DictE(D(st)))

    def clear(I, st, a, k):
        D(st).clear()
        yield st, None

    tbl = dict(get=get, items=items, keys=keys, values=values, update=update, pop=pop, setdefault=setdefault, copy=copy, clear=clear)
    if name not in tbl:
        raise Unsupported("dict method " + name)
    return bi("dict." + name, tbl[name])


def _dict_fromkeys(I, st, a, k):
    keys = I.iterate(a[0], st)
    v = a[1] if len(a) > 1 else None
    yield st, st.alloc(DictE({I.hashable(x): v for x in keys}))


def set_method(I, st, ref, name):
    def S(st):
        return st.get(ref).items

    def add(I, st, a, k):
        x = I.hashable(a[0])
        if x not in S(st):
            S(st).append(x)
        yield st, None

    def discard(I, st, a, k):
        x = I.hashable(a[0])
        if x in S(st):
            S(st).remove(x)
        yield st, None

    def remove(I, st, a, k):
        x = I.hashable(a[0])
        if x in S(st):
            S(st).remove(x)
            yield st, None
        else:
            yield st, exc("KeyError", x)

    def update(I, st, a, k):
        for src in a:
            for x in I.iterate(src, st):
                x = I.hashable(x)
                if x not in S(st):
                    S(st).append(x)
        yield st, None

    def union(I, st, a, k):
        out = list(S(st))
        for src in a:
            for x in I.iterate(src, st):
                if x not in out:
                    out.append(x)
        yield st, st.alloc(SetE(out))

    def intersection(I, st, a, k):
        out = list(S(st))
        for src in a:
            other = I.iterate(src, st)
            out = [x for x in out if x in other]
        yield st, st.alloc(SetE(out))

    def difference(I, st, a, k):
        out = list(S(st))
        for src in a:
            other = I.iterate(src, st)
            out = [x for x in out if x not in other]
        yield st, st.alloc(SetE(out))

    def issubset(I, st, a, k):
        other = I.iterate(a[0], st)
        yield st, all(x in other for x in S(st))

    def copy(I, st, a, k):
        yield st, st.alloc(SetE(S(st)))

    tbl = dict(add=add, discard=discard, remove=remove, update=update, union=union, intersection=intersection,
               difference=difference, issubset=issubset, copy=copy)
    if name not in tbl:
        raise Unsupported("set method " + name)
    return bi("set." + name, tbl[name])


def symlist_method(I, st, ref, name):
    def append(I, st, a, k):
        e = st.get(ref)
        e.arr = z3.Store(e.arr, e.length, z3val(as_arith(a[0])))
        e.length = e.length + 1
        yield st, None

    def pop(I, st, a, k):
        e = st.get(ref)
        i = z3val(as_arith(a[0])) if a else z3.IntVal(-1)
        n = e.length
        for st1, ok in I.branch(st, z3.And(i >= -n, i < n)):
            if not ok:
                yield st1, exc("IndexError", "pop index out of range")
                continue
            e1 = st1.get(ref)
            p = z3.simplify(z3.If(i < 0, i + n, i))
            kk = z3.Int("k!pop")
            val = z3.Select(e1.arr, p)
            I.trust("list.pop", "A3: list.pop(i) removes position i and shifts the tail left")
            e1.arr = z3.Lambda([kk], z3.If(kk < p, z3.Select(e1.arr, kk), z3.Select(e1.arr, kk + 1)))
            e1.length = n - 1
            st1.ghost["last_pop_pos"] = p
            yield st1, val

    tbl = dict(append=append, pop=pop)
    if name not in tbl:
        raise Unsupported("method %s on a symbolic-length list" % name)
    return bi("symlist." + name, tbl[name])


def heapseq_method(I, st, hs, name):
    def wrap1(meth):
        def fn(I, st, a, k):
            yield from meth(I, st, *a)

        return fn

    tbl = dict(append=hs.append, insert=hs.insert, remove=hs.remove, index=hs.index, pop=hs.pop, clear=hs.clear)
    if name not in tbl:
        raise Unsupported("method %s on a heap sequence" % name)
    return bi("heapseq." + name, wrap1(tbl[name]))


def str_method(I, st, s, name):
    if not hasattr(s, name):
        raise Unsupported("str attribute " + name)
    pm = _b.getattr(s, name)

    def fn(I, st, a, k):
        def conc(x):
            if isinstance(x, Fraction):
                return float(x)
            if isinstance(x, (str, int, bool, bytes, type(None))):
                return x
            if isinstance(x, tuple):
                return tuple(conc(y) for y in x)
            if isinstance(x, Ref) and st.get(x).kind == "list":
                return [conc(y) for y in st.get(x).items]
            raise Unsupported("symbolic")

        try:
            ca = [conc(x) for x in a]
            ck = {kk: conc(v) for kk, v in k.items()}
        except Unsupported:
            if name in ("format", "join"):
                yield st, Opaque("str." + name)
                return
            raise Unsupported("str.%s with symbolic argument" % name)
        try:
            r = pm(*ca, **ck)
        except Exception as e:  # noqa
            yield st, exc(type(e).__name__, str(e))
            return
        if isinstance(r, list):
            r = st.alloc(ListE(r))
        if isinstance(r, float):
            r = to_frac(r)
        yield st, r

    return bi("str." + name, fn)


# ============================================================================ builtin classes as callables
def call_builtin_class(I, st, c, args, kwargs):
    M = _m()
    n = c.name
    if c.pyobj is not None and isinstance(c.pyobj, type) and issubclass(c.pyobj, BaseException):
        yield st, ExcVal(c, args)
        return
    if n == "int":
        yield from to_int(I, st, args[0] if args else 0)
    elif n == "float":
        yield from to_float(I, st, args[0] if args else Fraction(0))
    elif n == "bool":
        yield st, I.truth(args[0], st) if args else False
    elif n == "str":
        v = args[0] if args else ""
        if isinstance(v, str):
            yield st, v
        elif isinstance(v, (int, bool)) or v is None:
            yield st, str(v)
        elif isinstance(v, Fraction):
            yield st, repr(float(v))
        else:
            yield st, Opaque("str()")
    elif n == "tuple":
        yield st, tuple(I.iterate(args[0], st)) if args else ()
    elif n == "list":
        if args and isinstance(args[0], SymSetOf):
            yield st, args[0]
            return
        yield st, st.alloc(ListE(I.iterate(args[0], st) if args else []))
    elif (n == "set" or n == "frozenset") and args and isinstance(args[0], Ref) and st.get(args[0]).kind == "symlist":
        yield st, SymSetOf(args[0])
    elif n == "set" or n == "frozenset":
        items = []
        for x in I.iterate(args[0], st) if args else []:
            I.hashable(x)
            if x not in items:
                items.append(x)
        yield st, st.alloc(SetE(items))
    elif n == "dict":
        d = {}
        if args:
            src = args[0]
            if isinstance(src, Ref) and st.get(src).kind == "dict":
                d.update(st.get(src).items)
            else:
                for kv in I.iterate(src, st):
                    kk, vv = I.iterate(kv, st)
                    d[I.hashable(kk)] = vv
        d.update(kwargs)
        yield st, st.alloc(DictE(d))
    elif n == "object":
        yield st, Opaque("object()")
    elif n == "deque":
        yield st, st.alloc(DequeE(I.iterate(args[0], st) if args else []))
    elif n == "type":
        yield st, type_of(I, st, args[0])
    elif n == "range":
        yield st, make_range(I, st, args)
    else:
        raise Unsupported("call of builtin class " + n)


def type_of(I, st, v):
    if isinstance(v, Ref):
        e = st.get(v)
        if e.kind == "obj":
            return e.cls
        return BuiltinClass({"list": "list", "dict": "dict", "set": "set", "nd": "ndarray", "deque": "deque", "symlist": "list"}[e.kind])
    if isinstance(v, HObj):
        return v.cls
    if isinstance(v, bool) or (is_z3(v) and z3.is_bool(v)):
        return BuiltinClass("bool", bool)
    if is_intlike(v):
        return BuiltinClass("int", int)
    if is_reallike(v):
        return BuiltinClass("float", float)
    if isinstance(v, str):
        return BuiltinClass("str", str)
    if isinstance(v, tuple):
        return BuiltinClass("tuple", tuple)
    if v is None:
        return BuiltinClass("NoneType", type(None))
    if isinstance(v, ExcVal):
        return v.cls
    raise Unsupported("type() of %r" % (v,))


def to_int(I, st, v):
    v = as_arith(v)
    if isinstance(v, int):
        yield st, v
    elif isinstance(v, Fraction):
        yield st, math.trunc(v)
    elif isinstance(v, str):
        try:
            yield st, int(v)
        except ValueError as e:
            yield st, exc("ValueError", str(e))
    elif is_z3(v) and z3.is_int(v):
        yield st, v
    elif is_z3(v) and z3.is_real(v):
        yield st, ops.z_trunc(v)
    elif isinstance(v, Opaque):
        raise Unsupported("int() of an uninterpreted string")
    else:
        yield st, exc("TypeError", "int() argument")


def to_float(I, st, v):
    v = as_arith(v)
    if isinstance(v, (int, Fraction)):
        yield st, Fraction(v)
    elif isinstance(v, str):
        try:
            yield st, to_frac(float(v))
        except ValueError as e:
            yield st, exc("ValueError", str(e))
    elif is_z3(v) and z3.is_int(v):
        yield st, z3.ToReal(v)
    elif is_z3(v):
        yield st, v
    else:
        yield st, exc("TypeError", "float() argument")


def make_range(I, st, args):
    M = _m()
    args = [as_arith(a) for a in args]
    if all(isinstance(a, int) for a in args):
        return range(*args)
    if len(args) == 1:
        return M.SymRange(0, args[0], 1)
    if len(args) == 2:
        return M.SymRange(args[0], args[1], 1)
    if len(args) == 3 and isinstance(args[2], int):
        return M.SymRange(args[0], args[1], args[2])
    raise Unsupported("range with symbolic step")


# ============================================================================ builtins
def make_builtins(I):
    M = _m()
    B = {}

    def add(name, fn):
        B[name] = Builtin(name, fn)

    for nm in ("int", "float", "bool", "str", "tuple", "list", "set", "frozenset", "dict", "object", "type", "range",
               "bytes", "bytearray"):
        B[nm] = BuiltinClass(nm, _b.__dict__.get(nm))
    for nm, o in _b.__dict__.items():
        if isinstance(o, type) and issubclass(o, BaseException):
            B[nm] = BuiltinClass(nm, o)
    B["None"] = None
    B["True"] = True
    B["False"] = False
    B["NotImplemented"] = Opaque("NotImplemented")
    B["__name__"] = "__pyvc__"
    B["NATIVE"] = False

    def _len(I, st, a, k):
        v = a[0]
        from . import bytesmodel

        if isinstance(v, (tuple, str, bytes)):
            yield st, len(v)
        elif isinstance(v, bytesmodel.BytesVal):
            yield st, v.length()
        elif isinstance(v, HeapSeq):
            yield st, v.length(I, st)
        elif isinstance(v, Ref):
            e = st.get(v)
            if e.kind in ("list", "deque", "set", "dict"):
                yield st, len(e.items)
            elif e.kind == "symlist":
                yield st, e.length
            elif e.kind == "nd":
                if not e.shape:
                    yield st, exc("TypeError", "len() of unsized object")
                else:
                    yield st, e.shape[0]
            elif e.kind == "obj":
                m, _ = I.class_lookup(e.cls, "__len__")
                if m is None:
                    yield st, exc("TypeError", "object has no len()")
                else:
                    yield from I.call(m, [v], {}, st)
        elif isinstance(v, range):
            yield st, len(v)
        elif isinstance(v, M.SymRange):
            d = ops.zmax(0, ops_sub(v.hi, v.lo))
            yield st, d
        elif hasattr(v, "items") and isinstance(getattr_py(v, "items"), (list, dict)):
            yield st, len(v.items)
        elif isinstance(v, frozenset):
            yield st, len(v)
        elif v is None or is_number(v):
            yield st, exc("TypeError", "object has no len()")
        else:
            raise Unsupported("len of %r" % (v,))

    add("len", _len)

    def _abs(I, st, a, k):
        v = as_arith(a[0])
        if is_z3(v):
            yield st, ops.z_abs(v)
        elif isinstance(v, Ref) and st.get(v).kind == "nd":
            from . import npmodel

            yield st, npmodel.nd_map(I, st, v, lambda x: ops.z_abs(x) if is_z3(x) else abs(x))
        else:
            yield st, abs(v)

    add("abs", _abs)

    def _minmax(which):
        def fn(I, st, a, k):
            if "key" in k:
                raise Unsupported("min/max with key")
            items = I.iterate(a[0], st) if len(a) == 1 else list(a)
            if not items:
                if "default" in k:
                    yield st, k["default"]
                else:
                    yield st, exc("ValueError", "%s() arg is an empty sequence" % which)
                return
            if all(isinstance(x, tuple) for x in items):
                if all(all(isinstance(y, (int, Fraction)) for y in x) for x in items):
                    yield st, (min(items) if which == "min" else max(items))
                    return
                raise Unsupported("min/max over symbolic tuples")
            if not all(is_number(x) for x in items):
                if all(isinstance(x, str) for x in items):
                    yield st, (min(items) if which == "min" else max(items))
                    return
                yield st, exc("TypeError", "unorderable types in %s()" % which)
                return
            r = items[0]
            for x in items[1:]:
                r = ops.zmin(r, x) if which == "min" else ops.zmax(r, x)
            yield st, r

        return fn

    add("min", _minmax("min"))
    add("max", _minmax("max"))

    def _sum(I, st, a, k):
        if isinstance(a[0], Ref) and st.get(a[0]).kind == "symlist":
            outs = list(I.call(I.builtins["psum"], [a[0], st.get(a[0]).length], {}, st))
            start = a[1] if len(a) > 1 else k.get("start", 0)
            for s1, v in outs:
                if isinstance(v, Exc) or (not is_z3(start) and start == 0):
                    yield s1, v
                else:
                    yield from M.binop(I, s1, "Add", start, v)
            return
        items = I.iterate(a[0], st)
        tot = a[1] if len(a) > 1 else k.get("start", 0)
        cur = [(st, tot)]
        for x in items:
            nxt = []
            for s1, t in cur:
                for s2, r in M.binop(I, s1, "Add", t, x):
                    nxt.append((s2, r))
            cur = nxt
        for s1, t in cur:
            yield s1, t

    add("sum", _sum)

    def _divmod(I, st, a, k):
        for s1, q in M.binop(I, st, "FloorDiv", a[0], a[1]):
            if isinstance(q, Exc):
                yield s1, q
                continue
            for s2, r in M.binop(I, s1, "Mod", a[0], a[1]):
                yield s2, (r if isinstance(r, Exc) else (q, r))

    add("divmod", _divmod)

    def _round(I, st, a, k):
        v = as_arith(a[0])
        nd = a[1] if len(a) > 1 else k.get("ndigits")
        if nd is not None:
            if not isinstance(nd, int):
                raise Unsupported("round with symbolic ndigits")
            if is_z3(v):
                I.trust("round-ndigits", "A1: round(x, n) = round_half_even(x*10^n)/10^n over the reals")
                sc = z3.RealVal(10 ** nd) if nd >= 0 else z3.RealVal(Fraction(1, 10 ** (-nd)))
                vr = z3.ToReal(v) if z3.is_int(v) else v
                yield st, z3.ToReal(ops.z_round_half_even(vr * sc)) / sc
            else:
                yield st, to_frac(round(float(v), nd)) if isinstance(v, Fraction) else round(v, nd)
            return
        if isinstance(v, int):
            yield st, v
        elif isinstance(v, Fraction):
            yield st, round(v)
        elif z3.is_int(v):
            yield st, v
        else:
            I.trust("round", "A1: round(x) is round-half-to-even over the reals")
            yield st, ops.z_round_half_even(v)

    add("round", _round)

    def _isinstance(I, st, a, k):
        yield st, isinstance_model(I, st, a[0], a[1])

    add("isinstance", _isinstance)

    def _issubclass(I, st, a, k):
        c, o = a
        if not isinstance(c, (ClassVal, BuiltinClass)):
            yield st, exc("TypeError", "issubclass() arg 1 must be a class")
            return
        yield st, I.is_subclass(c, o)

    add("issubclass", _issubclass)

    def _enumerate(I, st, a, k):
        start = a[1] if len(a) > 1 else k.get("start", 0)
        inner = a[0]
        try:
            items = I.iterate(inner, st)
        except Unsupported:
            yield st, M.EnumIter(inner, start)
            return
        yield st, st.alloc(ListE([(ops_add(start, i), x) for i, x in enumerate(items)]))

    add("enumerate", _enumerate)

    def _zip(I, st, a, k):
        cols = [I.iterate(x, st) for x in a]
        yield st, st.alloc(ListE([tuple(t) for t in zip(*cols)]))

    add("zip", _zip)

    def _reversed(I, st, a, k):
        yield st, st.alloc(ListE(list(reversed(I.iterate(a[0], st)))))

    add("reversed", _reversed)

    def _sorted(I, st, a, k):
        src = a[0]
        if isinstance(src, SymSetOf) or (isinstance(src, Ref) and st.get(src).kind == "symlist"):
            yield st, sorted_symbolic(I, st, src, k.get("reverse", False))
            return
        items = I.iterate(a[0], st)
        for st1, r in sorted_values(I, st, items, k.get("key"), k.get("reverse", False)):
            yield st1, (r if isinstance(r, Exc) else st1.alloc(ListE(r)))

    add("sorted", _sorted)

    def _anyall(which):
        def fn(I, st, a, k):
            items = I.iterate(a[0], st)
            ts = [I.truth(x, st) for x in items]
            yield st, (M.disj(ts) if which == "any" else M.conj(ts))

        return fn

    add("any", _anyall("any"))
    add("all", _anyall("all"))

    def _map(I, st, a, k):
        f = a[0]
        cols = [I.iterate(x, st) for x in a[1:]]
        out = []
        cur = st
        for t in zip(*cols):
            outs = list(I.call(f, list(t), {}, cur))
            if len(outs) != 1:
                raise Unsupported("map() callee forks")
            cur, v = outs[0]
            if isinstance(v, Exc):
                yield cur, v
                return
            out.append(v)
        yield cur, cur.alloc(ListE(out))

    add("map", _map)

    def _filter(I, st, a, k):
        f, items = a[0], I.iterate(a[1], st)

        def rec(s, i, acc):
            if i == len(items):
                yield s, s.alloc(ListE(acc))
                return
            if f is None:
                outs = [(s, items[i])]
            else:
                outs = list(I.call(f, [items[i]], {}, s))
            for s1, v in outs:
                if isinstance(v, Exc):
                    yield s1, v
                    continue
                for s2, b in I.branch(s1, I.truth(v, s1)):
                    yield from rec(s2, i + 1, acc + [items[i]] if b else acc)

        yield from rec(st, 0, [])

    add("filter", _filter)

    def _print(I, st, a, k):
        yield st, None

    add("print", _print)

    def _id(I, st, a, k):
        v = a[0]
        if isinstance(v, Ref):
            I.trust("id", "A3: id() is injective on live objects")
            yield st, 1000000 + v.id
        elif isinstance(v, HObj):
            f = I.func("id", obj_sort(), z3.IntSort())
            I.trust("id", "A3: id() is injective on live objects")
            yield st, f(v.term)
        else:
            raise Unsupported("id() of a value")

    add("id", _id)

    def _hasattr(I, st, a, k):
        outs = list(getattr(I, st.fork(), a[0], a[1]))
        res = [not isinstance(v, Exc) for _, v in outs]
        if all(res):
            yield st, True
        elif not any(res):
            yield st, False
        else:
            raise Unsupported("hasattr forks")

    add("hasattr", _hasattr)

    def _getattr(I, st, a, k):
        if not isinstance(a[1], str):
            raise Unsupported("getattr with symbolic name")
        for s1, v in getattr(I, st, a[0], a[1]):
            if isinstance(v, Exc) and len(a) > 2 and v.exc.name == "AttributeError":
                yield s1, a[2]
            else:
                yield s1, v

    add("getattr", _getattr)

    def _setattr(I, st, a, k):
        if not isinstance(a[1], str):
            raise Unsupported("setattr with symbolic name")
        yield from setattr(I, st, a[0], a[1], a[2])

    add("setattr", _setattr)

    def _callable(I, st, a, k):
        yield st, isinstance(a[0], (FuncVal, BoundMethod, Builtin, ClassVal, BuiltinClass))

    add("callable", _callable)

    def _repr(I, st, a, k):
        v = a[0]
        if isinstance(v, (str, int, bool)) or v is None:
            yield st, repr(v)
        else:
            yield st, Opaque("repr")

    add("repr", _repr)

    def _hash(I, st, a, k):
        v = a[0]
        if isinstance(v, Ref) and st.get(v).kind == "obj":
            m, _ = I.class_lookup(st.get(v).cls, "__hash__")
            if m is not None:
                yield from I.call(m, [v], {}, st)
                return
            yield st, 1000000 + v.id
            return
        yield st, Opaque("hash")

    add("hash", _hash)

    def _iter(I, st, a, k):
        yield st, st.alloc(ListE(I.iterate(a[0], st)))

    add("iter", _iter)

    def _next(I, st, a, k):
        v = a[0]
        if isinstance(v, Ref) and st.get(v).kind == "list":
            items = st.get(v).items
            if items:
                yield st, items.pop(0)
            elif len(a) > 1:
                yield st, a[1]
            else:
                yield st, exc("StopIteration")
            return
        raise Unsupported("next() on %r" % (v,))

    add("next", _next)

    def _property(I, st, a, k):
        from .values import PropertyVal

        fget = a[0] if a else k.get("fget")
        fset = a[1] if len(a) > 1 else k.get("fset")
        yield st, PropertyVal(fget, fset)

    add("property", _property)
    add("staticmethod", lambda I, st, a, k: iter([(st, a[0])]))
    add("classmethod", _property)
    add("vars", lambda I, st, a, k: getattr(I, st, a[0], "__dict__"))

    from . import speclib

    speclib.install(I, B)
    return B


class SymSetOf:
    """set(L) / list(set(L)) for a symbolic-length list L: only sorted() of it is modelled"""

    def __init__(self, ref):
        self.ref = ref


def sorted_symbolic(I, st, src, reverse):
    """A3: sorted(L) is a non-decreasing rearrangement of L; sorted(set(L)) the strictly increasing enumeration of
    the values of L.  Facts added: order; every result element is an element of L and vice versa; equal length and
    identity when L itself is already (strictly) increasing - for plain lists."""
    if reverse not in (False, True):
        raise Unsupported("sorted with symbolic reverse")
    dedup = isinstance(src, SymSetOf)
    ref = src.ref if dedup else src
    e = st.get(ref)
    n = I.fresh("int", "sorted_len")
    arr = I.fresh(e.arr.sort(), "sorted")
    k, j = z3.Int("k!so"), z3.Int("j!so")
    st.pc.append(n >= 0)
    if dedup:
        st.pc.append(n <= e.length)
        st.pc.append(z3.Implies(e.length > 0, n > 0))
    else:
        st.pc.append(n == e.length)
    less = (lambda x, y: x > y) if reverse else (lambda x, y: x < y)
    leq = (lambda x, y: x >= y) if reverse else (lambda x, y: x <= y)
    order = less if dedup else leq
    st.pc.append(z3.ForAll([k], z3.Implies(z3.And(k >= 0, k < n - 1), order(z3.Select(arr, k), z3.Select(arr, k + 1)))))
    w1 = I.func("sorted_src_%d" % arr.get_id(), z3.IntSort(), z3.IntSort())
    w2 = I.func("sorted_dst_%d" % arr.get_id(), z3.IntSort(), z3.IntSort())
    st.pc.append(z3.ForAll([k], z3.Implies(z3.And(k >= 0, k < n), z3.And(w1(k) >= 0, w1(k) < e.length, z3.Select(e.arr, w1(k)) == z3.Select(arr, k))),
                           patterns=[z3.Select(arr, k)]))
    st.pc.append(z3.ForAll([j], z3.Implies(z3.And(j >= 0, j < e.length), z3.And(w2(j) >= 0, w2(j) < n, z3.Select(arr, w2(j)) == z3.Select(e.arr, j))),
                           patterns=[z3.Select(e.arr, j)]))
    if not dedup:
        already = z3.ForAll([k], z3.Implies(z3.And(k >= 0, k < e.length - 1), leq(z3.Select(e.arr, k), z3.Select(e.arr, k + 1))))
        st.pc.append(z3.Implies(already, z3.ForAll([k], z3.Implies(z3.And(k >= 0, k < n), z3.Select(arr, k) == z3.Select(e.arr, k)))))
    I.trust("sorted-symbolic", "A3: sorted(L) / sorted(set(L)) of a symbolic list: ordered rearrangement / strictly increasing enumeration of the values of L")
    return st.alloc(SymListE(n, arr))


def getattr_py(o, n):
    return _b.getattr(o, n, None)


def ops_add(a, b):
    x, y, sym = coerce_pair(a, b)
    return x + y


def ops_sub(a, b):
    x, y, sym = coerce_pair(a, b)
    return x - y


def isinstance_model(I, st, v, cls):
    M = _m()
    if isinstance(cls, tuple):
        return M.disj([isinstance_model(I, st, v, c) for c in cls])
    if isinstance(cls, Opaque):
        raise Unsupported("isinstance against an unmodelled class")
    if isinstance(cls, Unknown):
        raise Unsupported("isinstance against unmodelled " + cls.desc)
    if isinstance(v, Ref):
        e = st.get(v)
        if e.kind == "obj":
            if isinstance(cls, ClassVal):
                return I.is_subclass(e.cls, cls)
            return isinstance(cls, BuiltinClass) and cls.name == "object"
        kind = {"list": ("list",), "deque": ("deque",), "dict": ("dict",), "set": ("set", "frozenset"), "nd": ("ndarray",),
                "symlist": ("list",)}[e.kind]
        return isinstance(cls, BuiltinClass) and (cls.name in kind or cls.name == "object")
    if isinstance(v, HObj):
        if isinstance(cls, ClassVal) and v.cls is not None:
            if I.is_subclass(v.cls, cls):
                return True
            if I.is_subclass(cls, v.cls):
                raise Unsupported("isinstance of a heap object against a subclass of its static class")
            return False
        return False
    if not isinstance(cls, BuiltinClass):
        if isinstance(cls, ClassVal):
            if isinstance(v, M.EnumMember):
                return I.is_subclass(v.cls, cls)
            if isinstance(v, ExcVal):
                return I.is_subclass(v.cls, cls)
            if isinstance(v, M.NamedTuple):
                return v.clsval == cls
            return False
        raise Unsupported("isinstance against %r" % (cls,))
    n = cls.name
    if n == "object":
        return True
    if isinstance(v, bool) or (is_z3(v) and z3.is_bool(v)):
        return n in ("bool", "int", "integer", "number", "Number", "Integral")
    if is_intlike(v):
        return n in ("int", "integer", "number", "Number", "Integral", "Real")
    if is_reallike(v):
        return n in ("float", "floating", "number", "Number", "Real")
    if isinstance(v, str):
        return n == "str"
    if isinstance(v, tuple):
        return n == "tuple"
    if v is None:
        return n == "NoneType"
    if isinstance(v, ExcVal):
        return I.is_subclass(v.cls, cls)
    if isinstance(v, (frozenset,)):
        return n in ("frozenset", "set")
    from .symex import FrozenList, FrozenDict, FrozenNd

    if isinstance(v, FrozenList):
        return n == "list"
    if isinstance(v, FrozenDict):
        return n == "dict"
    if isinstance(v, FrozenNd):
        return n == "ndarray"
    if isinstance(v, (FuncVal, BoundMethod, Builtin, M.EnumMember, ClassVal, ModuleVal)):
        return False
    raise Unsupported("isinstance of %r" % (v,))


# ============================================================================ external modules
def make_ext_modules(I):
    M = _m()
    E = {}

    # ---- math
    mth = {}

    def m_sqrt(I, st, a, k):
        yield from ops.sqrt(I, st, a[0])

    mth["sqrt"] = bi("math.sqrt", m_sqrt)

    def m_ceil(I, st, a, k):
        v = as_arith(a[0])
        if is_z3(v):
            yield st, (v if z3.is_int(v) else ops.z_ceil(v))
        else:
            yield st, math.ceil(v)

    def m_floor(I, st, a, k):
        v = as_arith(a[0])
        if is_z3(v):
            yield st, (v if z3.is_int(v) else ops.z_floor(v))
        else:
            yield st, math.floor(v)

    mth["ceil"] = bi("math.ceil", m_ceil)
    mth["floor"] = bi("math.floor", m_floor)
    pi = z3.Real("pi")
    I.axiom("pi", z3.And(pi > z3.RealVal("3.14159265358979"), pi < z3.RealVal("3.14159265358980")))
    mth["pi"] = pi
    mth["tau"] = 2 * pi
    mth["inf"] = Opaque("inf")

    def m_fabs(I, st, a, k):
        v = as_arith(a[0])
        yield st, (ops.z_abs(z3.ToReal(v) if z3.is_int(v) else v) if is_z3(v) else Fraction(abs(v)))

    mth["fabs"] = bi("math.fabs", m_fabs)

    def trig(which):
        def fn(I, st, a, k):
            x = as_arith(a[0])
            zx = z3val(x)
            if z3.is_int(zx):
                zx = z3.ToReal(zx)
            s = I.func("sin", z3.RealSort(), z3.RealSort())
            c = I.func("cos", z3.RealSort(), z3.RealSort())
            I.trust("trig", "A1: sin/cos are uninterpreted reals with sin^2+cos^2=1, |.|<=1 and exact values at 0")
            st.pc.append(s(zx) * s(zx) + c(zx) * c(zx) == 1)
            I.axiom("sin0", s(z3.RealVal(0)) == 0)
            I.axiom("cos0", c(z3.RealVal(0)) == 1)
            yield st, (s(zx) if which == "sin" else c(zx))

        return fn

    mth["sin"] = bi("math.sin", trig("sin"))
    mth["cos"] = bi("math.cos", trig("cos"))

    def m_isclose(I, st, a, k):
        x, y = as_arith(a[0]), as_arith(a[1])
        rel = k.get("rel_tol", Fraction(1, 10**9))
        ab = k.get("abs_tol", Fraction(0))
        xx, yy, sym = coerce_pair(x, y)
        if not sym:
            d = abs(xx - yy)
            yield st, d <= max(rel * max(abs(xx), abs(yy)), ab)
            return
        xr = z3.ToReal(xx) if z3.is_int(xx) else xx
        yr = z3.ToReal(yy) if z3.is_int(yy) else yy
        d = ops.z_abs(xr - yr)
        mx = ops.zmax(ops.z_abs(xr), ops.z_abs(yr))
        I.trust("isclose", "A1: math.isclose(a,b) = |a-b| <= max(rel_tol*max(|a|,|b|), abs_tol) over the reals")
        yield st, d <= ops.zmax(z3val(rel) * mx, z3val(ab))

    mth["isclose"] = bi("math.isclose", m_isclose)

    def m_isnan(I, st, a, k):
        yield st, False

    mth["isnan"] = bi("math.isnan", m_isnan)

    def m_radians(I, st, a, k):
        for s1, r in M.binop(I, st, "Mult", a[0], pi / 180):
            yield s1, r

    mth["radians"] = bi("math.radians", m_radians)

    def m_degrees(I, st, a, k):
        for s1, r in M.binop(I, st, "Mult", a[0], 180 / pi):
            yield s1, r

    mth["degrees"] = bi("math.degrees", m_degrees)
    E["math"] = mth

    # ---- collections
    col = {}
    col["deque"] = BuiltinClass("deque")

    def c_namedtuple(I, st, a, k):
        name, fields = a[0], a[1]
        if isinstance(fields, str):
            fl = fields.replace(",", " ").split()
        else:
            fl = I.iterate(fields, st)
        node = ast.ClassDef(name=name, bases=[], keywords=[], body=[], decorator_list=[])
        cv = ClassVal(node, None)
        cv._nt_fields = list(fl)
        cv._members = {}
        yield st, cv

    col["namedtuple"] = bi("collections.namedtuple", c_namedtuple)

    def c_defaultdict(I, st, a, k):
        e = DictE()
        e.default_factory = a[0] if a else None
        yield st, st.alloc(e)

    col["defaultdict"] = bi("collections.defaultdict", c_defaultdict)
    col["OrderedDict"] = BuiltinClass("dict", dict)
    E["collections"] = col

    # ---- itertools
    it = {}

    def i_count(I, st, a, k):
        yield st, M.CountIter(a[0] if a else 0, a[1] if len(a) > 1 else 1)

    it["count"] = bi("itertools.count", i_count)

    def i_product(I, st, a, k):
        import itertools as _it

        cols = [I.iterate(x, st) for x in a]
        rep = k.get("repeat", 1)
        yield st, st.alloc(ListE([tuple(t) for t in _it.product(*cols, repeat=rep)]))

    it["product"] = bi("itertools.product", i_product)

    def i_chain(I, st, a, k):
        out = []
        for x in a:
            out.extend(I.iterate(x, st))
        yield st, st.alloc(ListE(out))

    it["chain"] = bi("itertools.chain", i_chain)

    def i_zip_longest(I, st, a, k):
        import itertools as _it

        cols = [I.iterate(x, st) for x in a]
        yield st, st.alloc(ListE([tuple(t) for t in _it.zip_longest(*cols, fillvalue=k.get("fillvalue"))]))

    it["zip_longest"] = bi("itertools.zip_longest", i_zip_longest)
    E["itertools"] = it

    # ---- typing / abc / misc: names only
    class _Any(dict):
        def __contains__(self, k):
            return True

        def __getitem__(self, k):
            return Opaque("typing." + k)

    E["typing"] = _Any()
    E["abc"] = {"abstractmethod": bi("abstractmethod", lambda I, st, a, k: iter([(st, a[0])])), "ABC": BuiltinClass("object", object),
                "ABCMeta": BuiltinClass("type", type)}
    E["enum"] = {"Enum": BuiltinClass("Enum"), "IntEnum": BuiltinClass("IntEnum"), "Flag": BuiltinClass("Flag"),
                 "auto": bi("enum.auto", lambda I, st, a, k: iter([(st, Opaque("auto"))]))}
    E["numbers"] = {"Number": BuiltinClass("Number"), "Integral": BuiltinClass("Integral"), "Real": BuiltinClass("Real")}

    def cp_copy(I, st, a, k):
        v = a[0]
        if isinstance(v, Ref):
            e = st.get(v)
            if e.kind != "obj":
                yield st, st.alloc(e.copy())
                return
            yield st, st.alloc(ObjE(e.cls, dict(e.attrs)))
            return
        yield st, v

    def cp_deepcopy(I, st, a, k):
        I.trust("deepcopy", "A6: copy.deepcopy yields a structurally equal, disjoint copy (containers and plain objects)")
        memo = {}

        def dc(v):
            if isinstance(v, Ref):
                if v.id in memo:
                    return memo[v.id]
                e = st.get(v)
                if e.kind == "obj":
                    m, _ = I.class_lookup(e.cls, "__deepcopy__")
                    if m is not None:
                        raise Unsupported("deepcopy of object with __deepcopy__")
                    new = st.alloc(ObjE(e.cls, {}))
                    memo[v.id] = new
                    st.get(new).attrs = {kk: dc(x) for kk, x in e.attrs.items()}
                    return new
                new = st.alloc(e.copy())
                memo[v.id] = new
                ne = st.get(new)
                if e.kind in ("list", "deque"):
                    ne.items = [dc(x) for x in e.items]
                elif e.kind == "dict":
                    ne.items = {kk: dc(x) for kk, x in e.items.items()}
                return new
            if isinstance(v, tuple):
                return tuple(dc(x) for x in v)
            return v

        yield st, dc(a[0])

    E["copy"] = {"copy": bi("copy.copy", cp_copy), "deepcopy": bi("copy.deepcopy", cp_deepcopy)}
    from .values import Partial

    E["functools"] = {"partial": bi("functools.partial", lambda I, st, a, k: iter([(st, Partial(a[0], a[1:], k))])),
                      "lru_cache": bi("functools.lru_cache", lambda I, st, a, k: iter([(st, a[0] if a else Opaque("lru_cache"))]))}
    E["operator"] = {}
    E["warnings"] = {"warn": bi("warnings.warn", lambda I, st, a, k: iter([(st, None)]))}

    from . import npmodel, bytesmodel

    E["struct"] = bytesmodel.make_struct(I)
    E["io"] = {"DEFAULT_BUFFER_SIZE": 8192}
    E["numpy"] = npmodel.make_module(I)
    E["numpy.linalg"] = npmodel.make_linalg(I)
    return E
