"""struct / bytes / in-memory stream model (trusted base A4).

A byte string is a sequence of *parts*; a part is what one struct.pack call produced: (format char, value, length).
Trusted facts: len(pack(fmt, v)) == calcsize(fmt); unpack(fmt, pack(fmt, v)) == (v,) ('f': to single precision);
unpacking bytes with a different format / a different split yields an unconstrained value (so a proof that relies on
it fails rather than passes).
"""
from fractions import Fraction

import z3

from .values import Builtin, BuiltinClass, Exc, Opaque, Ref, ListE, Unsupported, is_z3, z3val, as_arith

SIZES = {"i": 4, "q": 8, "f": 4, "d": 8, "c": 1, "h": 2, "b": 1, "B": 1, "I": 4, "Q": 8, "l": 8, "L": 8, "?": 1}


class Part:
    def __init__(self, fmt, val, length):
        self.fmt, self.val, self.length = fmt, val, length


class BytesVal:
    def __init__(self, parts):
        self.parts = list(parts)

    def length(self):
        tot = 0
        for p in self.parts:
            tot = _add(tot, p.length)
        return tot


class SymFmt:
    """'%ds' % n with symbolic n"""

    def __init__(self, n):
        self.n = n


def _add(a, b):
    if is_z3(a) or is_z3(b):
        return z3val(a) + z3val(b)
    return a + b


def parse_fmt(fmt):
    """-> (char, count) for single-item formats like 'i', 'd', '8s', SymFmt"""
    if isinstance(fmt, SymFmt):
        return "s", fmt.n
    if not isinstance(fmt, str):
        raise Unsupported("struct format %r" % (fmt,))
    f = fmt.lstrip("<>=!@")
    if f and f[-1] == "s":
        n = f[:-1]
        return "s", int(n) if n else 1
    if f in SIZES:
        return f, 1
    raise Unsupported("struct format %r" % (fmt,))


def to_bytesval(I, st, v):
    if isinstance(v, BytesVal):
        return v
    if isinstance(v, (bytes, bytearray)):
        return BytesVal([Part("raw", bytes(v), len(v))] if len(v) else [])
    raise Unsupported("expected bytes, got %r" % (v,))


def make_struct(I):
    S = {}

    def reg(name, fn):
        def f(I, st, a, k):
            I.trust("struct", "A4: len(struct.pack(fmt,v)) == calcsize(fmt); unpack(fmt, pack(fmt, v)) == (v,); fixed sizes i=4 q=8 f=4 d=8 Ns=N")
            yield st, fn(I, st, *a, **k)

        S[name] = Builtin("struct." + name, f)

    def calcsize(I, st, fmt):
        c, n = parse_fmt(fmt)
        if c == "s":
            return n
        return SIZES[c]

    reg("calcsize", calcsize)

    def pack(I, st, fmt, *vals):
        c, n = parse_fmt(fmt)
        if len(vals) != 1:
            raise Unsupported("struct.pack with %d values" % len(vals))
        v = vals[0]
        if c == "s":
            if isinstance(v, (bytes, bytearray)) and isinstance(n, int):
                v = bytes(v[:n]).ljust(n, b"\x00")  # 'Ns': truncated or null-padded to exactly N bytes
            return BytesVal([Part("s", v, n)])
        return BytesVal([Part(c, v, SIZES[c])])

    reg("pack", pack)

    def unpack(I, st, fmt, data):
        c, n = parse_fmt(fmt)
        b = to_bytesval(I, st, data)
        if len(b.parts) == 1:
            p = b.parts[0]
            same_len = (p.length is n) or (not is_z3(p.length) and not is_z3(n) and p.length == (n if c == "s" else SIZES[c]))
            if p.fmt == c and (c != "s" or same_len):
                return (p.val,)
        # bytes that were not produced by the matching pack: value unknown
        if c in ("i", "q", "h", "b", "I", "Q", "l", "L", "B"):
            return (I.fresh("int", "garbage"),)
        if c in ("f", "d"):
            return (I.fresh("real", "garbage"),)
        return (Opaque("garbage bytes"),)

    reg("unpack", unpack)
    return S


def bytes_join(I, st, sep, items):
    if len(sep):
        raise Unsupported("bytes.join with a separator")
    parts = []
    for x in I.iterate(items, st):
        parts.extend(to_bytesval(I, st, x).parts)
    return BytesVal(parts)


class MemStream:
    """In-memory binary stream of parts (spec builtin memstream(); natively io.BytesIO)."""

    def __init__(self):
        self.parts = []
        self.pos = 0
        self.writes = []  # one BytesVal per write() call


def memstream_getattr(I, st, ref, name):
    e = st.get(ref)
    ms = e.attrs["__memstream__"]

    def write(I, st, a, k):
        m = st.get(ref).attrs["__memstream__"]
        b = to_bytesval(I, st, a[0])
        m2 = MemStream()
        m2.parts = m.parts + b.parts
        m2.pos = m.pos
        m2.writes = m.writes + [b]
        st.get(ref).attrs["__memstream__"] = m2
        yield st, b.length()

    def read(I, st, a, k):
        m = st.get(ref).attrs["__memstream__"]
        n = as_arith(a[0]) if a else None
        if n is None:
            out = m.parts[m.pos:]
            newpos = len(m.parts)
        else:
            out = []
            tot = 0
            newpos = m.pos
            while True:
                done = False
                if not is_z3(tot) and not is_z3(n):
                    done = tot >= n
                else:
                    eq = z3.simplify(z3val(tot) == z3val(n))
                    done = z3.is_true(eq)
                    if not done and not z3.is_false(eq) and newpos >= len(m.parts):
                        raise Unsupported("memstream.read: cannot align a symbolic length with the written parts")
                if done:
                    break
                if newpos >= len(m.parts):
                    # reading past the end returns fewer bytes (python semantics): the caller's unpack then fails
                    break
                out.append(m.parts[newpos])
                tot = _add(tot, m.parts[newpos].length)
                newpos += 1
            if not is_z3(tot) and not is_z3(n) and tot > n:
                raise Unsupported("memstream.read splits a packed field")
        m2 = MemStream()
        m2.parts, m2.pos, m2.writes = m.parts, newpos, m.writes
        st.get(ref).attrs["__memstream__"] = m2
        yield st, BytesVal(out)

    def seek(I, st, a, k):
        m = st.get(ref).attrs["__memstream__"]
        if a[0] != 0:
            raise Unsupported("memstream.seek to a non-zero offset")
        m2 = MemStream()
        m2.parts, m2.pos, m2.writes = m.parts, 0, m.writes
        st.get(ref).attrs["__memstream__"] = m2
        yield st, 0

    def getvalue(I, st, a, k):
        yield st, BytesVal(st.get(ref).attrs["__memstream__"].parts)

    def nwrites(I, st, a, k):
        yield st, len(st.get(ref).attrs["__memstream__"].writes)

    def written(I, st, a, k):
        yield st, st.get(ref).attrs["__memstream__"].writes[a[0]]

    def close(I, st, a, k):
        yield st, None

    tbl = dict(write=write, read=read, seek=seek, getvalue=getvalue, nwrites=nwrites, written=written, close=close)
    if name not in tbl:
        raise Unsupported("memstream attribute " + name)
    return Builtin("memstream." + name, tbl[name])
