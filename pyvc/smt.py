"""Solver portfolio helpers.

fast_unsat(terms): sound-for-unsat shortcut for nonlinear real arithmetic with uninterpreted functions:
  1. Ackermannize every uninterpreted function application (finite set -> equisatisfiable),
  2. relax integer constants to reals (a relaxation: unsat of the relaxation implies unsat of the original),
  3. run z3's nlsat tactic.
Only an `unsat` answer is ever used; anything else falls back to the general solver.
"""
import z3


class _Bail(Exception):
    pass


def _translate(e, cache, apps):
    """Int -> Real relaxation + collection of UF applications (replaced by fresh constants)."""
    k = e.get_id()
    if k in cache:
        return cache[k]
    if z3.is_quantifier(e) or z3.is_var(e):
        raise _Bail()
    if not z3.is_app(e):
        raise _Bail()
    d = e.decl()
    kind = d.kind()
    n = e.num_args()
    sort = e.sort()
    if n == 0:
        if z3.is_int_value(e):
            r = z3.RealVal(e.as_long())
        elif z3.is_rational_value(e) or z3.is_true(e) or z3.is_false(e):
            r = e
        elif kind == z3.Z3_OP_UNINTERPRETED:
            if sort == z3.IntSort():
                r = z3.Real("relax!" + d.name())
            elif sort == z3.RealSort() or sort == z3.BoolSort():
                r = e
            else:
                raise _Bail()
        elif z3.is_algebraic_value(e):
            r = e
        else:
            raise _Bail()
        cache[k] = r
        return r
    ch = [_translate(c, cache, apps) for c in e.children()]
    if kind == z3.Z3_OP_UNINTERPRETED:
        if sort not in (z3.RealSort(), z3.IntSort(), z3.BoolSort()):
            raise _Bail()
        key = (d.name(), tuple(c.get_id() for c in ch))
        if key not in apps:
            c = z3.Const("ack!%s!%d" % (d.name(), len(apps)), z3.RealSort() if sort != z3.BoolSort() else z3.BoolSort())
            apps[key] = (c, ch)
        r = apps[key][0]
    elif kind == z3.Z3_OP_TO_REAL:
        r = ch[0]
    elif kind in (z3.Z3_OP_TO_INT, z3.Z3_OP_IDIV, z3.Z3_OP_MOD, z3.Z3_OP_REM, z3.Z3_OP_IS_INT):
        raise _Bail()
    elif kind == z3.Z3_OP_ADD:
        r = z3.Sum(*ch) if len(ch) > 1 else ch[0]
    elif kind == z3.Z3_OP_SUB:
        r = ch[0]
        for c in ch[1:]:
            r = r - c
    elif kind == z3.Z3_OP_UMINUS:
        r = -ch[0]
    elif kind == z3.Z3_OP_MUL:
        r = z3.Product(*ch) if len(ch) > 1 else ch[0]
    elif kind == z3.Z3_OP_DIV:
        r = ch[0] / ch[1]
    elif kind == z3.Z3_OP_POWER:
        if z3.is_rational_value(ch[1]) or z3.is_int_value(ch[1]):
            r = ch[0] ** ch[1]
        else:
            raise _Bail()
    elif kind == z3.Z3_OP_LE:
        r = ch[0] <= ch[1]
    elif kind == z3.Z3_OP_LT:
        r = ch[0] < ch[1]
    elif kind == z3.Z3_OP_GE:
        r = ch[0] >= ch[1]
    elif kind == z3.Z3_OP_GT:
        r = ch[0] > ch[1]
    elif kind == z3.Z3_OP_EQ:
        if ch[0].sort() != ch[1].sort():
            raise _Bail()
        r = ch[0] == ch[1]
    elif kind == z3.Z3_OP_DISTINCT:
        r = z3.Distinct(*ch)
    elif kind == z3.Z3_OP_ITE:
        if ch[1].sort() != ch[2].sort():
            raise _Bail()
        r = z3.If(ch[0], ch[1], ch[2])
    elif kind == z3.Z3_OP_AND:
        r = z3.And(*ch)
    elif kind == z3.Z3_OP_OR:
        r = z3.Or(*ch)
    elif kind == z3.Z3_OP_NOT:
        r = z3.Not(ch[0])
    elif kind == z3.Z3_OP_IMPLIES:
        r = z3.Implies(ch[0], ch[1])
    elif kind == z3.Z3_OP_XOR:
        r = z3.Xor(ch[0], ch[1])
    else:
        raise _Bail()
    cache[k] = r
    return r


_NL_CACHE = {}  # term id -> (term kept alive, bool): per-term memo of the scan below (pure speed-up)


def has_nonlinear(terms):
    out = False
    for t in terms:
        k = t.get_id()
        c = _NL_CACHE.get(k)
        if c is None:
            c = (t, _has_nonlinear([t]))
            _NL_CACHE[k] = c
        if c[1]:
            out = True
            break
    return out


def _has_nonlinear(terms):
    seen = set()
    todo = list(terms)
    while todo:
        e = todo.pop()
        k = e.get_id()
        if k in seen:
            continue
        seen.add(k)
        if z3.is_quantifier(e):
            return False
        if z3.is_app(e):
            kind = e.decl().kind()
            if kind == z3.Z3_OP_MUL:
                nonconst = [c for c in e.children() if not (z3.is_int_value(c) or z3.is_rational_value(c))]
                if len(nonconst) >= 2:
                    return True
            if kind in (z3.Z3_OP_DIV, z3.Z3_OP_POWER):
                return True
            todo.extend(e.children())
    return False


_TOP_CACHE = {}


def _mentions_app(t, cache, apps):
    """does t contain an uninterpreted application (possibly one already collected from an earlier conjunct)?"""
    if not apps:
        return False
    consts = {c.get_id() for c, _args in apps.values()}
    todo, seen = [cache[t.get_id()]], set()
    while todo:
        e = todo.pop()
        i = e.get_id()
        if i in seen:
            continue
        seen.add(i)
        if i in consts:
            return True
        todo.extend(e.children())
    return False


def fast_unsat(terms, timeout_ms):
    """True iff the conjunction is proved unsat by the relaxed nlsat route; False = don't know."""
    try:
        if not has_nonlinear(terms):
            return False
        cache, apps = {}, {}
        fm = []
        for t in terms:
            # top-level conjuncts recur from one feasibility query to the next (the path condition only grows):
            # keep the translation of those that contain no uninterpreted application (for which `apps` must be
            # rebuilt per query).  The stored reference keeps the term alive, so its id cannot be reused.
            k = t.get_id()
            hit = _TOP_CACHE.get(k)
            if hit is not None and hit[0].eq(t):
                fm.append(hit[1])
                continue
            before = len(apps)
            r = _translate(t, cache, apps)
            if len(apps) == before and not _mentions_app(t, cache, apps):
                if len(_TOP_CACHE) > 20000:
                    _TOP_CACHE.clear()
                _TOP_CACHE[k] = (t, r)
            fm.append(r)
    except _Bail:
        return False
    except z3.Z3Exception:
        return False
    items = list(apps.items())
    by_name = {}
    for (name, _), (c, args) in items:
        by_name.setdefault(name, []).append((c, args))
    for name, lst in by_name.items():
        for a in range(len(lst)):
            for b in range(a + 1, len(lst)):
                ca, aa = lst[a]
                cb, ab = lst[b]
                if len(aa) != len(ab):
                    continue
                try:
                    fm.append(z3.Implies(z3.And(*[x == y for x, y in zip(aa, ab)]), ca == cb))
                except z3.Z3Exception:
                    return False
    try:
        s = z3.Tactic("qfnra-nlsat").solver()
        s.set("timeout", int(timeout_ms))
        s.add(*fm)
        return s.check() == z3.unsat
    except z3.Z3Exception:
        return False
