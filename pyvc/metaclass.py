"""Metaclasses whose `__new__` the engine EXECUTES (class creation as Python does it).

By default a `metaclass=` keyword of a class statement is not interpreted (the lemmas on such classes build their
objects with new() and state the class invariant as a hypothesis).  For the metaclasses listed in EXECUTED the engine
runs the real `Meta.__new__(Meta, name, bases, attrs)`:

* a class STATEMENT `class C(Base): ...` whose (inherited) metaclass is listed: at the first use of C in a path
  (attribute access on C or on an instance, instantiation, assignment to a class attribute) the metaclass `__new__` is
  run once in a fresh state on the class body's namespace (as at import time: base classes first), the class attributes
  it assigns (`cls.x = v`, `setattr(cls, n, v)`) are frozen and from then on are the initial per-path class attributes
  (`("classattr", id(node), name)` entries of St.ghost - the mechanism for class attributes rebound at run time);
* a CALL `Meta(name, bases, attrs)` creates a new class in the current path (a synthesized, empty class statement whose
  class dictionary is a copy of `attrs`).

`type.__new__(mcls, name, bases, attrs)` is the modelled primitive: it returns the class object.  Everything that is
not exactly modelled raises Unsupported: a metaclass `__init__`/`__call__`/`__prepare__`, a namespace changed before
`type.__new__`, forking or raising creation code, class attributes that share mutable objects with each other or with
a base class (freezing would lose the aliasing), class-body statements other than def / simple assignments / docstring.
"""
import ast

from .values import Ref, ClassVal, BuiltinClass, FuncVal, DictE, Exc, Unsupported, Builtin

EXECUTED = {"armi.utils.flags:_FlagMeta"}

_NO = object()


def _key(mcls):
    return "%s:%s" % (mcls.module.name if mcls.module is not None else "?", mcls.name)


def _tables(I):
    if not hasattr(I, "_meta_tables"):
        I._meta_tables = {}  # id(class node) -> {attr: frozen value}
        I._meta_running = set()
        I._meta_pending = []  # stack of (class, attrs Ref, snapshot of the namespace) for class statements being created
        I._meta_keep = []
    return I._meta_tables


def declared(I, cls):
    """the metaclass named by the class statement of cls or of its nearest base that names one (ClassVal), else None"""
    if "_xmeta_decl" in cls.__dict__:
        return cls._xmeta_decl
    out = None
    for c in I.mro(cls):
        if not isinstance(c, ClassVal):
            continue
        if c.__dict__.get("_dyn_meta") is not None:
            out = c._dyn_meta
            break
        kws = [kw for kw in c.node.keywords if kw.arg == "metaclass"]
        if kws:
            from .symex import St, Frame

            st = St()
            st.frames.append(Frame({}, None, c.module))
            try:
                outs = list(I.ev(kws[0].value, st))
            except (Unsupported, KeyError):
                outs = []
            if len(outs) == 1 and isinstance(outs[0][1], ClassVal):
                out = outs[0][1]
            break
    cls._xmeta_decl = out
    return out


def executed(I, cls):
    """the metaclass of cls if the engine executes it, else None"""
    if not isinstance(cls, ClassVal):
        return None
    if "_xmeta" in cls.__dict__:
        return cls._xmeta
    m = declared(I, cls)
    if m is not None and _key(m) not in EXECUTED:
        m = None
    cls._xmeta = m
    return m


def is_executed_meta(I, cls):
    if not isinstance(cls, ClassVal):
        return False
    if "_is_xmeta" not in cls.__dict__:
        cls._is_xmeta = _key(cls) in EXECUTED and I.is_subclass(cls, BuiltinClass("type", type))
    return cls._is_xmeta


# ------------------------------------------------------------------------------------------------ class statements
def ensure(I, st, cls):
    """make sure the metaclass-made class attributes of cls and of its bases are present in this path"""
    if not isinstance(cls, ClassVal) or cls.__dict__.get("_xmeta", _NO) is None:
        return
    if executed(I, cls) is None:
        return
    T = _tables(I)
    for c in reversed(I.mro(cls)):
        if not isinstance(c, ClassVal) or c.__dict__.get("_dyn_meta") is not None or executed(I, c) is None:
            continue
        k = ("metainit", id(c.node))
        if k in st.ghost or id(c.node) in I._meta_running:
            continue
        table = T.get(id(c.node))
        if table is None:
            table = _create_static(I, c)
            T[id(c.node)] = table
        st.ghost[k] = True
        for name, fv in table.items():
            st.ghost[("classattr", id(c.node), name)] = I.thaw(fv, st)


def _namespace(I, st, c):
    """the namespace a class body produces, in order (exact for def / Name = expr / docstring / pass)"""
    from .symex import Frame

    ns = {"__module__": c.module.name if c.module is not None else "?", "__qualname__": c.name}
    st.frames.append(Frame(ns, None, c.module))
    try:
        for k, n in enumerate(c.node.body):
            if isinstance(n, ast.FunctionDef):
                if n.name in ns:
                    raise Unsupported("metaclass: name %s defined twice in the body of %s" % (n.name, c.name))
                ns[n.name] = FuncVal(n, c.module, c)
            elif isinstance(n, ast.Pass):
                continue
            elif isinstance(n, ast.Expr) and isinstance(n.value, ast.Constant) and isinstance(n.value.value, str):
                if k == 0:
                    ns["__doc__"] = n.value.value
            elif (isinstance(n, ast.Assign) and all(isinstance(t, ast.Name) for t in n.targets)) or (
                    isinstance(n, ast.AnnAssign) and isinstance(n.target, ast.Name)):
                if isinstance(n, ast.AnnAssign):
                    ns.setdefault("__annotations__", None)
                    if n.value is None:
                        continue
                outs = list(I.ev(n.value, st))
                if len(outs) != 1 or isinstance(outs[0][1], Exc) or outs[0][0] is not st:
                    raise Unsupported("metaclass: class-body expression of %s forks or raises (line %d)" % (c.name, n.lineno))
                for t in (n.targets if isinstance(n, ast.Assign) else [n.target]):
                    ns[t.id] = outs[0][1]
            else:
                raise Unsupported("metaclass: class-body statement %s in %s (line %d)" % (type(n).__name__, c.name, n.lineno))
    finally:
        st.frames.pop()
    if "__annotations__" in ns:
        raise Unsupported("metaclass: annotated class body of %s" % c.name)
    return ns


def _shared_refs(st, vals, nid0):
    """Refs reachable from the values: any object older than nid0 or reached twice -> aliasing that freezing would lose"""
    seen = set()

    def walk(v):
        if isinstance(v, Ref):
            if v.id <= nid0:
                raise Unsupported("metaclass: a class attribute refers to an object that existed before the class was created")
            if v.id in seen:
                raise Unsupported("metaclass: class attributes share a mutable object")
            seen.add(v.id)
            e = st.get(v)
            if e.kind in ("list", "deque", "set"):
                for x in e.items:
                    walk(x)
            elif e.kind == "dict":
                for x in e.items.values():
                    walk(x)
            elif e.kind == "obj":
                for x in e.attrs.values():
                    walk(x)
            elif e.kind == "nd":
                for x in e.data:
                    walk(x)
            else:
                raise Unsupported("metaclass: class attribute of kind " + e.kind)
        elif isinstance(v, tuple):
            for x in v:
                walk(x)

    for v in vals:
        walk(v)


def _create_static(I, c):
    from .symex import St, Frame
    from .values import Unknown

    m = executed(I, c)
    new, _ = I.class_lookup(m, "__new__")
    if not isinstance(new, FuncVal):
        raise Unsupported("metaclass %s without __new__" % m.name)
    for special in ("__init__", "__call__", "__prepare__", "__setattr__", "__getattribute__", "__getattr__"):
        if I.class_lookup(m, special)[0] is not None:
            raise Unsupported("metaclass %s defines %s" % (m.name, special))
    if c.node.decorator_list:
        raise Unsupported("metaclass: decorated class " + c.name)
    if [kw for kw in c.node.keywords if kw.arg != "metaclass"]:
        raise Unsupported("metaclass: class keywords of " + c.name)
    st = St()
    st.frames.append(Frame({}, None, c.module))
    I._meta_running.add(id(c.node))
    try:
        bases = I.bases(c)
        for b in bases:
            if isinstance(b, BuiltinClass) and b.name == "<unresolved-base>":
                raise Unsupported("metaclass: unresolved base class of " + c.name)
            ensure(I, st, b)
        nid0 = st.nid[0]
        ns = _namespace(I, st, c)
        attrs = st.alloc(DictE(ns))
        I._meta_pending.append((c, attrs, dict(ns)))
        try:
            outs = list(I.call(new, [m, c.name, tuple(bases), attrs], {}, st))
        finally:
            I._meta_pending.pop()
        if len(outs) != 1 or isinstance(outs[0][1], Exc) or outs[0][0].pc:
            raise Unsupported("metaclass: creation of class %s forks or raises" % c.name)
        st1, made = outs[0]
        if made != c:
            raise Unsupported("metaclass: %s.__new__ did not return the class made by type.__new__" % m.name)
        own = {k[2]: v for k, v in st1.ghost.items() if isinstance(k, tuple) and len(k) == 3 and k[0] == "classattr" and k[1] == id(c.node)}
        _shared_refs(st1, list(own.values()), nid0)
        table = {}
        for name, v in own.items():
            fv = I.freeze(v, st1)
            if isinstance(fv, Unknown):
                raise Unsupported("metaclass: class attribute %s.%s cannot be frozen" % (c.name, name))
            table[name] = fv
        I._meta_keep.append(table)
        I.trust("metaclass:" + _key(m), "class %s is created by executing the real %s.__new__ on its class body (type.__new__ modelled: returns the class)" % (c.name, _key(m)))
        return table
    finally:
        I._meta_running.discard(id(c.node))


# ------------------------------------------------------------------------------------------------ type.__new__ / Meta(...)
def type_new(I, st, a, k):
    """type.__new__(mcls, name, bases, namespace)"""
    _tables(I)
    if k or len(a) != 4:
        raise Unsupported("type.__new__ with these arguments")
    mcls, name, bases, attrs = a
    if not (isinstance(attrs, Ref) and st.get(attrs).kind == "dict" and isinstance(name, str) and isinstance(bases, tuple)):
        raise Unsupported("type.__new__ with these arguments")
    if I._meta_pending and I._meta_pending[-1][1] == attrs:
        c, _, snap = I._meta_pending[-1]
        items = st.get(attrs).items
        if list(items) != list(snap) or any(items[x] is not snap[x] and items[x] != snap[x] for x in snap) or name != c.name:
            raise Unsupported("metaclass: the namespace was changed before type.__new__")
        yield st, c
        return
    if not is_executed_meta(I, mcls):
        raise Unsupported("type.__new__ for a metaclass the engine does not execute")
    items = dict(st.get(attrs).items)
    if not all(isinstance(x, str) for x in items):
        raise Unsupported("type.__new__: namespace with non-string keys")
    if not bases or not all(isinstance(b, ClassVal) for b in bases):
        raise Unsupported("type.__new__: bases must be classes of the repository / harness")
    for b in bases:
        bm = declared(I, b)
        if bm is not None and not I.is_subclass(mcls, bm):
            yield st, Exc(_exc("TypeError", "metaclass conflict"))
            return
        ensure(I, st, b)
    node = ast.ClassDef(name=name, bases=[], keywords=[], body=[ast.Pass()], decorator_list=[])
    cv = ClassVal(node, None)
    cv._members = {}
    cv._dyn_meta = mcls
    cv._xmeta = mcls if _key(mcls) in EXECUTED else None
    mro = [cv]
    for b in bases:  # same linearisation as Interp.mro
        for c in I.mro(b):
            if c in mro:
                mro.remove(c)
            mro.append(c)
    I._class_cache[("mro", id(node))] = mro
    I._class_cache[id(node)] = cv
    I._meta_keep.append(cv)
    st.ghost[("metainit", id(node))] = True
    for n, v in items.items():
        st.ghost[("classattr", id(node), n)] = v
    st.ghost.setdefault(("classattr", id(node), "__module__"), "?")
    yield st, cv


def _exc(name, msg):
    import builtins as _b
    from .values import ExcVal

    return ExcVal(BuiltinClass(name, getattr(_b, name)), (msg,))


def call_meta(I, st, mcls, args, kwargs):
    """Meta(name, bases, attrs): type.__call__ = Meta.__new__(Meta, name, bases, attrs) then Meta.__init__ (type's: no-op)"""
    _tables(I)
    if kwargs or len(args) != 3:
        raise Unsupported("call of metaclass %s with these arguments" % mcls.name)
    new, _ = I.class_lookup(mcls, "__new__")
    if not isinstance(new, FuncVal):
        raise Unsupported("metaclass %s without __new__" % mcls.name)
    for special in ("__init__", "__call__", "__prepare__", "__setattr__", "__getattribute__", "__getattr__"):
        if I.class_lookup(mcls, special)[0] is not None:
            raise Unsupported("metaclass %s defines %s" % (mcls.name, special))
    I.trust("metaclass:" + _key(mcls), "classes are created by executing the real %s.__new__ (type.__new__ modelled: returns the class)" % _key(mcls))
    yield from I.call(new, [mcls] + list(args), {}, st)


# ------------------------------------------------------------------------------------------------ attribute look-up on the class
def class_getattr(I, st, cls, name):
    """cls.name for a class made by an executed metaclass: nearest class of the MRO first, a class attribute assigned at
    creation / run time (ghost) or the static definition.  -> (True, value) | (False, None): not a ghost attribute, the
    caller continues with the static look-up (which finds the same nearest definition)"""
    if executed(I, cls) is None:
        return False, None
    ensure(I, st, cls)
    for c in I.mro(cls):
        if not isinstance(c, ClassVal):
            continue
        k = ("classattr", id(c.node), name)
        if k in st.ghost:
            return True, st.ghost[k]
        if name in I.class_members(c):
            break
    return False, None


def class_getitem(I, st, cls, idx):
    """cls[idx] -> type(cls).__getitem__(cls, idx) for an executed metaclass, else None"""
    m = executed(I, cls)
    if m is None:
        return None
    gi, _ = I.class_lookup(m, "__getitem__")
    if not isinstance(gi, FuncVal):
        return None
    ensure(I, st, cls)
    return I.call(gi, [cls, idx], {}, st)
