"""C10 bounded tier: XS libraries merge losslessly; macroscopic data are density-weighted sums.

Executable contracts around the real armi code (IsotxsLibrary.merge, XSNuclide.merge, XSCollection.merge,
_Metadata.merge, createImmutableProperty, mergeXSLibrariesInWorkingDirectory, MacroscopicCrossSectionCreator,
computeMacroscopicGroupConstants, compute*Energy*Constants, XSCollection.getTotalScatterMatrix/getAbsorptionXS).

Clauses (violation id prefixes)
  immutable.*   write-once properties behave as documented (exhaustive over a small value domain)
  merge.*       generated libraries (fixtures ISOAA/ISOAB/AA.gamiso/AB.gamiso/AA.pmatrx/AB.pmatrx relabelled to suffixes
                AA..AD, nuclides dropped, optional reactions dropped, scatter matrices sparsified, group structure
                fixture(33/21) | small(4/3) | tiny(2/2), optional file-wide chi, optional dose factors) merged in ALL orders:
                union of nuclides, data/metadata identical to the source, order independence, conflicts rejected with
                the target unchanged
  workdir.*     mergeXSLibrariesInWorkingDirectory on copies of the fixtures in a temp dir
  macro.* totalScatter.* absorption.*   macroscopic constants = sum_n N_n * micro_n (1e-10), linear, additive, zero for
                the empty composition, derived quantities equal their defining sums

Replay: --replay '{"clause":"merge","libs":[spec,...]}' | '{"clause":"conflict","cls":..,"target":spec,"other":spec}'
        | '{"clause":"macro","lib":"fixture"|"derived","suffix":"AA","libType":"micros","composition":{..},"minDens":0.0}'
"""
import hashlib
import itertools
import json
import os
import pickle
import shutil
import sys
import tempfile
import time
import traceback

sys.path.insert(0, os.path.dirname(os.path.abspath(__file__)))
from common import Bounded, armi_ready

armi_ready()
import numpy as np
from scipy import sparse

import armi
from armi import runLog
from armi.nucDirectory import nuclideBases
from armi.nuclearDataIO import xsCollections as xc
from armi.nuclearDataIO import xsLibraries
from armi.nuclearDataIO.cccc import gamiso, isotxs, pmatrx
from armi.nuclearDataIO.nuclearFileMetadata import _Metadata
from armi.utils import properties, units

runLog.setVerbosity(100)

B = Bounded(
    "seeded generated library sets (parts = (kind iso|gam|pmx, suffix AA..AD, nuclide subset, group family, dropped reactions, "
    "sparsified scatter, file-wide chi, dose factors), some pre-merged) merged in every order with an empty or first-library "
    "target; conflict pairs per conflict class; write-once property value pairs; seeded compositions (1..25 nuclides, zero "
    "densities, nuclides missing from the library, empty) on the merged fixture library and a derived one; "
    "distinct = distinct (set, order, target mode) / (conflict class, pair) / (library, suffix, composition)",
    "quick: <= 3 libraries per set (all <= 6 orders x 2 target modes), 132 sets, 132 conflict pairs, ~220 compositions; "
    "thorough: <= 4 libraries (all <= 24 orders x 2), 553 sets, 396 conflict pairs, ~1200 compositions; groups 33/21, 4/3, 2/2; nuclides <= 25 per library",
)
THOROUGH = B.thorough()
rng = B.rng

FOUND = {}  # violation id -> [size, what, input]   (smallest input per id)
COUNTS = {}


def report(vid, what, inp, size=0):
    COUNTS[vid] = COUNTS.get(vid, 0) + 1
    if vid not in FOUND or size < FOUND[vid][0]:
        FOUND[vid] = [size, what, inp]


def check(cond, vid, what, inp, size=0):
    if not cond:
        report(vid, what, inp, size)
    return bool(cond)


# ------------------------------------------------------------------------------------------------ canonical content
def cv(x):
    """Canonical JSON-able value; arrays and sparse matrices by value (digest of the float64 content)."""
    if x is None or isinstance(x, bool):
        return x
    if isinstance(x, str):
        return str(x)
    if isinstance(x, (int, np.integer)):
        return int(x)
    if isinstance(x, (float, np.floating)):
        return float(x) + 0.0
    if sparse.issparse(x):
        x = x.toarray()
    if isinstance(x, np.ndarray):
        if x.dtype.kind in "iufb":
            a = np.ascontiguousarray(x, dtype=float) + 0.0
            return "arr%s:%s" % (list(a.shape), hashlib.sha1(a.tobytes()).hexdigest()[:16])
        return ["arr-obj"] + [cv(v) for v in x.tolist()]
    if isinstance(x, _Metadata):  # a missing key reads as None: an entry holding None is no content
        return cv({k: v for k, v in x._data.items() if v is not None})
    if isinstance(x, dict):
        d = {str(k): cv(v) for k, v in x.items()}
        if len(d) > 40:
            return "dict%d:%s" % (len(d), hashlib.sha1(json.dumps(d, sort_keys=True).encode()).hexdigest()[:16])
        return d
    if isinstance(x, (list, tuple)):
        return [cv(v) for v in x]
    return repr(x)


def _empty(v):
    return v is None or v == {} or v == []


def snapColl(c):
    d = {k: cv(v) for k, v in c.__dict__.items() if k != "source"}
    return None if all(_empty(v) for v in d.values()) else d


PMX_ATTRS = ["neutronHeating", "neutronDamage", "gammaHeating", "isotropicProduction", "linearAnisotropicProduction", "nOrderProductionMatrix"]


def snapNuc(n):
    out = {}
    iso = snapColl(n.micros)
    if iso is not None or len(n.isotxsMetadata):
        out["neutron"] = {"xs": iso, "meta": cv(n.isotxsMetadata)}
    gam = snapColl(n.gammaXS)
    if gam is not None or len(n.gamisoMetadata):
        out["gamma"] = {"xs": gam, "meta": cv(n.gamisoMetadata)}
    pm = {a: cv(getattr(n, a)) for a in PMX_ATTRS}
    if any(not _empty(v) for v in pm.values()) or len(n.pmatrxMetadata):
        out["production"] = {"data": pm, "meta": cv(n.pmatrxMetadata)}
    return out


PROPS = ["neutronEnergyUpperBounds", "neutronVelocity", "gammaEnergyUpperBounds", "neutronDoseConversionFactors", "gammaDoseConversionFactors"]
META = {"iso": "isotxsMetadata", "gam": "gamisoMetadata", "pmx": "pmatrxMetadata"}


def snapLib(lib, ordered):
    """Full content of a library.  An unset property and a property holding None are the same content."""
    props = {p: cv(lib.__dict__.get("_" + p)) for p in PROPS}
    meta = {}
    for kind, attr in META.items():
        m = getattr(lib, attr)
        meta[kind] = {"data": cv(m), "fileNames": [str(f) for f in (m.fileNames if ordered else sorted(m.fileNames))]}
    labels = [str(l) for l in lib.nuclideLabels]
    ok = sorted(labels) == sorted(str(k) for k in lib._nuclides) and len(set(labels)) == len(labels)
    nucs = {}
    for l in lib.nuclideLabels:
        n = lib[l]
        nucs[str(l)] = snapNuc(n)
        ok = ok and n.container is lib
        if ordered:
            nucs[str(l)]["id"] = [str(n.containerKey), str(n.xsId), str(n.nucLabel)]
    return {"props": props, "meta": meta, "labels": labels if ordered else sorted(labels), "nuclides": nucs, "consistent": ok}


def diff(a, b, path="", out=None, limit=12):
    """Paths at which two canonical contents differ."""
    if out is None:
        out = []
    if len(out) >= limit:
        return out
    if isinstance(a, dict) and isinstance(b, dict):
        for k in sorted(set(a) | set(b)):
            if k not in a or k not in b:
                out.append(path + "." + k + ("(added)" if k not in a else "(removed)"))
            else:
                diff(a[k], b[k], path + "." + k, out, limit)
    elif a != b:
        out.append(path)
    return out


# ------------------------------------------------------------------------------------------------ library generator
FIX = os.path.join(os.path.dirname(armi.__file__), "nuclearDataIO", "tests", "fixtures")
READERS = {"iso": (isotxs, "ISO%s"), "gam": (gamiso, "%s.gamiso"), "pmx": (pmatrx, "%s.pmatrx")}
KINDS = ["iso", "gam", "pmx"]
SFX = ["AA", "AB", "AC", "AD"]
GROUPS = {"fixture": (33, 21), "small": (4, 3), "tiny": (2, 2)}
MASTER = {}
for _k, (_mod, _pat) in READERS.items():
    for _s in ("AA", "AB"):
        MASTER[_k, _s] = pickle.dumps(_mod.readBinary(os.path.join(FIX, _pat % _s)))
NNUC = len(pickle.loads(MASTER["iso", "AA"]))
SCAT_BLOCK = {"inelasticScatter": 200, "n2nScatter": 300}


def _setprop(lib, name, value):
    lib.__dict__["_" + name] = value


def build(spec):
    """Build a library from a JSON-able spec (see module docstring); {'parts': [...]} = pre-merged with armi's merge."""
    if "parts" in spec:
        lib = xsLibraries.IsotxsLibrary()
        for p in spec["parts"]:
            lib.merge(build(p))
        return lib
    kind, base, sfx = spec["kind"], spec["base"], spec["sfx"]
    lib = pickle.loads(MASTER[kind, base])
    rs = np.random.default_rng(spec.get("seed", 0))
    labels0 = [l for l in lib.nuclideLabels]
    keep = spec.get("keep")
    keep = list(range(len(labels0))) if keep is None else list(keep)
    nucs = [lib[labels0[i]] for i in keep]
    Gn, Gg = GROUPS[spec.get("groups", "fixture")]
    s = float(spec.get("scale", 1.0))
    p = spec.get("sparse")
    drop = spec.get("drop", [])

    def arr(v, n0, n1=None):
        if sparse.issparse(v):
            m = sparse.csr_matrix(v[:n0, : (n1 or n0)]) * s
            if p is not None:
                m = sparse.csr_matrix(m.multiply(rs.random(m.shape) < p))
            m.eliminate_zeros()
            return m
        v = np.asarray(v)
        if v.ndim == 2 and n1 is not None:
            return v[:n0, :n1] * s
        return v[:n0] * s

    for idx, n in enumerate(nucs):
        if kind in ("iso", "gam"):
            c, G, nm = (n.micros, Gn, n.isotxsMetadata) if kind == "iso" else (n.gammaXS, Gg, n.gamisoMetadata)
            for a, v in list(c.__dict__.items()):
                if a == "higherOrderScatter":
                    c.higherOrderScatter = {k: arr(m, G) for k, m in v.items()}
                elif isinstance(v, np.ndarray) or sparse.issparse(v):
                    c.__dict__[a] = arr(v, G)
            for key in ("jband", "jj"):
                if nm[key] is not None and G < GROUPS["fixture"][0 if kind == "iso" else 1]:
                    nm[key] = {k: v for k, v in nm[key].items() if k[0] < G}
            if "temp" in spec:
                nm["temp"] = float(spec["temp"]) + idx
            if kind == "iso" and drop and (idx + spec.get("seed", 0)) % 2 == 0:
                for r in drop:
                    if r in SCAT_BLOCK:
                        c.__dict__[r] = None
                        ords = np.array(nm["ords"])
                        ords[np.array(nm["scatFlag"]) == SCAT_BLOCK[r]] = 0
                        nm["ords"] = ords
                    else:
                        c.__dict__[r] = np.zeros(G)
                        nm[r] = 0
        else:
            n.neutronHeating = arr(n.neutronHeating, Gn)
            n.neutronDamage = arr(n.neutronDamage, Gn)
            n.gammaHeating = arr(n.gammaHeating, Gg)
            n.isotropicProduction = arr(n.isotropicProduction, Gg, Gn)
            if n.linearAnisotropicProduction is not None:
                n.linearAnisotropicProduction = arr(n.linearAnisotropicProduction, Gg, Gn)
    meta = getattr(lib, META[kind])
    if kind in ("iso", "pmx"):
        _setprop(lib, "neutronEnergyUpperBounds", np.asarray(lib._neutronEnergyUpperBounds)[:Gn] * float(spec.get("nebScale", 1.0)))
    if kind == "iso":
        _setprop(lib, "neutronVelocity", np.asarray(lib._neutronVelocity)[:Gn].copy())
        meta["numGroups"] = Gn
        if "minE" in spec:
            meta["minimumNeutronEnergy"] = float(spec["minE"])
        if spec.get("chi"):
            chi = np.linspace(1.0, 2.0, Gn)
            chi = chi / chi.sum()
            meta["fileWideChiFlag"] = 1
            meta["chi"] = chi
            for n in nucs:
                if n.isotxsMetadata["fisFlag"] > 0:
                    n.isotxsMetadata["chiFlag"] = 0
                    n.micros.chi = chi
    if kind in ("gam", "pmx"):
        _setprop(lib, "gammaEnergyUpperBounds", np.asarray(lib._gammaEnergyUpperBounds)[:Gg] * float(spec.get("gebScale", 1.0)))
    if kind == "gam":
        meta["numGroups"] = Gg
        meta["gammaVelocity..NOT"] = np.asarray(meta["gammaVelocity..NOT"])[:Gg].copy()
    if kind == "pmx":
        meta["numNeutronGroups"] = Gn
        meta["numGammaGroups"] = Gg
        if spec.get("dose"):
            meta["hasDoseConversionFactor"] = True
            _setprop(lib, "neutronDoseConversionFactors", np.linspace(1.0, 2.0, Gn))
            _setprop(lib, "gammaDoseConversionFactors", np.linspace(3.0, 4.0, Gg))
    meta.fileNames = [spec.get("tag", "%s-%s-%s" % (kind, sfx, spec.get("seed", 0)))]
    # keep / reorder / relabel
    relabel = sfx != base or spec.get("keep") is not None
    if relabel:
        lib._orderedNuclideLabels = []
        lib._nuclides = {}
        for n in nucs:
            key = str(n.containerKey)[:-2] + sfx
            n.containerKey = key
            n.xsId = sfx
            lib[key] = n
    return lib


# ------------------------------------------------------------------------------------------------ write-once properties
def immutableClause():
    IPE = properties.ImmutablePropertyError

    class Holder:
        p = properties.createImmutableProperty("p", "a FILE", "doc of p")

    def vals():
        return [
            ("None", None), ("0", 0), ("1", 1), ("2.5", 2.5), ("'a'", "a"), ("'b'", "b"), ("[1,2]", [1, 2]), ("[1,3]", [1, 3]),
            ("arr[1,2]", np.array([1.0, 2.0])), ("arr[1,2]copy", np.array([1.0, 2.0])), ("arr[1,3]", np.array([1.0, 3.0])),
            ("arr[1,2,3]", np.array([1.0, 2.0, 3.0])), ("arr[]", np.array([])), ("arr[0,0]", np.zeros(2)),
        ]

    def klass(v):
        return "arr" if isinstance(v, np.ndarray) else "list" if isinstance(v, list) else "str" if isinstance(v, str) else "num"

    def equal(a, b):  # independent: same kind of value and the same content
        if isinstance(a, np.ndarray):
            return a.shape == b.shape and bool(np.all(a == b))
        return a == b

    def same(a, b):
        return (a is None and b is None) or (a is not None and b is not None and klass(a) == klass(b) and equal(a, b))

    B.check(Holder.p.__doc__ == "doc of p", "immutable.doc", "the property carries its docstring", None)
    for (na, a), (nb, b) in itertools.product(vals(), vals()):
        if a is not None and b is not None and klass(a) != klass(b):
            continue  # comparing values of different kinds is outside the documented use
        B.case(("immutable", na, nb), {"clause": "immutable", "first": na, "second": nb} if (na, nb) == ("1", "2.5") else None)
        h = Holder()
        inp = {"first": na, "second": nb}
        try:
            h.p
            check(False, "immutable.unset-readable", "reading an unassigned property must raise ImmutablePropertyError", inp)
        except IPE:
            pass
        properties.unlockImmutableProperties(h)
        check(h.p is None, "immutable.unlocked-unset-not-none", "unlocked read of an unassigned property gives None", inp)
        properties.lockImmutableProperties(h)
        h.p = a
        check(same(h.p, a), "immutable.first-assignment-lost", "first assignment sets the value", inp)
        raised = None
        try:
            h.p = b
        except IPE as e:
            raised = e
        except Exception as e:  # noqa: BLE001
            check(False, "immutable.wrong-exception", "re-assignment may only raise ImmutablePropertyError: %r" % e, inp)
            continue
        if a is None:
            check(raised is None and same(h.p, b), "immutable.none-then-value", "a value may replace None", inp)
        elif b is None:
            check(raised is None and same(h.p, a), "immutable.value-then-none", "assigning None keeps the value", inp)
        elif equal(a, b):
            check(raised is None and same(h.p, a), "immutable.equal-reassignment", "assigning an equal value is accepted and keeps the value", inp)
        else:
            check(raised is not None, "immutable.overwritten", "assigning a different value must raise ImmutablePropertyError", inp)
            check(same(h.p, a), "immutable.changed-after-refusal", "a refused assignment leaves the value unchanged", inp)
    # the real library properties
    for prop in PROPS:
        B.case(("immutable-lib", prop))
        lib = xsLibraries.IsotxsLibrary()
        try:
            getattr(lib, prop)
            check(False, "immutable.unset-readable", "reading an unassigned library property must raise", prop)
        except IPE:
            pass
        setattr(lib, prop, np.array([3.0, 2.0, 1.0]))
        setattr(lib, prop, np.array([3.0, 2.0, 1.0]))
        for bad in (np.array([3.0, 2.0, 1.5]), np.array([3.0, 2.0]), np.array([3.0, 2.0, 1.0, 0.5])):
            try:
                setattr(lib, prop, bad)
                check(False, "immutable.overwritten", "library property accepted a different value", [prop, bad.tolist()])
            except IPE:
                pass
            check(np.array_equal(getattr(lib, prop), [3.0, 2.0, 1.0]), "immutable.changed-after-refusal", "library property changed by a refused assignment", [prop, bad.tolist()])


# ------------------------------------------------------------------------------------------------ merging generated sets
def partSpec(kind, sfx, keep, fam, seed, dose, scale):
    spec = {"kind": kind, "base": rng.choice(["AA", "AB"]), "sfx": sfx, "keep": keep, "groups": fam, "seed": seed, "scale": scale, "temp": 300.0 + 50 * seed}
    if kind == "iso":
        if rng.random() < 0.5:
            spec["drop"] = rng.sample(["n2n", "nalph", "np", "inelasticScatter", "n2nScatter"], rng.randint(1, 3))
        if rng.random() < 0.2:
            spec["chi"] = True
    if kind in ("iso", "gam") and rng.random() < 0.5:
        spec["sparse"] = rng.choice([0.2, 0.5, 0.8])
    if kind == "pmx" and dose:
        spec["dose"] = True
    return spec


def genSet(k):
    """k mutually compatible libraries: disjoint (kind, suffix, nuclide) cells, one group family, some libraries pre-merged."""
    fam = rng.choice(["tiny", "small", "small", "small", "fixture"])
    dose = rng.random() < 0.3
    sfxs = rng.sample(SFX, rng.choice([1, 1, 2, 2, 3]))
    cells = [(kind, s) for s in sfxs for kind in KINDS]
    rng.shuffle(cells)
    m = k + rng.choice([0, 0, 1, 2])
    parts = []
    seed = 0
    pools = {}
    for s in sfxs:  # a common pool of nuclides per suffix so that the kinds overlap in labels (nuclide-level merge)
        size = NNUC if (fam != "fixture" and rng.random() < 0.1) else rng.randint(2, 7)
        pools[s] = sorted(rng.sample(range(NNUC), size))
        if 0 not in pools[s] and rng.random() < 0.6:
            pools[s][0] = 0  # U235: fissile, exercises chi handling
    for kind, s in cells:
        if len(parts) >= m:
            break
        pool = pools[s] if rng.random() < 0.5 else sorted(rng.sample(pools[s], rng.randint(1, len(pools[s]))))
        if len(pool) >= 2 and len(parts) + 2 <= m and rng.random() < 0.4:
            cut = rng.randint(1, len(pool) - 1)
            subsets = [pool[:cut], pool[cut:]]
        else:
            subsets = [pool]
        for sub in subsets:
            seed += 1
            parts.append(partSpec(kind, s, sub, fam, seed, dose, 1.0 + 0.125 * seed))
    while len(parts) < k:  # not enough cells: split further by using unused suffixes
        seed += 1
        s = rng.choice([x for x in SFX if x not in sfxs] or SFX)
        kind = rng.choice(KINDS)
        if any(p["kind"] == kind and p["sfx"] == s for p in parts):
            continue
        parts.append(partSpec(kind, s, sorted(rng.sample(range(NNUC), rng.randint(1, 4))), fam, seed, dose, 1.0 + 0.125 * seed))
    libs = [[p] for p in parts[:k]]
    for p in parts[k:]:
        rng.choice(libs).append(p)
    return [ps[0] if len(ps) == 1 else {"parts": ps} for ps in libs]


def partsOf(spec):
    return spec["parts"] if "parts" in spec else [spec]


def hasChi(specs):
    return any(p.get("chi") for s in specs for p in partsOf(s))


def normChi(nsnap, chiLabels):
    """chiFlag of fissile nuclides read from a file-wide-chi library may legitimately become 1 (chi is carried by value)."""
    for l in chiLabels:
        meta = nsnap.get(l, {}).get("neutron", {}).get("meta")
        if isinstance(meta, dict) and meta.get("fisFlag", 0) and "chiFlag" in meta:
            meta["chiFlag"] = "0|1"


def runSet(specs, sample=False):
    """Merge the libraries of a set in all orders; return the number of orders evaluated."""
    k = len(specs)
    circ = ".fileWideChi" if hasChi(specs) else ""  # circumstance (a feature of the input) keeps a known finding narrow
    try:
        built = [build(s) for s in specs]
    except Exception as e:  # noqa: BLE001  a pre-merged input is itself a merge of compatible libraries
        B.case((json.dumps(specs, sort_keys=True), "pre-merge"))
        report("merge.compatible-rejected" + circ, "libraries without conflicting data could not be merged: %s: %s" % (type(e).__name__, str(e)[:200]), {"clause": "merge", "libs": specs, "stage": "pre-merge"}, (9, 0, 0))
        return 0
    blobs = [pickle.dumps(l) for l in built]
    snaps = [snapLib(l, ordered=False) for l in built]
    size = (sum(len(partsOf(s)) for s in specs), sum(len(s["labels"]) for s in snaps), GROUPS[partsOf(specs[0])[0]["groups"]][0])
    inp = {"clause": "merge", "libs": specs}
    setKey = hashlib.sha1(json.dumps(specs, sort_keys=True).encode()).hexdigest()[:12]
    # ---- expectation from the sources alone
    chiLabels = set()
    for sp, sn in zip(specs, snaps):
        for p in partsOf(sp):
            if p.get("chi"):
                chiLabels |= {l for l in sn["labels"] if l.endswith(p["sfx"])}
    expNuc = {}
    clash = False
    for sn in snaps:
        for l, d in sn["nuclides"].items():
            for cat, content in d.items():
                clash = clash or cat in expNuc.setdefault(l, {})
                expNuc[l][cat] = content
    assert not clash, "generator produced overlapping data"
    normChi(expNuc, chiLabels)
    expProps = {}
    for p in PROPS:
        vals = {json.dumps(sn["props"][p]) for sn in snaps if sn["props"][p] is not None}
        expProps[p] = sorted(vals)
    allParts = [p for s in specs for p in partsOf(s)]
    expMeta = {}
    for kind in KINDS:
        holders = [sn["meta"][kind] for sn in snaps if sn["meta"][kind]["data"]]
        nparts = sum(1 for p in allParts if p["kind"] == kind)
        data = {}
        for h in holders:
            for key, v in h["data"].items():
                data.setdefault(key, set()).add(json.dumps(v))
        anyChi = any(p.get("chi") for p in allParts if p["kind"] == kind)
        if anyChi and nparts >= 2:
            data["chi"] = {json.dumps(None)}
            data["fileWideChiFlag"] = {json.dumps(0)}
        expMeta[kind] = {"data": data, "fileNames": sorted(f for h in holders for f in h["fileNames"])}
    first = None
    nOrders = 0
    for order in itertools.permutations(range(k)):
        for mode in ("empty", "first"):
            if mode == "first" and k == 1:
                continue
            nOrders += 1
            B.case((setKey, order, mode), dict(inp, order=list(order), mode=mode) if sample and first is None else None)
            libs = [pickle.loads(blobs[i]) for i in order]
            target = xsLibraries.IsotxsLibrary() if mode == "empty" else libs.pop(0)
            cinp = dict(inp, order=list(order), mode=mode)
            try:
                for o in libs:
                    target.merge(o)
            except Exception as e:  # noqa: BLE001
                report("merge.compatible-rejected" + circ, "libraries without conflicting data could not be merged: %s: %s" % (type(e).__name__, str(e)[:200]), cinp, size)
                continue
            res = snapLib(target, ordered=False)
            normChi(res["nuclides"], chiLabels)
            check(res["consistent"], "merge.result-inconsistent" + circ, "labels, nuclide table and container links of the result disagree", cinp, size)
            check(res["labels"] == sorted(expNuc), "merge.union.labels" + circ, "result must hold exactly the union of the nuclides: %s vs %s" % (res["labels"], sorted(expNuc)), cinp, size)
            for l in sorted(set(res["labels"]) & set(expNuc)):
                got = res["nuclides"][l]
                for cat in ("neutron", "gamma", "production"):
                    if cat in expNuc[l]:
                        d = diff(expNuc[l][cat], got.get(cat, {}))
                        check(not d, "merge.data-differs.%s%s" % (cat, circ), "%s data/metadata of %s differ from the source at %s" % (cat, l, d), cinp, size)
                    else:
                        check(cat not in got, "merge.data-invented.%s%s" % (cat, circ), "%s holds %s data that no source provided" % (l, cat), cinp, size)
            for p in PROPS:
                got = json.dumps(res["props"][p])
                if len(expProps[p]) <= 1:
                    check([got] == (expProps[p] or [json.dumps(None)]), "merge.property-differs.%s" % p, "library property %s differs from the sources'" % p, cinp, size)
                else:  # only neutronVelocity may legitimately differ between sources
                    check(got in expProps[p], "merge.property-differs.%s" % p, "library property %s is none of the sources' values" % p, cinp, size)
            for kind in KINDS:
                gm = res["meta"][kind]
                check(gm["fileNames"] == expMeta[kind]["fileNames"], "merge.metadata-differs.%s.fileNames%s" % (kind, circ), "file names are not the sources' file names", cinp, size)
                for key in sorted(set(gm["data"]) | set(expMeta[kind]["data"])):
                    exp = expMeta[kind]["data"].get(key, {json.dumps(None)})
                    check(json.dumps(gm["data"].get(key)) in exp, "merge.metadata-differs.%s%s%s" % (kind, "." + key if key in ("chi", "fileWideChiFlag", "libraryLabel") else "", circ), "file metadata %s differs from the sources' (%s vs %s)" % (key, gm["data"].get(key), sorted(exp)), cinp, size)
            if first is None:
                first = (res, list(order), mode)
            else:
                d = diff(first[0], res)
                for path in d:
                    seg = path.split(".")
                    field = seg[2] if seg[1] == "props" else ".".join(seg[1:3]) if seg[1] == "meta" else seg[1]
                    if field == "neutronVelocity":
                        c2 = ".sources-differ" if len(expProps["neutronVelocity"]) > 1 else ""
                    else:
                        c2 = circ
                    report("merge.order-dependent.%s%s" % (field, c2), "content of the result depends on the merge order (at %s): %s/%s vs %s/%s" % (path, first[1], first[2], list(order), mode), cinp, size)
    return nOrders


def mergeClause():
    sets = []
    if THOROUGH:
        plan = [(1, 30), (2, 150), (3, 250), (4, 120)]
    else:
        plan = [(1, 10), (2, 50), (3, 70)]
    for k, n in plan:
        for _ in range(n):
            sets.append(genSet(k))
    # the plain fixtures in all orders (neutron + gamma + production for AA and AB)
    plain = [{"kind": kind, "base": s, "sfx": s, "groups": "fixture", "seed": 0, "tag": READERS[kind][1] % s} for s in ("AA", "AB") for kind in KINDS]
    def tiny(kind, base, sfx, keep, **kw):
        return dict({"kind": kind, "base": base, "sfx": sfx, "keep": keep, "groups": "tiny", "seed": 0}, **kw)

    # smallest sets first: one nuclide, two groups
    sets.insert(0, [tiny("gam", "AA", "AB", [1]), tiny("iso", "AA", "AA", [0], chi=True), tiny("iso", "AA", "AC", [1])])
    sets.insert(0, [tiny("iso", "AA", "AA", [0]), tiny("iso", "AB", "AB", [0])])
    sets.insert(0, [tiny("iso", "AA", "AA", [0]), tiny("gam", "AA", "AA", [0]), tiny("pmx", "AA", "AA", [0])])
    sets.insert(0, [tiny("iso", "AA", "AA", [0]), tiny("pmx", "AA", "AA", [0])])
    sets.insert(0, plain[:3])
    sets.insert(1, [plain[0], plain[3]])
    if THOROUGH:
        sets.append([plain[0], plain[1], plain[3], plain[4]])
    fams = set()
    budget = 900.0 if THOROUGH else 60.0
    t0 = time.thread_time()  # CPU seconds of this thread: independent of machine load
    done = 0
    for i, specs in enumerate(sets):
        if time.thread_time() - t0 > budget:
            break
        runSet(specs, sample=(i == 8))
        done += 1
        fams.add(partsOf(specs[0])[0]["groups"])
    B.extra["merge_sets_planned"] = len(sets)
    B.extra["merge_sets_run"] = done
    B.extra["group_families"] = sorted(fams)


# ------------------------------------------------------------------------------------------------ conflicting inputs
def classify(paths, labels0):
    out = set()
    for p in paths:
        seg = p.split(".")
        if seg[1] == "props":
            out.add("doseFactors" if "Dose" in seg[2] else "energyBounds")
        elif seg[1] == "labels" or (seg[1] == "nuclides" and seg[2].split("(")[0] not in labels0):
            out.add("partial-nuclides")
        elif seg[1] == "nuclides":
            out.add("chiFlag" if seg[-1] == "chiFlag" else "partial-nuclide-data")
        elif seg[1] == "meta":
            out.add("metadata")
        else:
            out.add("other")
    return sorted(out)


def runConflict(cls, tspec, ospec, sample=False):
    inp = {"clause": "conflict", "cls": cls, "target": tspec, "other": ospec}
    B.case(("conflict", cls, json.dumps(tspec, sort_keys=True), json.dumps(ospec, sort_keys=True)), inp if sample else None)
    T = build(tspec)
    O = build(ospec)
    before = snapLib(T, ordered=True)
    size = (len(before["labels"]) + len(O), GROUPS[partsOf(tspec)[0]["groups"]][0])
    raised = None
    try:
        T.merge(O)
    except Exception as e:  # noqa: BLE001
        raised = e
    if raised is None:
        report("merge.conflict-accepted." + ("group-structure" if cls.startswith("groups") else "same-data"), "conflicting libraries (%s) were combined without an error" % cls, inp, size)
        return
    after = snapLib(T, ordered=True)
    d = diff(before, after, limit=40)
    for c in classify(d, set(before["labels"])):
        report("merge.rejected-but-target-changed." + c, "merge raised %s but the target changed at %s" % (type(raised).__name__, [p for p in d if classify([p], set(before["labels"])) == [c]][:4]), inp, size)


def conflictClause():
    n = 12 if THOROUGH else 4
    cases = []

    def sub(lo=1, hi=4):
        return sorted(rng.sample(range(NNUC), rng.randint(lo, hi)))

    def spec(kind, sfx, keep, fam="small", **kw):
        return dict({"kind": kind, "base": rng.choice(["AA", "AB"]), "sfx": sfx, "keep": keep, "groups": fam, "seed": rng.randint(1, 9)}, **kw)

    fams = ["tiny", "small", "fixture"]
    for i in range(n):
        fa, fb = rng.sample(fams, 2)
        for kind in KINDS:  # different number of groups, same kind of library
            cases.append(("groups-count." + kind, spec(kind, "AA", sub(), fa), spec(kind, "AB", sub(), fb)))
        cases.append(("groups-count.iso-pmx", spec("iso", "AA", sub(), fa), spec("pmx", "AA", sub(), fb)))
        cases.append(("groups-count.gam-pmx", spec("gam", "AA", sub(), fa), spec("pmx", "AC", sub(), fb)))
        f = rng.choice(fams)
        cases.append(("groups-values.iso", spec("iso", "AA", sub(), f), spec("iso", "AB", sub(), f, nebScale=1.5)))
        cases.append(("groups-values.gam", spec("gam", "AA", sub(), f), spec("gam", "AB", sub(), f, gebScale=1.5)))
        cases.append(("groups-values.pmx-neutron", spec("pmx", "AA", sub(), f), spec("pmx", "AB", sub(), f, nebScale=0.5)))
        cases.append(("groups-values.pmx-gamma", spec("pmx", "AA", sub(), f), spec("pmx", "AB", sub(), f, gebScale=0.5)))
        cases.append(("groups-values.iso-minimum-energy", spec("iso", "AA", sub(), f), spec("iso", "AB", sub(), f, minE=1.0)))
        # F5: properties taken from the source before the group structures are compared
        cases.append(("groups-values.iso-pmx-dose", spec("iso", "AA", sub(), f), spec("pmx", "AB", sub(), f, nebScale=2.0, dose=True)))
        cases.append(("groups-values.gam-pmx", spec("gam", "AA", sub(), f), spec("pmx", "AB", sub(), f, gebScale=2.0)))
        cases.append(("groups-values.gam-pmx-dose", spec("gam", "AA", sub(), f), spec("pmx", "AB", sub(), f, gebScale=2.0, dose=True)))
        # F5: file-wide chi handling touches the nuclides before the metadata are compared
        k0 = sorted(set([0] + sub()))
        cases.append(("groups-values.iso-minimum-energy-filewide-chi", spec("iso", "AA", k0, f, chi=True), spec("iso", "AB", sub(), f, minE=1.0)))
        cases.append(("groups-values.iso-minimum-energy-filewide-chi", spec("iso", "AA", sub(), f), spec("iso", "AB", k0, f, minE=1.0, chi=True)))
        # the same kind of data for the same label from two sources
        for kind in KINDS:
            keep = sub(2, 5)
            ov = rng.choice(keep)
            new = rng.choice([j for j in range(NNUC) if j not in keep])
            sfx = rng.choice(SFX)
            cases.append(("same-data.%s.overlap-first" % kind, spec(kind, sfx, keep, f), spec(kind, sfx, [ov, new], f, scale=2.0)))
            cases.append(("same-data.%s.overlap-after-new" % kind, spec(kind, sfx, keep, f), spec(kind, sfx, [new, ov], f, scale=2.0)))
            cases.append(("same-data.%s.overlap-only" % kind, spec(kind, sfx, keep, f), spec(kind, sfx, [ov], f, scale=2.0)))
            t = spec(kind, sfx, keep, f)
            cases.append(("same-data.%s.identical-copy" % kind, t, dict(t)))
            cases.append(("same-data.%s.different-metadata" % kind, spec(kind, sfx, keep, f, temp=400.0), spec(kind, sfx, [ov], f, temp=900.0)))
        # a source holding several kinds of data of which one is already present in the target
        keep = sub(1, 3)
        sfx = rng.choice(SFX)
        for have in KINDS:
            others = [kd for kd in KINDS if kd != have]
            combo = {"parts": [spec(kd, sfx, keep, f) for kd in (others + [have] if i % 2 else [have] + others)]}
            cases.append(("same-data.%s-in-combined-source" % have, spec(have, sfx, keep, f), combo))
    for j, (cls, t, o) in enumerate(cases):
        runConflict(cls, t, o, sample=(j == 0))
    B.extra["conflict_pairs"] = len(cases)
    B.extra["conflict_classes"] = sorted({c for c, _, _ in cases})


# ------------------------------------------------------------------------------------------------ working-directory merge
def workdirClause(tmp):
    src = {(kind, s): snapLib(pickle.loads(MASTER[kind, s]), ordered=False) for kind in KINDS for s in ("AA", "AB")}
    for sfxs in (["AA"], ["AB"], ["AA", "AB"]):
        for gam in (False, True):
            B.case(("workdir", tuple(sfxs), gam))
            d = tempfile.mkdtemp(dir=tmp)
            for s in sfxs:
                for kind in KINDS:
                    shutil.copy(os.path.join(FIX, READERS[kind][1] % s), d)
            lib = xsLibraries.IsotxsLibrary()
            inp = {"clause": "workdir", "suffixes": sfxs, "mergeGammaLibs": gam}
            try:
                xsLibraries.mergeXSLibrariesInWorkingDirectory(lib, mergeGammaLibs=gam, alternateDirectory=d)
            except Exception as e:  # noqa: BLE001
                report("workdir.raised", "merging the fixture files of a directory raised %s: %s" % (type(e).__name__, str(e)[:200]), inp)
                continue
            res = snapLib(lib, ordered=False)
            exp = {}
            for s in sfxs:
                for kind in KINDS if gam else ["iso"]:
                    for l, dd in src[kind, s]["nuclides"].items():
                        exp.setdefault(l, {}).update(dd)
            extra = [l for l in res["labels"] if l not in exp]
            check(set(exp) <= set(res["labels"]), "workdir.union.labels", "nuclides of the files are missing from the result", inp)
            check(all(isinstance(lib[l]._base, nuclideBases.DummyNuclideBase) for l in extra), "workdir.union.extra-labels", "result holds non-dummy nuclides that no file provided: %s" % extra, inp)
            for l in exp:
                if l in res["nuclides"]:
                    dd = diff(exp[l], res["nuclides"][l])
                    check(not dd, "workdir.data-differs", "data of %s differ from the file's at %s" % (l, dd), inp)


# ------------------------------------------------------------------------------------------------ macroscopic constants
class Comp:
    """The part of the block interface that MacroscopicCrossSectionCreator uses."""

    def __init__(self, dens, sfx):
        self.d = dict(dens)
        self.sfx = sfx

    def getNuclides(self):
        return list(self.d)

    def getMicroSuffix(self):
        return self.sfx

    def getNuclideNumberDensities(self, names):
        return [self.d.get(n, 0.0) for n in names]

    def getNumberDensities(self):
        return dict(self.d)

    def __repr__(self):
        return "<Comp %s>" % self.sfx


def close(a, b, scale=None):
    a = a.toarray() if sparse.issparse(a) else np.asarray(a, dtype=float)
    b = b.toarray() if sparse.issparse(b) else np.asarray(b, dtype=float)
    if a.shape != b.shape:
        return False
    s = max(float(np.max(np.abs(b))) if b.size else 0.0, scale or 0.0)
    return bool(np.allclose(a, b, rtol=1e-10, atol=1e-10 * s))


MACRO_LIBS = {}


def macroLib(name):
    if name not in MACRO_LIBS:
        if name == "fixture":
            specs = [{"kind": kind, "base": s, "sfx": s, "groups": "fixture"} for kind in KINDS for s in ("AA", "AB")]
        else:  # optional reactions dropped, scatter sparsified, relabelled
            specs = [{"kind": "iso", "base": "AA", "sfx": "AC", "groups": "fixture", "seed": 1, "sparse": 0.5, "drop": ["n2n", "nalph", "inelasticScatter", "n2nScatter"], "keep": list(range(0, NNUC, 2))},
                     {"kind": "gam", "base": "AA", "sfx": "AC", "groups": "fixture", "seed": 1, "sparse": 0.5, "keep": list(range(0, NNUC, 2))},
                     {"kind": "pmx", "base": "AA", "sfx": "AC", "groups": "fixture", "seed": 1, "keep": list(range(0, NNUC, 2))},
                     {"kind": "iso", "base": "AB", "sfx": "AD", "groups": "fixture", "seed": 2, "scale": 1.5, "drop": ["np", "n2nScatter"], "keep": list(range(NNUC))},
                     {"kind": "pmx", "base": "AB", "sfx": "AD", "groups": "fixture", "seed": 2, "scale": 1.5, "keep": list(range(NNUC))},
                     {"kind": "gam", "base": "AB", "sfx": "AD", "groups": "fixture", "seed": 2, "scale": 1.5, "keep": list(range(NNUC))}]
        # assembled by hand (not with armi's merge) so that this clause does not depend on the merge clause
        lib = None
        for s in specs:
            part = build(s)
            if s["kind"] == "iso":
                if lib is None:
                    lib = part
                else:
                    for l, n in list(part.items()):
                        lib[str(l)] = n
                continue
            for l, n in part.items():
                t = lib[str(l)]
                if s["kind"] == "gam":
                    t.gammaXS, t.gamisoMetadata = n.gammaXS, n.gamisoMetadata
                else:
                    t.pmatrxMetadata = n.pmatrxMetadata
                    for a in PMX_ATTRS:
                        setattr(t, a, getattr(n, a))
            _setprop(lib, "gammaEnergyUpperBounds", part._gammaEnergyUpperBounds)
        MACRO_LIBS[name] = lib
    return MACRO_LIBS[name]


LINEAR_VEC = xc.BASIC_XS + xc.TOTAL_XS + xc.DERIVED_XS
LINEAR_MAT = xc.BASIC_SCAT_MATRIX + ["totalScatter"]


def oracle(lib, sfx, comp, libType, minDens=0.0):
    """Density-weighted sums computed by a naive walk over the library."""
    byName = {n.name: n for l, n in lib.items() if str(l)[-2:] == sfx}
    present = [(byName[name], d) for name, d in sorted(comp.items()) if d and d > minDens and name in byName]
    missing = [name for name, d in comp.items() if d and d > minDens and name not in byName]
    ng = lib.numGroups if libType == "micros" else lib.numGroupsGamma
    out = {}
    for r in xc.BASIC_XS + xc.TOTAL_XS:
        if r == xc.NUSIGF:
            continue
        ref = np.asarray(getattr(getattr(next(iter(byName.values())), libType), r))
        acc = np.zeros((ng,) + ref.shape[1:])
        for n, d in present:
            acc = acc + d * np.asarray(getattr(getattr(n, libType), r))
        out[r] = acc
    acc = np.zeros(ng)
    for n, d in present:
        c = getattr(n, libType)
        acc = acc + d * np.asarray(c.fission) * np.asarray(c.neutronsPerFission)
    out[xc.NUSIGF] = acc
    for r in xc.BASIC_SCAT_MATRIX:
        acc = np.zeros((ng, ng))
        for n, d in present:
            m = getattr(getattr(n, libType), r)
            if m is not None:
                acc = acc + d * m.toarray()
        out[r] = acc
    out["absorption"] = sum(out[r] for r in xc.ABSORPTION_XS)
    out["totalScatter"] = out["elasticScatter"] + out["inelasticScatter"] + 2.0 * out["n2nScatter"]
    out["removal"] = out["absorption"] - out["n2n"] + out["totalScatter"].sum(axis=0) - np.diag(out["totalScatter"])
    # energy deposition / generation
    Gn, Gg = lib.numGroups, lib.numGroupsGamma
    e = {"neutronDeposition": np.zeros(Gn), "gammaDeposition": np.zeros(Gg), "fissionGeneration": np.zeros(Gn), "captureGeneration": np.zeros(Gn)}
    for n, d in present:
        e["neutronDeposition"] = e["neutronDeposition"] + d * np.asarray(n.neutronHeating) * units.JOULES_PER_eV
        e["gammaDeposition"] = e["gammaDeposition"] + d * np.asarray(n.gammaHeating) * units.JOULES_PER_eV
        e["fissionGeneration"] = e["fissionGeneration"] + d * np.asarray(n.micros.fission) * n.isotxsMetadata["efiss"]
        for r in xc.CAPTURE_XS:
            e["captureGeneration"] = e["captureGeneration"] + d * np.asarray(getattr(n.micros, r)) * n.isotxsMetadata["ecapt"]
    # chi (total fission source weighting)
    num, den = np.zeros(Gn), 0.0
    for n, d in present:
        nf = float(np.sum(np.asarray(n.micros.neutronsPerFission) * np.asarray(n.micros.fission)))
        num = num + np.asarray(n.micros.chi) * d * nf
        den += d * nf
    out["chi"] = num / den if den else np.zeros(Gn)
    return out, e, missing, present


ENERGY_FUNCS = {
    "neutronDeposition": xc.computeNeutronEnergyDepositionConstants,
    "gammaDeposition": xc.computeGammaEnergyDepositionConstants,
    "fissionGeneration": xc.computeFissionEnergyGenerationConstants,
    "captureGeneration": xc.computeCaptureEnergyGenerationConstants,
}


def call(f, *a, **k):
    try:
        return f(*a, **k), None
    except Exception as e:  # noqa: BLE001
        return None, e


def creator(lib, comp, sfx, libType, minDens):
    mc = xc.MacroscopicCrossSectionCreator(minimumNuclideDensity=minDens)
    return call(mc.createMacrosFromMicros, lib, Comp(comp, sfx), libType=libType)


def runMacro(libName, sfx, comp, libType="micros", minDens=0.0, sample=False):
    lib = macroLib(libName)
    inp = {"clause": "macro", "lib": libName, "suffix": sfx, "libType": libType, "composition": comp, "minDens": minDens}
    B.case(("macro", libName, sfx, libType, minDens, json.dumps(comp, sort_keys=True)), inp if sample else None, nontrivial=any(comp.values()))
    size = (len(comp),)
    exp, expE, missing, present = oracle(lib, sfx, comp, libType, minDens)
    empty = not present and not missing
    tag = ".gamma" if libType == "gammaXS" else ""
    # ---- group constants, one reaction at a time (this function does not know about minimumNuclideDensity)
    if minDens == 0.0:
        for r in xc.BASIC_XS + xc.TOTAL_XS:
            kw = {"multConstant": xc.NU} if r == xc.NUSIGF else {}
            got, err = call(xc.computeMacroscopicGroupConstants, xc.FISSION_XS if r == xc.NUSIGF else r, comp, lib, sfx, libType=libType, **kw)
            if missing:
                ok = isinstance(err, ValueError) or (err is None and got is not None and close(got, exp[r]))
                check(ok, "macro.missing-nuclide.groupConstants", "a nuclide missing from the library must raise ValueError or contribute nothing; got %r" % (err or "a different sum"), inp, size)
            elif empty:
                check(err is None and got is not None and np.shape(got) == exp[r].shape and not np.any(got), "macro.empty.groupConstants", "the constants of an empty composition must be zero; got %r" % (err if err else got), inp, size)
            else:
                check(err is None and got is not None and close(got, exp[r]), "macro.sum.groupConstants.%s%s" % (r, tag), "computeMacroscopicGroupConstants(%s) is not the density-weighted sum (%r)" % (r, err), inp, size)
        if libType == "micros":
            for name, f in ENERGY_FUNCS.items():
                got, err = call(f, comp, lib, sfx)
                if missing:
                    ok = isinstance(err, ValueError) or (err is None and got is not None and close(got, expE[name]))
                    check(ok, "macro.missing-nuclide." + name, "a nuclide missing from the library must raise ValueError or contribute nothing; got %r" % (err or "a different sum"), inp, size)
                elif empty:
                    check(err is None and got is not None and np.shape(got) == expE[name].shape and not np.any(got), "macro.empty." + name, "the constants of an empty composition must be zero; got %r" % (err if err else got), inp, size)
                else:
                    check(err is None and got is not None and close(got, expE[name]), "macro.sum." + name, "%s is not the density-weighted sum (%r)" % (f.__name__, err), inp, size)
    # ---- the creator
    m, err = creator(lib, comp, sfx, libType, minDens)
    if missing:
        ok = isinstance(err, ValueError) or (err is None and all(close(m[r], exp[r]) for r in LINEAR_VEC + LINEAR_MAT))
        check(ok, "macro.missing-nuclide.creator", "a nuclide missing from the library must raise ValueError or contribute nothing; got %r" % (err or "different sums"), inp, size)
        return None
    if empty:
        ok = err is None and all(m[r] is not None and not np.any(m[r].toarray() if sparse.issparse(m[r]) else m[r]) for r in LINEAR_VEC + LINEAR_MAT)
        check(ok, "macro.empty.creator", "the macroscopic cross sections of an empty composition must be zero; got %r" % (err if err else "non-zero"), inp, size)
        return None
    if not check(err is None, "macro.creator-raised" + tag, "createMacrosFromMicros raised %r" % err, inp, size):
        return None
    for r in xc.BASIC_XS + xc.TOTAL_XS + xc.BASIC_SCAT_MATRIX:
        check(m[r] is not None and close(m[r], exp[r]), "macro.sum.creator.%s%s" % (r, tag), "macroscopic %s is not the density-weighted sum of the microscopic data" % r, inp, size)
    big = float(max(np.max(np.abs(exp["absorption"])), np.max(np.abs(exp["totalScatter"]))))
    # derived quantities: equal to their defining sums, both of the returned parts and of the independent sums
    check(close(m.absorption, sum(np.asarray(m[r]) for r in xc.ABSORPTION_XS)) and close(m.absorption, exp["absorption"]), "macro.absorption" + tag, "absorption is not capture + fission + n2n", inp, size)
    ts = m.elasticScatter.toarray() + m.inelasticScatter.toarray() + 2.0 * m.n2nScatter.toarray()
    check(close(m.totalScatter, ts) and close(m.totalScatter, exp["totalScatter"]), "macro.totalScatter" + tag, "total scatter is not elastic + inelastic + 2 n2n", inp, size)
    rem = np.asarray(m.absorption) - np.asarray(m.n2n) + ts.sum(axis=0) - np.diag(ts)
    check(close(m.removal, rem, big) and close(m.removal, exp["removal"], big), "macro.removal" + tag, "removal is not absorption - n2n + out-scatter", inp, size)
    with np.errstate(divide="ignore", invalid="ignore"):
        check(close(np.nan_to_num(m.diffusionConstants, posinf=0.0), np.nan_to_num(1.0 / (3.0 * exp["transport"]), posinf=0.0)), "macro.diffusion" + tag, "diffusion constants are not 1/(3 transport)", inp, size)
    if libType == "micros" and minDens == 0.0:
        check(close(m.chi, exp["chi"]), "macro.chi", "chi is not the fission-source-weighted mean of the nuclide chi", inp, size)
    return m


def scaled(comp, c):
    return {k: v * c for k, v in comp.items()}


def linearityAndAdditivity(libName, sfx, comp, libType):
    lib = macroLib(libName)
    inp = {"clause": "macro", "lib": libName, "suffix": sfx, "libType": libType, "composition": comp, "minDens": 0.0}
    size = (len(comp),)
    m, err = creator(lib, comp, sfx, libType, 0.0)
    if err is not None:
        return
    tag = ".gamma" if libType == "gammaXS" else ""
    c = rng.choice([0.5, 2.0, 3.0, 1e3, 1e-3])
    mc, err = creator(lib, scaled(comp, c), sfx, libType, 0.0)
    B.case(("macro-linear", libName, sfx, libType, c, json.dumps(comp, sort_keys=True)))
    if check(err is None, "macro.creator-raised" + tag, "createMacrosFromMicros raised %r on a scaled composition" % err, dict(inp, scale=c), size):
        for r in LINEAR_VEC + LINEAR_MAT:
            a = m[r].toarray() if sparse.issparse(m[r]) else np.asarray(m[r])
            check(close(mc[r], c * a), "macro.linear.%s%s" % (r, tag), "scaling all densities by c must scale %s by c" % r, dict(inp, scale=c), size)
        if libType == "micros":
            check(np.allclose(mc.chi, m.chi, rtol=1e-9, atol=1e-12), "macro.linear.chi", "chi must not depend on the scale of the densities", dict(inp, scale=c), size)
    fr = {k: rng.choice([0.0, 1.0, rng.random(), rng.random()]) for k in comp}
    c1 = {k: v * fr[k] for k, v in comp.items()}
    c2 = {k: v - c1[k] for k, v in comp.items()}
    if not any(c1.values()) or not any(c2.values()):
        B.extra["additivity_skipped_empty_half"] = B.extra.get("additivity_skipped_empty_half", 0) + 1
    else:
        m1, e1 = creator(lib, c1, sfx, libType, 0.0)
        m2, e2 = creator(lib, c2, sfx, libType, 0.0)
        B.case(("macro-additive", libName, sfx, libType, json.dumps(c1, sort_keys=True)))
        ainp = dict(inp, first=c1, second=c2)
        if check(e1 is None and e2 is None, "macro.creator-raised" + tag, "createMacrosFromMicros raised on a part of a composition: %r %r" % (e1, e2), ainp, size):
            for r in LINEAR_VEC + LINEAR_MAT:
                f = (lambda x: x.toarray() if sparse.issparse(x) else np.asarray(x))
                check(close(f(m1[r]) + f(m2[r]), f(m[r])), "macro.additive.%s%s" % (r, tag), "%s of a composition must be the sum over its parts" % r, ainp, size)
    if libType == "micros":
        for name, fn in ENERGY_FUNCS.items():
            g, e0 = call(fn, comp, lib, sfx)
            gc, e1 = call(fn, scaled(comp, c), lib, sfx)
            if e0 is None and e1 is None and g is not None and gc is not None:
                check(close(gc, c * g), "macro.linear." + name, "scaling all densities by c must scale the %s constants by c" % name, dict(inp, scale=c), size)
            if any(c1.values()) and any(c2.values()):
                g1, e1 = call(fn, c1, lib, sfx)
                g2, e2 = call(fn, c2, lib, sfx)
                if e0 is None and e1 is None and e2 is None and all(x is not None for x in (g, g1, g2)):
                    check(close(g1 + g2, g), "macro.additive." + name, "%s constants of a composition must be the sum over its parts" % name, dict(inp, first=c1, second=c2), size)


def genComp(names):
    r = rng.random()
    if r < 0.04:
        return {}
    size = rng.choice([1, 1, 2, 3, 5, 8, len(names)])
    comp = {n: 10 ** rng.uniform(-7, -1) for n in rng.sample(names, min(size, len(names)))}
    if rng.random() < 0.2:
        for n in rng.sample(sorted(comp), rng.randint(1, len(comp))):
            comp[n] = 0.0
    if rng.random() < 0.2:
        for n in rng.sample(["AM241", "CM244", "B10", "XX99"], rng.randint(1, 2)):
            comp[n] = rng.choice([0.0, 10 ** rng.uniform(-7, -1)])
    return comp


def microClause():
    """Microscopic derived quantities of every nuclide collection."""
    for libName in ("fixture", "derived"):
        lib = macroLib(libName)
        for l, n in lib.items():
            for libType in ("micros", "gammaXS"):
                c = getattr(n, libType)
                if snapColl(c) is None:
                    continue
                B.case(("micro", libName, str(l), libType))
                inp = {"clause": "micro", "lib": libName, "label": str(l), "libType": libType}
                mats = [("elasticScatter", 1.0), ("inelasticScatter", 1.0), ("n2nScatter", 2.0)]
                present = [(a, f) for a, f in mats if c[a] is not None]
                got, err = call(c.getTotalScatterMatrix)
                absent = "+".join(a for a, _ in mats if c[a] is None)
                if err is not None:
                    report("totalScatter.raises-when-missing." + (absent or "none"), "getTotalScatterMatrix must skip scatter matrices that are not defined (documented) but raised %r" % err, inp, (len(present),))
                elif present:
                    exp = sum(f * c[a].toarray() for a, f in present)
                    check(close(got, exp), "totalScatter.sum", "total scatter is not elastic + inelastic + 2 n2n over the defined matrices", inp)
                got = c.getAbsorptionXS()
                exp = [c[r] for r in xc.ABSORPTION_XS]
                ok = len(got) == len(exp) and sorted(cv(g) for g in got) == sorted(cv(e) for e in exp)
                check(ok, "absorption.parts", "getAbsorptionXS must list exactly capture (n-gamma, n-alpha, n-p, n-d, n-t), fission and n2n", inp)


def macroClause():
    microClause()
    n = 1200 if THOROUGH else 200
    first = True
    for libName, sfxs in (("fixture", ["AA", "AB"]), ("derived", ["AC", "AD"])):
        lib = macroLib(libName)
        for sfx in sfxs:
            names = sorted(nn.name for l, nn in lib.items() if str(l)[-2:] == sfx)
            comps = [{}, {names[0]: 0.0}, {names[0]: 1e-3}, {names[0]: 1e-3, "AM241": 1e-4}, {names[0]: 1e-3, "AM241": 0.0}, {names[0]: 1e-3, "XX99": 1e-4}]
            comps += [genComp(names) for _ in range(n // 4)]
            for i, comp in enumerate(comps):
                for libType in ("micros", "gammaXS") if i % 3 == 0 else ("micros",):
                    m = runMacro(libName, sfx, comp, libType, 0.0, sample=first and i == 2)
                    if m is not None:
                        linearityAndAdditivity(libName, sfx, comp, libType)
                if i % 4 == 1 and comp:
                    runMacro(libName, sfx, comp, "micros", 1e-4)
            first = False


# ------------------------------------------------------------------------------------------------ main
def finish():
    for vid in sorted(FOUND):
        _size, what, inp = FOUND[vid]
        B.violation(vid, what, inp)
    B.extra["violation_counts"] = dict(sorted(COUNTS.items()))
    B.finish(exhaustive=False)


def main():
    here = os.getcwd()
    with tempfile.TemporaryDirectory(prefix="c10_") as tmp:
        os.chdir(tmp)
        try:
            if B.replay is not None:
                rp = B.replay
                cl = rp.get("clause")
                if cl == "merge":
                    runSet(rp["libs"])
                elif cl == "conflict":
                    runConflict(rp["cls"], rp["target"], rp["other"])
                elif cl == "macro":
                    m = runMacro(rp["lib"], rp["suffix"], rp["composition"], rp.get("libType", "micros"), rp.get("minDens", 0.0))
                    if m is not None:
                        linearityAndAdditivity(rp["lib"], rp["suffix"], rp["composition"], rp.get("libType", "micros"))
                elif cl == "workdir":
                    workdirClause(tmp)
                elif cl == "micro":
                    microClause()
                else:
                    immutableClause()
                print(json.dumps({"result": "fail" if FOUND else "pass", "violations": sorted(FOUND), "details": {k: v[1] for k, v in FOUND.items()}, "input": rp}, default=str))
                return
            for name, fn in (("immutable", immutableClause), ("conflict", conflictClause), ("workdir", lambda: workdirClause(tmp)), ("macro", macroClause), ("merge", mergeClause)):
                t = time.time()
                try:
                    fn()
                except Exception:  # noqa: BLE001  a crash of the harness is reported, never swallowed
                    report(name + ".harness-exception", traceback.format_exc()[-1500:], None)
                B.extra["t_" + name] = round(time.time() - t, 1)
        finally:
            os.chdir(here)
    finish()


main()
