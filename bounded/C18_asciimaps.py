"""C18 bounded tier, part A: lattice maps (armi.utils.asciimaps, GridBlueprint save/load).

Executable forms of the two lattice-map sentences of property C18:

  "A lattice map read from text, written and read again gives the same indexed contents in every
   supported geometry, and indexed contents are either drawn as text that reads back to them or
   refused, never drawn incompletely."

Clauses (violation ids)
  map.roundtrip            text -> readAscii -> writeAscii -> readAscii changes the indexed contents (or raises), or
                           text -> readAscii -> contents -> gridContentsToAscii -> writeAscii -> readAscii gives
                           different contents (a refusal on the data path is allowed and counted)
  map.index-depends-on-label  the (i,j) keys read from a text depend on the labels / white space, not only on the
                           token positions
  map.anchor               a token is not indexed where armi's documentation puts it (Cartesian: (column, row from the
                           bottom); third core: base table of the docstring, (+2,-1) per column; corners-up: centre (0,0)
                           and the six documented corners; known answers of armi/utils/tests/test_asciimaps.py).  A round
                           trip cannot see a consistent shift of reader and writer; this can.
  map.incomplete-drawing.<cartesian|hex-third-flats|hex-full-flats|hex-full-tips>
                           contents -> gridContentsToAscii -> writeAscii produced text (no error), but the text does not
                           read back to exactly those contents (a cell dropped, moved or relabelled)
  map.incomplete-drawing.<hex-...>.corner-missing
                           same clause, for contents that lack one of the corner cells of their own outermost ring
                           (sparse outline).  Own id because the pinned tree fails exactly there (size inference from
                           max(i+j) / the j=0 row in _updateDimensionsFromData).
  map.incomplete-drawing.cartesian-negative
                           same clause, for Cartesian contents centred on (0,0) (negative indices), which is what
                           GridBlueprint produces for a full-core Cartesian lattice map
  map.slot-collision       two text slots (line, column) of one map are mapped to the same (i,j), or the number of
                           tokens in a text differs from the number of indexed entries read from it
  grid.save-roundtrip.<class>  GridBlueprint(lattice map) -> construct -> saveToStream(tryMap) -> load -> construct gives
                           different grid contents (the user-facing form of the same clause)

and of the first sentence of C18 as far as it concerns the maps alone ("... places, at every location named in the
core and pin lattice maps (text maps and explicit lists alike) ..."): which (i,j) a GridBlueprint gives to every token
of a ``lattice map`` text.  <geom> = cartesian-full | cartesian-quarter | hex-third-flats | hex-full-tips |
hex-full-flats; <shape> = the family of the layout (Cartesian: rect, diamond, round, step-narrow-top,
step-narrow-bottom, step-left, wide-row-top / -middle / -bottom, random-holes; hex: full, holes; shipped) - maps whose
ROWS HAVE UNEQUAL LENGTH, written with the trailing placeholders left off (the form armi's own writer produces), with
them written out, and with every row filled to the window; odd and even widths and heights.
  grid.lattice-index.<geom>.<shape>    GridBlueprint(lattice map).construct(): the grid contents are not the (i,j) that
                           the text itself gives to its tokens.  Oracle from the text alone: Cartesian = (column, row from
                           the bottom) [asciimaps: "i and j are equal to column, row"]; full core: minus (nx // 2, ny // 2)
                           with nx = the widest row, ny = the number of rows, placeholders counted [gridBlueprint: "offset
                           appropriately to get (0,0) in the middle", int(-n/2) "for even and odd cases"]: odd n - the token in
                           the middle of the widest row / the middle row is (0,0); even n - the axes lie between the two middle
                           columns / rows and (0,0) is the cell right of / above them [grids.CartesianGrid: "even-by-even ...
                           the (0,0) location is offset from the origin", origin at its bottom-left corner].  Hex third /
                           corners-up: documented tables as in map.anchor.  Flats-up full core: the map class's own reader
                           (the blueprint must add no shift of its own).
  grid.lattice-padding.<geom>.<shape>  the same map with the trailing placeholders of its rows written out (rows filled to
                           the widest row; flats-up full core: all rows but the bottom one, whose length defines the cut
                           corners) gives different grid contents.  Needs no index convention at all.
  grid.map-vs-contents.<geom>.<shape>  the layout given as ``lattice map`` and the same layout given as explicit ``grid
                           contents`` give different grid contents, or the constructed spatial grids put a cell at
                           different x,y (through-centre / offset inferred differently)
  grid.lattice-centre.cartesian-full.<shape>  square full-core maps whose labels reach all four sides (the two cases drawn in
                           the CartesianGrid documentation): in the constructed grid the label of text column c, text row r
                           does not sit at ((c - (n-1)/2), (r - (n-1)/2)) pitches from the origin - the map is not centred

The oracle is a round trip / a count / the documented position of a token; nothing of armi's text handling is re-implemented here.  The cell domains
(rings of a hexagon, the 120-degree sector of a third core, an nx x ny rectangle) are defined below by plain
inequalities on (i,j), independent of asciimaps.
"""
import inspect
import io
import itertools
import json
import os
import sys

sys.path.insert(0, os.path.dirname(os.path.abspath(__file__)))
from common import Bounded, armi_ready

import tempfile  # noqa: E402

_CWD0 = os.getcwd()
_TMP = tempfile.TemporaryDirectory(prefix="c18_")
os.chdir(_TMP.name)  # armi may create logs/ relative to the cwd
armi_ready()
import logging  # noqa: E402

from armi.utils import asciimaps  # noqa: E402

logging.disable(logging.CRITICAL)  # refusals log their state at error level; thousands of them are expected here

PH = "-"
B = Bounded(
    rule="per AsciiMap class: (i) shipped lattice-map texts and relabelled/hole-punched/re-spaced variants of them, "
    "(ii) contents = all in-domain cells within R rings (hex) / nx x ny (Cartesian) minus every hole pattern of <= N cells, "
    "plus seeded random hole patterns of any size; (iii) GridBlueprint level: lattice-map texts with rows of unequal length (Cartesian full + quarter core: "
    "rectangle / diamond / round / steps narrowing to the top, the bottom, from the left / one wide row at the top, middle, bottom with the others k columns wide / "
    "random holes, each written with trailing placeholders left off, written out, and filled to the window; hex third and corners-up: own drawings of 1-4 rings with "
    "random holes; shipped texts of every class) -> grid contents vs the text's own token positions, vs the padded text, vs explicit grid contents; "
    "non-trivial = distinct (class, contents/text)",
    bound="hex R<=4 rings (37 cells full, 13 third), Cartesian <=6x6; holes: every pattern when the map has <=10 (quick) / <=13 (thorough) "
    "cells, else every pattern of <=3 (quick) / <=4 (thorough; <=5 when <=19 cells) removed cells; random larger patterns: 300 (quick) / "
    "2000 (thorough) per map; text variants: 20 (quick) / 150 (thorough) per shipped text; centred (negative-index) Cartesian: <=1 / <=2 holes; "
    "lattice-map indexing: every Cartesian window 1x1..6x6 (quick) / ..9x9 (thorough) x 9 shape families (every k for the wide-row ones) + 6 / 40 random hole patterns per "
    "window, x 3 text forms x full / quarter core; hex 1-4 rings, full + 6 / 40 random hole patterns per ring count and class",
)
THOROUGH = B.thorough()
rng = B.rng

# Violations are collected per id and the smallest failing inputs of each id are reported (common.Bounded keeps
# only the first 20 overall, which one prolific id would otherwise fill).
_V = {}
SHORT = {
    "AsciiMapCartesian": "cartesian",
    "AsciiMapHexThirdFlatsUp": "hex-third-flats",
    "AsciiMapHexFullFlatsUp": "hex-full-flats",
    "AsciiMapHexFullTipsUp": "hex-full-tips",
}


def violation(vid, what, inp, size=0):
    _COUNT[vid] = _COUNT.get(vid, 0) + 1
    _V.setdefault(vid, []).append((size, _COUNT[vid], what, inp))
    if len(_V[vid]) > 400:  # keep memory bounded, keep the smallest
        _V[vid] = sorted(_V[vid], key=lambda t: (t[0], t[1]))[:50]


_COUNT = {}


def check(cond, vid, what, inp, size=0):
    if not cond:
        violation(vid, what, inp, size)
    return cond


def flushViolations(perId=3):
    for vid in sorted(_V):
        for _size, _n, what, inp in sorted(_V[vid], key=lambda t: (t[0], t[1]))[:perId]:
            B.violation(vid, what, inp)
    B.extra["violation_counts"] = dict(sorted(_COUNT.items()))

# ------------------------------------------------------------------------------------------------ classes
MAP_CLASSES = {
    name: cls
    for name, cls in inspect.getmembers(asciimaps, inspect.isclass)
    if issubclass(cls, asciimaps.AsciiMap) and cls is not asciimaps.AsciiMap and cls.__module__ == asciimaps.__name__
}
B.extra["map_classes"] = sorted(MAP_CLASSES)
KNOWN = {"AsciiMapCartesian", "AsciiMapHexThirdFlatsUp", "AsciiMapHexFullFlatsUp", "AsciiMapHexFullTipsUp"}
check(KNOWN <= set(MAP_CLASSES), "map.class-missing", "an expected map class is not defined in asciimaps", sorted(KNOWN - set(MAP_CLASSES)))
B.extra["classes_without_domain"] = sorted(set(MAP_CLASSES) - KNOWN)  # new classes get clause (i) only if a text is shipped


# ------------------------------------------------------------------------------------------------ domains
def hexRing(i, j):
    return max(abs(i), abs(j), abs(i + j))


def fullHexCells(R):
    return [(i, j) for i in range(-R, R + 1) for j in range(-R, R + 1) if hexRing(i, j) < R]


def thirdHexCells(R):
    """Flats-up third core: the sector 0 <= angle < 120 degrees; i on the 30-degree ray, j on the 90-degree ray.

    With (i,j) = a*(2,-1) + b*(-1,2): a = (2i+j)/3 > 0 and b = (i+2j)/3 >= 0, plus the centre.
    """
    return [(i, j) for (i, j) in fullHexCells(R) if (i, j) == (0, 0) or (2 * i + j > 0 and i + 2 * j >= 0)]


def rectCells(nx, ny, centred=False):
    ox, oy = (int(-nx / 2), int(-ny / 2)) if centred else (0, 0)
    return [(i + ox, j + oy) for i in range(nx) for j in range(ny)]


def cornersPresent(contents):
    """All cells of the contents' own outermost ring that lie on a hexagon corner (i, j or i+j zero) and belong to the
    domain spanned by the contents' class are present.  Only used to give failures of corner-less (sparse outline)
    contents their own violation id; the clause is the same."""
    r = max(hexRing(i, j) for i, j in contents)
    if r == 0:
        return True
    third = all((i, j) == (0, 0) or (2 * i + j > 0 and i + 2 * j >= 0) for i, j in contents)
    corners = [(r, 0), (0, r)] if third else [(r, 0), (0, r), (-r, r), (-r, 0), (0, -r), (r, -r)]
    return all(c in contents for c in corners)


LABEL_ALPHABET = "ABCDEFGHJKLMNPQRSTUVWXYZ0123456789"


def labelFor(n, width):
    """Distinct label per cell number n (so that a moved cell is seen), never the placeholder, no white space."""
    s = ""
    n0 = n
    while True:
        s = LABEL_ALPHABET[n % len(LABEL_ALPHABET)] + s
        n //= len(LABEL_ALPHABET)
        if n == 0:
            break
    return s + "x" * max(0, 1 + (n0 % width) - len(s))


def labelled(cells, width=1):
    return {c: labelFor(k, width) for k, c in enumerate(sorted(cells))}


# ------------------------------------------------------------------------------------------------ the wrapped calls
def readText(cls, text):
    m = cls()
    m.readAscii(text)
    return m


def nonPlaceholder(d):
    return {tuple(k): v for k, v in d.items() if v != PH}


def drawFromContents(cls, contents):
    """contents -> gridContentsToAscii -> writeAscii.  Returns (map, text) or raises (= refusal)."""
    m = cls()
    m.asciiLabelByIndices = dict(contents)
    m.gridContentsToAscii()
    s = io.StringIO()
    m.writeAscii(s)
    return m, s.getvalue()


def slotsInjective(m, nLines=None):
    """Every (line, column) slot of the map's text window -> (i,j) via the real arithmetic; all distinct?"""
    nLines = nLines if nLines is not None else m._asciiMaxLine
    seen = {}
    for line in range(nLines):
        for col in range(m._asciiMaxCol):
            ij = tuple(m._getIJFromColRow(col, line))
            if ij in seen:
                return False, [seen[ij], (line, col), ij]
            seen[ij] = (line, col)
    return True, None


def tokensOf(text):
    return [ln.split() for ln in text.strip().splitlines()]


def jsonContents(contents):
    return sorted([k[0], k[1], v] for k, v in contents.items())


refused = {}
drawn = {}


def checkContents(clsName, contents, vidSuffix="", key=None):
    """Clause (ii)+(iii) for one contents dict.  Returns 'drawn' | 'refused' | 'violation'."""
    cls = MAP_CLASSES[clsName]
    inp = {"cls": clsName, "contents": jsonContents(contents)}
    vid = "map.incomplete-drawing." + (vidSuffix or SHORT.get(clsName, clsName))
    if not vidSuffix and "Hex" in clsName and not cornersPresent(contents):
        vid += ".corner-missing"
    B.case(key or (clsName, tuple(sorted(contents.items()))), {"cls": clsName, "ncells": len(contents)} if len(B.samples) < 5 else None)
    try:
        m, text = drawFromContents(cls, contents)
    except Exception as e:  # refusal: allowed by the clause
        refused[clsName] = refused.get(clsName, 0) + 1
        refusalKinds.add("%s: %s: %s" % (clsName, type(e).__name__, str(e)[:60]))
        return "refused"
    drawn[clsName] = drawn.get(clsName, 0) + 1
    try:
        back = nonPlaceholder(readText(cls, text).asciiLabelByIndices)
    except Exception as e:
        violation(vid, "text drawn from contents cannot be read back: %r" % e, dict(inp, text=text), len(contents))
        return "violation"
    ok = back == nonPlaceholder(contents)
    if not ok:
        missing = sorted(k for k in contents if k not in back)
        extra = sorted(k for k in back if k not in contents)
        moved = sorted(k for k in contents if k in back and back[k] != contents[k])
        violation(
            vid,
            "contents were drawn (no error) but the text does not read back to exactly them",
            dict(inp, text=text, missing=missing[:10], extra=extra[:10], relabelled=moved[:10]),
            len(contents),
        )
    inj, witness = slotsInjective(m)
    check(inj, "map.slot-collision", "two text slots share one (i,j)", dict(inp, witness=witness), len(contents))
    nTok = sum(len(t) for t in tokensOf(text))
    check(
        nTok == len(readText(cls, text).asciiLabelByIndices),
        "map.slot-collision",
        "number of tokens in the drawn text differs from number of indexed entries read from it",
        dict(inp, text=text, tokens=nTok),
        len(contents),
    )
    return "drawn" if ok else "violation"


refusalKinds = set()

# Absolute text position -> (i,j), as far as armi DOCUMENTS it (class docstrings of asciimaps / known answers of
# armi/utils/tests/test_asciimaps.py).  A round trip alone cannot see a consistent shift of reader and writer.
THIRD_BASES_DOC = [(0, 0), (1, 0), (0, 1), (1, 1), (0, 2), (-1, 3), (0, 3), (-1, 4), (-2, 5), (-1, 5), (-2, 6), (-3, 7), (-2, 7)]
KNOWN_ANSWERS = {
    "test_asciimaps.CARTESIAN_MAP": {(0, 0): "2", (1, 1): "3", (2, 2): "3", (3, 3): "1"},
    "test_asciimaps.HEX_THIRD_MAP": {(7, 0): "2", (8, 0): "3", (8, -4): "2", (0, 8): "3", (0, 0): "1"},
    "test_asciimaps.HEX_THIRD_MAP_WITH_HOLES": {(1, 1): PH, (5, 0): "TG"},
    "test_asciimaps.HEX_THIRD_MAP_WITH_EMPTY_ROW": {(1, 1): PH, (6, 0): PH, (5, 0): "TG"},
    "test_asciimaps.HEX_THIRD_MAP_2": {(5, 0): "TG"},
    "test_asciimaps.HEX_FULL_MAP": {(-9, 9): "7", (-8, 0): "6", (-1, 0): "2", (-1, 8): "8", (0, -6): "3", (0, 0): "0", (9, 0): "4"},
    "test_asciimaps.HEX_FULL_MAP_FLAT": {(-3, 10): "ORS", (0, -9): "ORS", (0, 0): "IC", (0, 9): "ORS", (4, -6): "RR7", (6, 0): "RR7", (7, -1): "RR89", (-5, 2): "VOTA", (2, 3): "FS"},
}


def documentedIndex(clsName, toks, a, b):
    """(i,j) that the documentation gives to token b of text line a (from the top), or None where it is silent."""
    fromBottom = len(toks) - 1 - a
    if clsName == "AsciiMapCartesian":  # "i and j are equal to column, row", rows from the bottom
        return (b, fromBottom)
    if clsName == "AsciiMapHexThirdFlatsUp" and fromBottom < len(THIRD_BASES_DOC):
        # base table of the docstring; "i increments by 2*col for each col and j decrements by col from the base"
        bi, bj = THIRD_BASES_DOC[fromBottom]
        return (bi + 2 * b, bj - b)
    if clsName == "AsciiMapHexFullTipsUp":
        # (0,0) in the centre; corners as in test_hexFullCornersUpSpotCheck: the affine map through them
        n = len(toks)
        if n % 2 == 1 and max(len(t) for t in toks) == n:
            R = (n - 1) // 2
            return (b - R, 2 * R - a - b)
    return None


def checkAnchors(clsName, text, origin, c1):
    toks = tokensOf(text)
    inp = {"cls": clsName, "origin": origin, "text": text}
    bad = []
    for a, ln in enumerate(toks):
        for b, t in enumerate(ln):
            ij = documentedIndex(clsName, toks, a, b)
            if ij is not None and c1.get(ij) != t:
                bad.append([a, b, t, list(ij), c1.get(ij)])
    check(not bad, "map.anchor", "a token is not indexed where the documentation says (line, col, token, documented ij, found there)", dict(inp, bad=bad[:5]), len(text))
    if "Flats" in clsName:  # flats-up: "to move n columns right, i increases by 2n, j decreases by n"
        where = {}
        for k, v in c1.items():
            where.setdefault(v, []).append(k)
        for ln in toks:
            for t, u in zip(ln, ln[1:]):
                if t != PH and u != PH and len(where.get(t, ())) == 1 and len(where.get(u, ())) == 1:
                    (i, j), (i2, j2) = where[t][0], where[u][0]
                    check((i2, j2) == (i + 2, j - 1), "map.anchor", "right-hand neighbour in a flats-up line is not (i+2, j-1)", dict(inp, pair=[t, u]), len(text))
    for ij, lab in KNOWN_ANSWERS.get(origin, {}).items():
        check(c1.get(ij) == lab, "map.anchor", "known answer of armi's own test does not hold", dict(inp, ij=list(ij), expected=lab, found=c1.get(ij)), len(text))


def checkText(clsName, text, origin, requireDirect=True):
    """Clause (i)+(iii) for one text.  Returns the indexed contents read (incl. placeholders) or None."""
    cls = MAP_CLASSES[clsName]
    inp = {"cls": clsName, "origin": origin, "text": text}
    B.case((clsName, text), {"cls": clsName, "origin": origin} if len(B.samples) < 5 else None)
    try:
        m = readText(cls, text)
    except Exception as e:
        check(not requireDirect, "map.roundtrip", "a shipped/generated well-formed map text cannot be read: %r" % e, inp)
        return None
    c1 = {tuple(k): v for k, v in m.asciiLabelByIndices.items()}
    nTok = sum(len(t) for t in tokensOf(text))
    check(nTok == len(c1), "map.slot-collision", "number of tokens in the text differs from the number of indexed entries", dict(inp, tokens=nTok, entries=len(c1)))
    inj, witness = slotsInjective(m, nLines=len(m.asciiLines))
    check(inj, "map.slot-collision", "two text slots share one (i,j)", dict(inp, witness=witness))
    checkAnchors(clsName, text, origin, c1)
    # direct: read -> write -> read
    try:
        s = io.StringIO()
        m.writeAscii(s)
        c2 = {tuple(k): v for k, v in readText(cls, s.getvalue()).asciiLabelByIndices.items()}
        check(c2 == c1, "map.roundtrip", "read -> writeAscii -> read changed the indexed contents", dict(inp, written=s.getvalue()))
    except Exception as e:
        violation("map.roundtrip", "read -> writeAscii -> read raised %r" % e, inp)
    # data path, with the placeholders kept in the contents (as armi's own tests do) and without (as saveToStream does)
    for keepPH in (True, False):
        contents = c1 if keepPH else nonPlaceholder(c1)
        if not contents:
            continue
        try:
            _m, t3 = drawFromContents(cls, contents)
        except Exception as e:
            refused[clsName] = refused.get(clsName, 0) + 1
            refusalKinds.add("%s: %s: %s" % (clsName, type(e).__name__, str(e)[:60]))
            continue
        try:
            c3 = nonPlaceholder(readText(cls, t3).asciiLabelByIndices)
        except Exception as e:
            c3 = "unreadable: %r" % e
        check(
            c3 == nonPlaceholder(c1),
            "map.roundtrip",
            "read -> contents -> gridContentsToAscii -> writeAscii -> read changed the indexed contents",
            dict(inp, keepPlaceholders=keepPH, written=t3),
        )
    return c1


def classForGeom(geom, symmetry):
    geom = (geom or "hex").strip().lower()
    sym = (symmetry or "third periodic").strip().lower()
    if geom == "cartesian":
        return "AsciiMapCartesian"
    if geom == "hex_corners_up" and "full" in sym:
        return "AsciiMapHexFullTipsUp"
    if geom in ("hex", "hex_corners_up") and "third" in sym:
        return "AsciiMapHexThirdFlatsUp"
    if geom == "hex" and "full" in sym:
        return "AsciiMapHexFullFlatsUp"
    return None


# ------------------------------------------------------------------------------------------------ GridBlueprint level
from ruamel.yaml import CLoader  # noqa: E402
from armi.reactor.blueprints.gridBlueprint import Grids, saveToStream  # noqa: E402


def gridContentsOf(yamlText, name):
    g = Grids.load(yamlText, Loader=CLoader)
    g[name].construct()
    return g, {tuple(k): v for k, v in g[name].gridContents.items()}


def checkGridSave(geom, symmetry, text, origin):
    doc = "g:\n  geom: %s\n  symmetry: %s\n  lattice map: |\n%s" % (geom, symmetry, "".join("    " + ln + "\n" for ln in text.strip("\n").splitlines()))
    # strip common indentation-sensitive leading blanks: a YAML literal block keeps relative indentation only
    inp = {"geom": geom, "symmetry": symmetry, "origin": origin, "lattice map": text}
    B.case(("gridsave", geom, symmetry, text), None)
    try:
        g, c1 = gridContentsOf(doc, "g")
    except Exception as e:
        B.extra.setdefault("gridsave_unloadable", []).append("%s: %r" % (origin, e))
        return
    try:
        s = io.StringIO()
        saveToStream(s, g, full=False, tryMap=True)
        _g2, c2 = gridContentsOf(s.getvalue(), "g")
    except Exception as e:
        violation("grid.save-roundtrip." + SHORT.get(classForGeom(geom, symmetry), "other"), "saveToStream/load of a constructed grid blueprint raised %r" % e, inp)
        return
    check(
        c2 == c1,
        "grid.save-roundtrip." + SHORT.get(classForGeom(geom, symmetry), "other"),
        "grid blueprint read from a lattice map, saved and loaded again has different grid contents",
        dict(inp, saved=s.getvalue(), missing=sorted(k for k in c1 if k not in c2)[:10], extra=sorted(k for k in c2 if k not in c1)[:10]),
        len(text),
    )


def dedent(text):
    lines = text.strip("\n").splitlines()
    ind = min(len(ln) - len(ln.lstrip(" ")) for ln in lines if ln.strip())
    return "\n".join(ln[ind:] for ln in lines)


# ------------------------------------------------------------------------------------------------ lattice map text -> grid contents
# "places, at every location named in the core and pin lattice maps (text maps and explicit lists alike) ...": the
# (i,j) a GridBlueprint gives to every token of a ``lattice map`` text, for maps whose rows have UNEQUAL length (round /
# diamond / stepped layouts, trailing placeholders left off - the form armi's own writer produces).
SHAPES_RUN = {}


def shapeMask(shape, nx, ny, k=0):
    """Occupied cells {(c, r)} (text column from the left, row from the BOTTOM) of an nx x ny window; plain inequalities."""
    cells = [(c, r) for c in range(nx) for r in range(ny)]
    if shape == "rect":
        return set(cells)
    if shape == "diamond":  # scaled Manhattan distance from the middle of the window
        return {(c, r) for c, r in cells if abs(2 * c + 1 - nx) * ny + abs(2 * r + 1 - ny) * nx <= nx * ny}
    if shape == "round":
        return {(c, r) for c, r in cells if ((2 * c + 1 - nx) * ny) ** 2 + ((2 * r + 1 - ny) * nx) ** 2 <= (nx * ny) ** 2}
    if shape == "step-narrow-top":  # rows get shorter towards the top
        return {(c, r) for c, r in cells if c * ny < (ny - r) * nx}
    if shape == "step-narrow-bottom":  # rows get shorter towards the bottom
        return {(c, r) for c, r in cells if c * ny < (r + 1) * nx}
    if shape == "step-left":  # holes on the LEFT (leading placeholders are written), wider towards the top
        return {(c, r) for c, r in cells if (nx - 1 - c) * ny < (r + 1) * nx}
    if shape in ("wide-row-top", "wide-row-middle", "wide-row-bottom"):  # one full row, the others only k columns wide
        wide = {"wide-row-top": ny - 1, "wide-row-middle": ny // 2, "wide-row-bottom": 0}[shape]
        return {(c, r) for c, r in cells if r == wide or c < k}
    raise ValueError(shape)


def maskText(mask, nx, ny, form, width=1):
    """Own drawing of a Cartesian layout: one text row per r (top row first), one token per column, '-' = hole.

    form 'trimmed': placeholders after the last label of a row are left off (a row of holes only is one '-');
    form 'padded': every row of the trimmed text is filled with placeholders to the widest row; form 'window': every
    row has all nx columns."""
    labels = {cr: labelFor(n, width) for n, cr in enumerate(sorted(mask))}
    rows = []
    for r in reversed(range(ny)):
        toks = [labels.get((c, r), PH) for c in range(nx)]
        if form != "window":
            while len(toks) > 1 and toks[-1] == PH:
                toks.pop()
        rows.append(toks)
    if form == "padded":
        w = max(len(t) for t in rows)
        rows = [t + [PH] * (w - len(t)) for t in rows]
    return "\n".join(" ".join(t) for t in rows)


def padRows(text, exceptLast=False):
    toks = tokensOf(text)
    w = max(len(t) for t in toks)
    lines = text.strip("\n").splitlines()
    out = []
    for n, (ln, t) in enumerate(zip(lines, toks)):
        if exceptLast and n == len(toks) - 1:
            out.append(ln)
        else:
            out.append(ln.rstrip() + (" " + PH) * (w - len(t)))
    return "\n".join(out)


def textIndexOracle(geom, symmetry, text):
    """{(i,j): label} that the documentation gives to the tokens of a lattice-map text (placeholders dropped).

    Cartesian: asciimaps 'i and j are equal to column, row' (rows from the bottom); for a full core GridBlueprint
    shifts all of them 'to get (0,0) in the middle', by int(-n/2) of the map's extent in text slots (widest row,
    number of rows) 'for even and odd cases': odd n -> the middle column/row is 0; even n -> the axes lie between the
    two middle columns/rows and (0,0) is the cell right of / above them (grids.CartesianGrid: 'even-by-even ... the
    (0,0) location is offset from the origin', origin at its bottom-left corner).  Hex third / corners-up: the
    documented tables (documentedIndex).  Flats-up full core has no documented closed form: the map class's own
    reader (whose anchors are the subject of map.anchor) - the blueprint must add no shift of its own."""
    toks = tokensOf(text)
    clsName = classForGeom(geom, symmetry)
    nx, ny = max(len(t) for t in toks), len(toks)
    if clsName == "AsciiMapHexFullFlatsUp":
        return nonPlaceholder(readText(MAP_CLASSES[clsName], text).asciiLabelByIndices), "map class reader"
    out = {}
    for a, ln in enumerate(toks):
        for b, t in enumerate(ln):
            if clsName == "AsciiMapCartesian":
                ij = (b, ny - 1 - a)
                if "full" in symmetry:
                    ij = (ij[0] - nx // 2, ij[1] - ny // 2)
            else:
                ij = documentedIndex(clsName, toks, a, b)
            if ij is None:
                return None, None
            if t != PH:
                if ij in out:
                    return None, None
                out[ij] = t
    return out, "documentation"


def gridDoc(geom, symmetry, text=None, contents=None):
    doc = "g:\n  geom: %s\n  symmetry: %s\n" % (geom, symmetry)
    if text is not None:
        return doc + "  lattice map: |\n" + "".join("    " + ln + "\n" for ln in text.strip("\n").splitlines())
    return doc + "  grid contents:\n" + "".join("    [%d, %d]: '%s'\n" % (i, j, v) for (i, j), v in sorted(contents.items()))


def builtGrid(doc):
    """-> (grid contents, symmetry string after construction, {(i,j): xy of the cell centre in units of the pitch})"""
    g = Grids.load(doc, Loader=CLoader)["g"]
    grid = g.construct()
    c = {tuple(k): v for k, v in g.gridContents.items()}
    xy = {k: tuple(round(float(x), 9) for x in grid.getCoordinates((k[0], k[1], 0))[:2]) for k in c}
    return c, str(g.symmetry), xy


def geomTag(geom, symmetry):
    return SHORT.get(classForGeom(geom, symmetry), "other") + ("-full" if geom == "cartesian" and "full" in symmetry else "-quarter" if geom == "cartesian" else "")


def diffOf(want, got):
    return sorted([list(k), want.get(k), got.get(k)] for k in set(want) | set(got) if want.get(k) != got.get(k))[:6]


def checkLatticeIndex(geom, symmetry, text, shape, origin, padExceptLast=False):
    """The clauses grid.lattice-index / grid.lattice-padding / grid.map-vs-contents / grid.lattice-centre for one text."""
    tag = "%s.%s" % (geomTag(geom, symmetry), shape)
    inp = {"check": "lattice-index", "geom": geom, "symmetry": symmetry, "shape": shape, "origin": origin, "lattice map": text}
    B.case(("lattice-index", geom, symmetry, text), dict(inp) if SHAPES_RUN.get(tag, 0) == 0 and len(B.samples) < 5 else None)
    SHAPES_RUN[tag] = SHAPES_RUN.get(tag, 0) + 1
    want, source = textIndexOracle(geom, symmetry, text)
    if want is None:
        B.extra["lattice_index_no_oracle"] = B.extra.get("lattice_index_no_oracle", 0) + 1
        return
    try:
        got, symT, xyT = builtGrid(gridDoc(geom, symmetry, text=text))
    except Exception as e:
        violation("grid.lattice-index." + tag, "a well-formed lattice map was not read by the grid blueprint: %r" % e, inp, len(text))
        return
    check(
        got == want,
        "grid.lattice-index." + tag,
        "grid contents read from the lattice map are not the (i,j) the %s gives to the tokens (index, expected, found)" % source,
        dict(inp, differ=diffOf(want, got), centre_expected=want.get((0, 0)), centre_found=got.get((0, 0))),
        len(text),
    )
    # the same layout with the trailing placeholders written out
    padded = padRows(text, exceptLast=padExceptLast)
    if padded.split() != text.split():
        try:
            gotP = builtGrid(gridDoc(geom, symmetry, text=padded))[0]
        except Exception as e:
            gotP = {"unreadable": repr(e)}
        check(
            gotP == got,
            "grid.lattice-padding." + tag,
            "the same map with the trailing placeholders of its rows written out / left off gives different grid contents",
            dict(inp, padded=padded, differ=diffOf(gotP, got)),
            len(text),
        )
    # the same layout as an explicit list
    if want:
        try:
            gotC, symC, xyC = builtGrid(gridDoc(geom, symmetry, contents=want))
        except Exception as e:
            gotC, symC, xyC = {"unloadable": repr(e)}, None, None
        check(
            gotC == got and xyC == xyT,
            "grid.map-vs-contents." + tag,
            "lattice map and explicit `grid contents` of the same layout give different grid contents / cell positions",
            dict(inp, contents=jsonContents(want), differ=diffOf(gotC, got), symmetry_built=[symT, symC], positions=[[list(k), xyT.get(k), (xyC or {}).get(k)] for k in sorted(xyT) if (xyC or {}).get(k) != xyT.get(k)][:4]),
            len(text),
        )
    # full-core Cartesian, square maps whose labels reach all four sides (the two cases the CartesianGrid documentation
    # draws): the window of text slots is centred on the origin
    if geom == "cartesian" and "full" in symmetry and got:
        toks = tokensOf(text)
        nx, ny = max(len(t) for t in toks), len(toks)
        ext = [max(k[d] for k in got) - min(k[d] for k in got) + 1 for d in (0, 1)]
        if nx == ny and ext == [nx, ny]:
            bad = []
            labelAt = {xyT[k]: v for k, v in got.items()}
            for a, ln in enumerate(toks):
                for b, t in enumerate(ln):
                    xyWant = (round(b - (nx - 1) / 2.0, 9), round((ny - 1 - a) - (ny - 1) / 2.0, 9))
                    if labelAt.get(xyWant, PH) != t:
                        bad.append([t, list(xyWant), labelAt.get(xyWant)])
            check(not bad, "grid.lattice-centre." + tag, "square full-core map: a label is not at its text position measured from the middle of the map (label, its xy / pitch, label found there)", dict(inp, bad=bad[:4]), len(text))
        else:
            B.extra["lattice_centre_skipped_not_square"] = B.extra.get("lattice_centre_skipped_not_square", 0) + 1


CART_SHAPES = ["rect", "diamond", "round", "step-narrow-top", "step-narrow-bottom", "step-left", "wide-row-top", "wide-row-middle", "wide-row-bottom"]


def runLatticeIndex():
    NMAX = 9 if THOROUGH else 6
    NRND = 40 if THOROUGH else 6
    seen = set()

    def cart(mask, nx, ny, shape):
        if not mask:
            return
        for form in ("trimmed", "padded", "window"):
            text = maskText(mask, nx, ny, form, width=1 + (nx + ny) % 3)
            for sym in ("full", "quarter reflective"):
                if (sym, text) not in seen:
                    seen.add((sym, text))
                    checkLatticeIndex("cartesian", sym, text, shape, "generated %dx%d %s %s" % (nx, ny, shape, form))

    for nx in range(1, NMAX + 1):
        for ny in range(1, NMAX + 1):
            for shape in CART_SHAPES:
                for k in range(1, nx) if shape.startswith("wide-row") else (0,):
                    cart(shapeMask(shape, nx, ny, k), nx, ny, shape)
            cells = [(c, r) for c in range(nx) for r in range(ny)]
            for _ in range(NRND if nx * ny > 2 else 0):
                p = rng.choice([0.4, 0.6, 0.8])
                cart({cr for cr in cells if rng.random() < p}, nx, ny, "random-holes")
    # hex: own drawings of the documented layouts (third core: base table; corners up: affine), every ring count, holes
    for R in (1, 2, 3, 4):
        for nHoles in [0] + [rng.randint(1, max(1, len(thirdHexCells(R)) // 2)) for _ in range(NRND if R > 1 else 0)]:
            cells = sorted(thirdHexCells(R))
            keep = set(cells) - set(rng.sample(cells, nHoles))
            if keep:
                checkLatticeIndex("hex", "third periodic", thirdMapText(labelled(keep, 1 + R % 3)), "holes" if nHoles else "full", "generated third core %d rings" % R)
        for nHoles in [0] + [rng.randint(1, max(1, len(fullHexCells(R)) // 2)) for _ in range(NRND if R > 1 else 0)]:
            cells = sorted(fullHexCells(R))
            keep = set(cells) - set(rng.sample(cells, nHoles))
            if keep:
                checkLatticeIndex("hex_corners_up", "full", tipsMapText(labelled(keep, 1 + R % 3), R), "holes" if nHoles else "full", "generated corners-up %d rings" % R)
    # shipped texts of every class (flats-up full core: the only source of layouts that does not use armi's writer)
    for clsName, origin, text in shipped:
        if origin.startswith("synthetic"):
            continue
        for geom, sym in (("cartesian", "full"), ("cartesian", "quarter reflective"), ("hex", "third periodic"), ("hex_corners_up", "full"), ("hex", "full")):
            if classForGeom(geom, sym) == clsName:
                checkLatticeIndex(geom, sym, dedent(text), "shipped", origin, padExceptLast=clsName == "AsciiMapHexFullFlatsUp")
    B.extra["lattice_index_cases_by_shape"] = dict(sorted(SHAPES_RUN.items()))


def thirdMapText(cells):
    """Own drawing of a flats-up third-core layout from the documented base table: line r (from the bottom) starts at
    THIRD_BASES_DOC[r], each column adds (+2,-1); placeholders after the last label of a line are left off."""
    pos = {}
    for (i, j), spec in cells.items():
        for r, (bi, bj) in enumerate(THIRD_BASES_DOC):
            if (i - bi) % 2 == 0 and (i - bi) // 2 >= 0 and bj - (i - bi) // 2 == j:
                pos[(r, (i - bi) // 2)] = spec
                break
        else:
            raise ValueError("cell %s not in the documented table" % ((i, j),))
    lines = []
    for r in range(max(r for r, _ in pos) + 1):
        n = max([c for (rr, c) in pos if rr == r], default=-1) + 1
        lines.append(" ".join(pos.get((r, c), PH) for c in range(n)) or PH)
    return "\n".join(reversed(lines))


def tipsMapText(cells, R):
    """Own drawing of a corners-up full hexagon of R rings: 2R-1 lines, line a (from the top) column c is
    (c-(R-1), 2(R-1)-a-c); placeholders after the last label are left off except on the (widest) middle line."""
    lines = []
    for a in range(2 * R - 1):
        toks = []
        for c in range(2 * R - 1):
            ij = (c - (R - 1), 2 * (R - 1) - a - c)
            toks.append(cells.get(ij, PH) if hexRing(*ij) < R else PH)
        while a != R - 1 and len(toks) > 1 and toks[-1] == PH:
            toks.pop()
        lines.append(" " * a + " ".join(toks))
    return "\n".join(lines)



# ------------------------------------------------------------------------------------------------ replay
if B.replay is not None:
    r = B.replay
    if "contents" in r:
        res = checkContents(r["cls"], {(a, b): v for a, b, v in r["contents"]}, "cartesian-negative" if r["cls"] == "AsciiMapCartesian" and any(a < 0 or b < 0 for a, b, _v in r["contents"]) else "")
    elif r.get("check") == "lattice-index":
        checkLatticeIndex(r["geom"], r["symmetry"], r["lattice map"], r.get("shape", "replay"), r.get("origin", "replay"), padExceptLast=classForGeom(r["geom"], r["symmetry"]) == "AsciiMapHexFullFlatsUp")
        res = "lattice map indexed"
    elif "lattice map" in r:
        checkGridSave(r["geom"], r["symmetry"], r["lattice map"], r.get("origin", "replay"))
        res = "grid saved"
    else:
        res = "read" if checkText(r["cls"], r["text"], r.get("origin", "replay")) is not None else "unreadable"
    print('{"result": "%s", "outcome": "%s", "violations": %s}' % ("fail" if _COUNT else "pass", res, json.dumps(_COUNT)))
    os.chdir(_CWD0)
    _TMP.cleanup()
    sys.exit(0)

# ------------------------------------------------------------------------------------------------ (i) shipped texts
shipped = []  # (class name, origin, text)
try:
    from armi.utils.tests import test_asciimaps as T

    for const, clsName in [
        ("CARTESIAN_MAP", "AsciiMapCartesian"),
        ("HEX_THIRD_MAP", "AsciiMapHexThirdFlatsUp"),
        ("HEX_THIRD_MAP_2", "AsciiMapHexThirdFlatsUp"),
        ("HEX_THIRD_MAP_WITH_HOLES", "AsciiMapHexThirdFlatsUp"),
        ("HEX_THIRD_MAP_WITH_EMPTY_ROW", "AsciiMapHexThirdFlatsUp"),
        ("HEX_FULL_MAP", "AsciiMapHexFullTipsUp"),
        ("HEX_FULL_MAP_FLAT", "AsciiMapHexFullFlatsUp"),
        ("HEX_FULL_MAP_SMALL", "AsciiMapHexFullFlatsUp"),
    ]:
        if hasattr(T, const):
            shipped.append((clsName, "test_asciimaps." + const, getattr(T, const)))
except ImportError:
    B.extra["test_asciimaps_import"] = "failed"

# lattice maps in the shipped blueprint/grid YAML files (plain YAML load; class chosen by this table, not by armi)
import armi  # noqa: E402
from ruamel.yaml import YAML  # noqa: E402

TESTS_DIR = os.path.join(os.path.dirname(armi.__file__), "tests")


def findGrids(node, out):
    if isinstance(node, dict):
        if isinstance(node.get("lattice map"), str):
            out.append(node)
        for v in node.values():
            findGrids(v, out)
    elif isinstance(node, list):
        for v in node:
            findGrids(v, out)


yamlGrids = []  # (origin, class, geom, symmetry, text)
for root, _dirs, files in os.walk(TESTS_DIR):
    for fn in sorted(files):
        if not fn.endswith(".yaml"):
            continue
        p = os.path.join(root, fn)
        try:
            raw = open(p).read()
            # standalone "!include x" lines are text inclusions; irrelevant for finding lattice maps in this file
            raw = "\n".join(ln for ln in raw.splitlines() if "!include" not in ln)
            doc = YAML(typ="safe", pure=True).load(raw)
        except Exception:
            continue
        found = []
        findGrids(doc, found)
        for g in found:
            clsName = classForGeom(g.get("geom"), g.get("symmetry"))
            if clsName:
                yamlGrids.append((os.path.relpath(p, TESTS_DIR), clsName, g.get("geom", "hex"), g.get("symmetry", "third periodic"), g["lattice map"]))
seenTexts = set()
for origin, clsName, _g, _s, text in yamlGrids:
    if (clsName, text) not in seenTexts:
        seenTexts.add((clsName, text))
        shipped.append((clsName, origin, text))
B.extra["shipped_texts"] = len(shipped)

# synthetic full shapes whose layout is documented in the class docstrings (no armi code involved in making them)
for R in (1, 2, 3, 4):
    lines = []
    n = 0
    for ln in range(2 * R - 1):  # tips up: 2R-1 lines; line l has |R-1-l| leading placeholders above the middle
        k = R - 1 - ln
        toks = [PH] * max(k, 0)
        for _ in range((2 * R - 1) - abs(k)):
            toks.append(labelFor(n, 1))
            n += 1
        lines.append(" " * ln + " ".join(toks))
    shipped.append(("AsciiMapHexFullTipsUp", "synthetic tips-up %d rings" % R, "\n".join(lines) + "\n"))
for nx, ny in ((1, 1), (1, 4), (5, 1), (3, 3), (4, 6), (6, 6)):
    n = itertools.count()
    shipped.append(("AsciiMapCartesian", "synthetic cartesian %dx%d" % (nx, ny), "\n".join(" ".join(labelFor(next(n), 1) for _ in range(nx)) for _ in range(ny)) + "\n"))


def variantOf(text, nHoles, width):
    """Same token positions; fresh distinct labels, nHoles tokens turned into placeholders, random white space."""
    toks = tokensOf(text)
    real = [(a, b) for a, ln in enumerate(toks) for b, t in enumerate(ln) if t != PH]
    holes = set(rng.sample(real, min(nHoles, max(len(real) - 1, 0))))
    # do not empty a whole line, and keep the last token of each line (a line's length defines the shape)
    n = itertools.count()
    out = []
    for a, ln in enumerate(toks):
        new = []
        for b, t in enumerate(ln):
            if t == PH:
                new.append(PH)
            elif (a, b) in holes and b != len(ln) - 1:
                new.append(PH)
            else:
                new.append(labelFor(next(n), width))
        out.append(" " * rng.randint(0, 6) + (" " * rng.randint(1, 3)).join(new) + " " * rng.randint(0, 2))
    return "\n" * rng.randint(0, 2) + "\n".join(out) + "\n" * rng.randint(1, 2)


NVAR = 150 if THOROUGH else 20
for clsName, origin, text in shipped:
    if clsName not in MAP_CLASSES:
        continue
    c1 = checkText(clsName, text, origin)
    if c1 is None:
        continue
    for v in range(NVAR):
        nReal = sum(1 for t in c1.values() if t != PH)
        vt = variantOf(text, rng.choice([0, 0, 1, 2, 3, rng.randint(0, max(nReal // 3, 0))]), rng.choice([1, 1, 2, 4]))
        cv = checkText(clsName, vt, origin + " variant")
        if cv is not None:
            check(set(cv) == set(c1), "map.index-depends-on-label", "same token positions, different (i,j) keys", {"cls": clsName, "origin": origin, "text": vt})

# ------------------------------------------------------------------------------------------------ (ii) enumerated contents
bases = []  # (class, description, cells, violation-id suffix)
for R in (1, 2, 3, 4):
    bases.append(("AsciiMapHexFullTipsUp", "full %d rings" % R, fullHexCells(R), ""))
    bases.append(("AsciiMapHexFullFlatsUp", "full %d rings" % R, fullHexCells(R), ""))
    bases.append(("AsciiMapHexThirdFlatsUp", "third %d rings" % R, thirdHexCells(R), ""))
for nx in range(1, 7):
    for ny in range(1, 7):
        bases.append(("AsciiMapCartesian", "%dx%d" % (nx, ny), rectCells(nx, ny), ""))
        if nx > 1 or ny > 1:
            bases.append(("AsciiMapCartesian", "%dx%d centred" % (nx, ny), rectCells(nx, ny, centred=True), "cartesian-negative"))

ALL_SUBSETS_UPTO = 13 if THOROUGH else 10
NRANDOM = 2000 if THOROUGH else 300
outcomes = {}
for clsName, desc, cells, suffix in bases:
    if clsName not in MAP_CLASSES:
        continue
    cells = sorted(cells)
    full = labelled(cells, width=1 + (len(cells) % 3))
    n = len(cells)
    if n <= ALL_SUBSETS_UPTO:
        maxHoles = n - 1
    elif THOROUGH:
        maxHoles = 5 if n <= 19 else 4
    else:
        maxHoles = 3
    if suffix:
        maxHoles = min(maxHoles, 2 if THOROUGH else 1)  # centred Cartesian: a few representatives per size
    tally = outcomes.setdefault(clsName + ("." + suffix if suffix else ""), {"drawn": 0, "refused": 0, "violation": 0})
    for k in range(0, maxHoles + 1):
        for holes in itertools.combinations(cells, k):
            hs = set(holes)
            contents = {c: v for c, v in full.items() if c not in hs}
            tally[checkContents(clsName, contents, suffix, key=(clsName, desc, holes))] += 1
    if n > ALL_SUBSETS_UPTO and not suffix:
        for _ in range(NRANDOM):
            k = rng.randint(maxHoles + 1, n - 1)
            holes = tuple(sorted(rng.sample(cells, k)))
            hs = set(holes)
            contents = {c: labelFor(rng.randrange(2000), rng.choice([1, 2, 3])) for c in cells if c not in hs}
            tally[checkContents(clsName, contents, suffix, key=(clsName, desc, holes, "rnd"))] += 1
B.extra["contents_outcomes"] = outcomes
B.extra["refusal_kinds"] = sorted(refusalKinds)[:12]

# ------------------------------------------------------------------------------------------------ GridBlueprint level: run
done = set()
for origin, clsName, geom, sym, text in yamlGrids:
    if (geom, sym, text) not in done:
        done.add((geom, sym, text))
        checkGridSave(geom, sym, dedent(text), origin)
for geom, sym in (("cartesian", "full"), ("cartesian", "quarter reflective")):
    for nx, ny in ((2, 2), (3, 3), (3, 2), (4, 4), (5, 3)):
        n = itertools.count()
        checkGridSave(geom, sym, "\n".join(" ".join(labelFor(next(n), 1) for _ in range(nx)) for _ in range(ny)), "synthetic %dx%d" % (nx, ny))
for clsName, origin, text in shipped:
    if origin.startswith("synthetic tips-up"):
        checkGridSave("hex_corners_up", "full", dedent(text), origin)
    elif origin.startswith("test_asciimaps."):
        geomSym = {
            "AsciiMapCartesian": ("cartesian", "quarter reflective"),
            "AsciiMapHexThirdFlatsUp": ("hex", "third periodic"),
            "AsciiMapHexFullTipsUp": ("hex_corners_up", "full"),
            "AsciiMapHexFullFlatsUp": ("hex", "full"),
        }[clsName]
        checkGridSave(geomSym[0], geomSym[1], dedent(text), origin)


runLatticeIndex()

# observed, not judged here (reported to the maintainers of the framework): specifiers that YAML reads as numbers.  A
# lattice map always yields strings; an explicit list keeps the int, and getLocators(grid, [1]) then finds nothing.
try:
    _gc, _s, _xy = builtGrid("g:\n  geom: cartesian\n  symmetry: quarter reflective\n  grid contents:\n    [0, 0]: 1\n    [1, 0]: 2\n")
    _gm = builtGrid(gridDoc("cartesian", "quarter reflective", text="1 2"))[0]
    B.extra["observed_numeric_specifiers"] = {"lattice map '1 2'": jsonContents(_gm), "grid contents [0,0]: 1, [1,0]: 2": jsonContents(_gc), "same": _gc == _gm}
except Exception as e:  # noqa: BLE001
    B.extra["observed_numeric_specifiers"] = repr(e)
B.extra["refused_by_class"] = refused
B.extra["drawn_by_class"] = drawn
flushViolations()
os.chdir(_CWD0)
_TMP.cleanup()
B.finish(exhaustive=False)
