"""C19 bounded tier, temperature part: every library material has finite positive density and finite expansion
(> -100 %) at every temperature of its stated validity range.

Exhaustive over material classes (all classes resolvable in ``armi.materials``), BOUNDED over temperature: an inclusive grid
over each property's stated range (quick 200 points, thorough 2000 points + 200 seeded random points).

Which stated range governs a property is observed, not guessed: the instance's ``checkTempRange`` is replaced by a recorder,
so every ``checkPropertyTempRange(label, value)`` the real method performs is seen with its (min, max) from
``propertyValidTemperature``; the unit of the checked value (K or C) is recognised from the value itself.  The grid spans the
intersection of the ranges checked at a probe temperature; a grid point is *in the stated range* iff every range check the
method performs there passes (other points are skipped and counted).  Methods that perform no check fall back to the entries
of ``propertyValidTemperature`` named after them ("density", "pseudoDensity", "linear expansion percent"); if there is none, the
material states no range for that property and it is evaluated once, at the library's reference temperature 300 K
(``SimpleSolid.refTempK``), and listed in ``unstated_range``.

Properties: ``pseudoDensity`` (what components take their number densities from), ``density``, ``linearExpansionPercent``,
each asked with ``Tk=`` and again with ``Tc=`` (the way components ask); both forms must agree.
Zero density is admitted for ``Void`` only.  Skipped (counted): abstract bases of material.py, ``_Mixture`` and ``Custom``
(user-supplied density), and any property that declares itself abstract by raising NotImplementedError (``Water`` -> use
SaturatedWater / SaturatedSteam).
"""
import io
import json
import math
import os
import sys

sys.path.insert(0, os.path.dirname(os.path.abspath(__file__)))
from common import Bounded, armi_ready

armi_ready()
from armi import materials, runLog
from armi.materials import material as materialModule

runLog.setVerbosity("error")

B = Bounded(
    rule="every material class resolvable in armi.materials x {pseudoDensity, density, linearExpansionPercent} x an inclusive temperature "
    "grid over the property's stated validity range (range = the checkPropertyTempRange calls the method itself performs); "
    "distinct = (class, property, temperature)",
    bound="temperature grid: quick 200 points, thorough 2000 points + 200 seeded random points per (class, property)",
)
NGRID = 2000 if B.thorough() else 200
NRANDOM = 200 if B.thorough() else 0
ALL_IDS = set()
COUNTS = {}
ABSTRACT = {"Material", "Fluid", "SimpleSolid", "FuelMaterial", "_Mixture", "Custom"}
PROPS = {
    "pseudoDensity": ("pseudoDensity", "density"),
    "density": ("density",),
    "linearExpansionPercent": ("linear expansion percent",),
}
C_TO_K = 273.15
REF_TK = 300.0


def bad(vid, what, **inp):
    """One reported violation per id (the first input that fails); every id is counted."""
    COUNTS[vid] = COUNTS.get(vid, 0) + 1
    if vid not in ALL_IDS:
        ALL_IDS.add(vid)
        B.violation(vid, what, dict(inp, id=vid))


class Recorder:
    def __init__(self, m):
        self.calls = []
        m.checkTempRange = self

    def __call__(self, minT, maxT, val, label=""):
        self.calls.append((label, float(minT), float(maxT), float(val)))


def evaluate(m, rec, prop, Tk):
    del rec.calls[:]
    try:
        return getattr(m, prop)(Tk=Tk), None
    except NotImplementedError:
        return None, "abstract"
    except Exception as e:  # noqa
        return None, repr(e)[:160]


def unit_of(val, Tk):
    if abs(val - Tk) < 1e-6:
        return "K"
    if abs(val - (Tk - C_TO_K)) < 1e-6:
        return "C"
    return None


def stated_range(cls, m, rec, prop):
    """(lo, hi) in K of the stated range governing prop, or None; plus notes."""
    los, his = [], []
    probeTk = 600.0
    _v, err = evaluate(m, rec, prop, probeTk)
    if err == "abstract":
        return "abstract"
    pvt = cls.propertyValidTemperature
    for label, lo, hi, val in list(rec.calls):
        u = unit_of(val, probeTk)
        stated = pvt.get(label, (None, None))[1]
        if u is None:
            continue
        if stated not in (None, u):
            bad("material.range-units.%s.%s" % (cls.__name__, label.replace(" ", "-")), "stated unit of the validity range differs from the unit of the value the method checks",
                cls=cls.__name__, label=label, stated=stated, checked=u)
        off = C_TO_K if u == "C" else 0.0
        los.append(lo + off)
        his.append(hi + off)
    if not los:
        for key in PROPS[prop]:
            if key in pvt:
                (lo, hi), u = pvt[key]
                off = C_TO_K if str(u).upper().startswith("C") else 0.0
                los.append(lo + off)
                his.append(hi + off)
                break
    if not los:
        return None
    return max(los), min(his)


def in_stated_range(rec):
    return all(lo <= val <= hi for _l, lo, hi, val in rec.calls)


def classes():
    seen = {}
    for cls in materials.iterAllMaterialClassesInNamespace(materials):
        seen[cls.__name__] = cls
    return [seen[k] for k in sorted(seen)]


def run(only=None):
    skipped, unstated, outside, ranges = [], [], 0, {}
    nfluid = nsolid = 0
    for cls in classes():
        name = cls.__name__
        if only and name != only:
            continue
        if name in ABSTRACT or cls.__module__ == materialModule.__name__:
            skipped.append(name)
            continue
        try:
            m = cls()
        except Exception as e:  # noqa
            bad("material.instantiate.%s" % name, "material class cannot be instantiated", cls=name, error=repr(e)[:200])
            continue
        fluid = isinstance(m, materialModule.Fluid)
        nfluid += fluid
        nsolid += not fluid
        rec = Recorder(m)
        for prop in PROPS:
            rng = stated_range(cls, m, rec, prop)
            if rng == "abstract":
                skipped.append("%s.%s" % (name, prop))
                continue
            if rng is None:
                unstated.append("%s.%s" % (name, prop))
                temps = [REF_TK]
            else:
                lo, hi = rng
                if not lo <= hi:
                    bad("material.range-empty.%s.%s" % (name, prop), "the stated ranges the method checks do not intersect", cls=name, prop=prop, lo=lo, hi=hi)
                    continue
                ranges["%s.%s" % (name, prop)] = [round(lo, 2), round(hi, 2)]
                temps = [lo + (hi - lo) * i / (NGRID - 1) for i in range(NGRID)]
                temps[-1] = hi
                temps += [B.rng.uniform(lo, hi) for _ in range(NRANDOM)]
            fails = {}
            for Tk in temps:
                v, err = evaluate(m, rec, prop, Tk)
                if rng is not None and not in_stated_range(rec):
                    # float round-off at the boundary after K <-> C conversion: nudge inside once
                    Tk2 = min(max(Tk, lo + 1e-9 * max(1.0, abs(lo))), hi - 1e-9 * max(1.0, abs(hi)))
                    v, err = evaluate(m, rec, prop, Tk2)
                    if not in_stated_range(rec):
                        outside += 1
                        continue
                    Tk = Tk2
                B.case((name, prop, round(Tk, 6)), {"material": name, "prop": prop, "Tk": Tk, "value": v if isinstance(v, (int, float)) else str(v)})
                if err is not None:
                    kind = ("raises", "property raises inside its stated range: " + err)
                elif v is None or isinstance(v, complex) or not isinstance(v, (int, float)) and not hasattr(v, "__float__"):
                    kind = ("nonfinite", "property is not a real number (%r)" % (v,))
                elif not math.isfinite(float(v)):
                    kind = ("nonfinite", "property is not finite")
                elif prop == "linearExpansionPercent":
                    kind = None if float(v) > -100.0 else ("below-minus100", "linear expansion <= -100 %")
                elif float(v) > 0.0 or (float(v) == 0.0 and name == "Void"):
                    kind = None
                else:
                    kind = ("nonpositive", "density is not positive" + ("" if fluid else " (a component of this solid gets zero / negative number densities)"))
                if kind is None:
                    # components ask with Tc=...: the Celsius form must give the same value as the Kelvin form
                    try:
                        vc = getattr(m, prop)(Tc=Tk - C_TO_K)
                        if not (isinstance(vc, (int, float)) or hasattr(vc, "__float__")) or isinstance(vc, complex) or abs(float(vc) - float(v)) > 1e-9 * max(abs(float(v)), 1e-300) + 1e-15:
                            kind = ("tc-tk-differ", "property(Tc=T-273.15) differs from property(Tk=T): %r vs %r" % (vc, v))
                    except NotImplementedError:
                        pass
                    except Exception as e:  # noqa
                        kind = ("raises-with-Tc", "property raises when asked with Tc= (the way components ask): " + repr(e)[:160])
                if kind:
                    fails.setdefault(kind[0], []).append((Tk, v, kind[1]))
            for k, pts in fails.items():
                stem = {"pseudoDensity": "pseudodensity", "density": "density", "linearExpansionPercent": "expansion"}[prop]
                Tk, v, what = pts[0]
                bad("material.%s-%s.%s" % (stem, k, name), what, cls=name, prop=prop, Tk=Tk, value=v if isinstance(v, (int, float)) else str(v), failingPoints=len(pts),
                    gridPoints=len(temps), solid=not fluid, statedRangeK=list(rng) if rng else None)
    B.extra.update(material_classes=len(classes()), solids=nsolid, fluids=nfluid, skipped_abstract=skipped, unstated_range=unstated,
                   grid_points_outside_stated_range=outside, grid=NGRID, random_points=NRANDOM, ranges_K=ranges)


def main():
    real = sys.stdout
    sys.stdout = io.StringIO()
    try:
        if B.replay is not None:
            run(only=B.replay.get("cls"))
        else:
            run()
    finally:
        sys.stdout = real
    if B.replay is not None:
        vid = B.replay.get("id")
        print(json.dumps({"result": "unsupported" if vid is None else ("fail" if vid in ALL_IDS else "pass"), "id": vid}))
        return
    B.extra["violation_ids_total"] = len(ALL_IDS)
    B.extra["violation_counts"] = dict(sorted(COUNTS.items())[:200])  # every id that fired (the list above is capped at 20)
    B.finish(exhaustive=False)


main()
