"""C05 bounded tier (1/2): parameter value collections through the database encoder/decoder.

Executable contract on the REAL armi functions (nothing copied from them):

  pack      unpackSpecialData(*packSpecialData(arrayData)) through a real in-memory HDF5 dataset, with the attribute
            side channel written by Database._writeAttrs and read by Database._resolveAttrs, gives back the content
            of arrayData up to the documented normalisations, OR the write side raises.
  nonsense  layout.replaceNonsenseWithNones(layout.replaceNonesWithNonsense(x)) == x per dtype.
  jagged    JaggedArray bookkeeping: offsets[k] = sum of sizes before k, len(flat) = total size, shapes, none list,
            and JaggedArray.fromH5(...).unpack() gives the entries back.
  db.params the same collections assigned to a parameter of dummy Composite classes, Database._writeParams into an
            in-memory HDF5 group, Database._readParams into fresh objects; one parameter of each kind on a parent/child
            class pair (db.params.hierarchy); the same objects as children of the smallest test reactor through
            Database.writeToDB -> file in a temporary directory -> Database.load (db.load).

  layout    (part of every clause above) the property speaks about values and shapes, not about how an array happens to lie
            in memory: an array-valued entry that is NOT C-contiguous - Fortran-ordered, a transposed / axes-permuted view
            (table.T), a strided cut of a larger array, negative strides, a block of columns, a broadcast (zero-stride,
            read-only) view - is written and read back exactly like its C-contiguous twin.  Such entries (spec
            ["v", layout, dtype, nested content], see LAYOUT_DOC) go through every path: fixed-shape (typed array), fixed
            shape with unset objects (None rows), ragged / JaggedArray with and without None, 1-d / 2-d / 3-d, float / int /
            bool, pack/unpackSpecialData through HDF5 and Database._writeParams/_readParams, the parent/child pair and
            writeToDB/load; the typed array handed to packSpecialData is also handed over Fortran-ordered and with negative
            strides (forms typed-fortran / typed-reversed).  The expected side is a fresh C-contiguous array made from the JSON
            content alone; the comparison is element by element in LOGICAL order (first index slowest).  Also: 0-d arrays
            (must round-trip as scalars or be rejected at write time), axes of length 1 ((1,3) (3,1) (1,1) (2,1,2) (1,)).

Oracle (property statement, independent of the encoder): the read-back collection has the same length and, entry by
entry, the same value, shape (own recursive walk, not numpy), numeric kind (bool / int / float / str) and None
positions.  Tolerated differences - ONLY the documented normalisations:
  (a) a sequence (list / tuple / array) comes back as an array or list of the same shape;
  (b) an empty sequence entry comes back None;
  (c) NaN is the unset marker for reals: a NaN real may come back None (and None may come back NaN); consequently
      a dict key whose value is NaN may be dropped and an entry whose reals are all NaN may come back None
      (counted in `tolerated`).
Anything else that is not an exception on the write side is a violation.

Violation ids: <clause>.<class>, one failure CLASS per id, with <clause> in {pack, db.params, nonsense, jagged.flat,
jagged.roundtrip}.  Classes with an identified cause keep the same id in every collection:
  sentinel-collision            a value EQUAL to the None marker of a dtype present in the collection (min+2 signed,
                                max-2 unsigned, "<!None!>" str) came back None - documented limitation of the scheme
  unsigned-sentinel             writer and reader disagree on the None marker of ONE unsigned dtype: None came back as a
                                value, or a value that is not the marker came back None
  shape.inner-ragged-flattened  an entry whose inner lists differ in length came back as a flat 1-d array
  jagged-entry-skipped          a collection stored ragged (it holds a list/array) that also holds a str / dict / Flags /
                                numpy scalar other than float64: JaggedArray leaves that entry out, so reading raises
                                "unmatched sizes" / IndexError, or everything comes back None
The other classes are <clause>.<class> in a collection of ONE kind and dtype and <clause>.mixed.<class> in a collection
that mixes kinds or dtypes (decided from the input alone), so that a mixed-kind finding never hides a one-kind failure:
  marker-lost-in-float-promotion  None came back as a value: 64-bit signed and unsigned integers in one column are promoted
                         to float64 before the cast to the first entry's dtype, which moves that dtype's None marker
  none-position          None came back as a value / a value came back None (none of the causes above)
  kind-promotion         bool -> int, bool -> float, int -> float with the same numeric value (1 -> 1.0)
  int-precision-lost     int -> float with another value (2**64-1 -> 1.8446744073709552e19)
  float-to-int           float -> int, same value or truncated (2.5 -> 2): everything is cast to the first entry's type
  int-wrapped            int -> another int (300 -> 44): cast to the first entry's narrower / other-signed dtype
  value-cast-to-sentinel a value that the cast to the first entry's dtype turns into that dtype's None marker -> None
  number-to-str          number / bool -> its string (1 -> '1') because a str is in the collection
  scalar-to-array        a scalar among sequences came back as a 1-element array
  nan-cast-to-int        a NaN inside a float row stored next to int rows came back as -2**63 (direct pack calls only)
  flags-coerced          a Flags object stored as its integer / as an empty dict (direct pack calls only)
  read-error             the write was accepted, reading raises (current tree: only pack.mixed.read-error - a direct pack
                         call on an object array WITHOUT None that holds a Flags object: stored via int(Flags), no
                         "nones" attribute, unpackSpecialData refuses it)
  elements-permuted.<layout>  an array entry came back with the same shape and exactly the same scalars at OTHER positions
                         (e.g. [[1,4],[2,5],[3,6]] -> [[1,2],[3,4],[5,6]]): the encoder walked the entry in memory / column
                         order instead of logical order.  <layout> names the memory layout of the entry that failed:
                         layout-F, layout-T, layout-axes-permuted, layout-strided, layout-F-strided, layout-col, layout-neg,
                         layout-neg-first, layout-neg-last, layout-bcast (see LAYOUT_DOC), or `contiguous` for an ordinary
                         C-contiguous array / list (nothing on the current tree)
  shape, silent-change, entries-dropped   anything else of that nature (nothing on the current tree); shape / silent-change /
                         read-error carry the suffix .layout-<layout> when the failing entry is one of the layout specs (junk
                         from the gaps of a strided view would be silent-change.layout-strided), and pack.* ids carry
                         .typed-fortran / .typed-reversed when only the re-laid-out typed array fails
Further ids: nonsense.values, nonsense.roundtrip (raises, or any other difference); jagged.offsets / .length / .shapes / .nones; jagged.roundtrip
(raises) (these three [.layout-<layout>] likewise); db.params.hierarchy; db.load (for the layout parameters of LAYOUT_PARAMS:
db.params.hierarchy.<class> / db.load.<class>, e.g. db.load.elements-permuted.layout-T); attrs.spill-roundtrip.
Only the smallest failing input of each id is reported (fewest entries, then shortest JSON, then alphabetical - fixed for
a tier, independent of --seed except for the seeded 3-kind mixes of the thorough tier); the number of failing inputs
per id is in `violation_counts`, and `reachable_through_writeParams` says for every pack.* id whether the same class also
fires on the public path (db.params.*).  `--replay '<input>'` re-runs one reported input; `--dump <file>` writes every
failing input.
"""
import sys, os
sys.path.insert(0, os.path.dirname(os.path.abspath(__file__)))
import itertools
import json
import tempfile
import zlib

from common import Bounded

_TMP = tempfile.TemporaryDirectory(prefix="c05_")  # armi creates ./logs on import: keep that out of /verif
os.chdir(_TMP.name)
from common import armi_ready  # noqa: E402

armi_ready()
import numpy as np  # noqa: E402
import h5py  # noqa: E402
from armi import runLog  # noqa: E402
from armi.bookkeeping.db import database, layout  # noqa: E402
from armi.bookkeeping.db.database import Database, unpackSpecialData  # noqa: E402
from armi.bookkeeping.db.jaggedArray import JaggedArray  # noqa: E402
from armi.bookkeeping.db.layout import replaceNonesWithNonsense, replaceNonsenseWithNones  # noqa: E402
from armi.reactor import composites, parameters  # noqa: E402
from armi.reactor.flags import Flags  # noqa: E402
from armi.utils.flags import Flag  # noqa: E402

runLog.setVerbosity("header")  # the encoder logs every rejection; keep stdout for the JSON line

B = Bounded(
    "collections (one entry per object) built from a fixed alphabet of 60+ entry kinds: one-kind (windows of consecutive pool "
    "values, every value in every position) and mixed (every pair of 23 / 36 representative kinds, alternating; thorough adds "
    "20000 seeded random 3-kind mixes), each "
    "combined with EVERY None-position pattern; each collection is evaluated by the pack, nonsense, jagged and db.params "
    "clauses that apply to it; array entries also as NON-C-CONTIGUOUS arrays (Fortran order, transposed / axes-permuted views, "
    "strided cuts, negative strides, column blocks, broadcast views), as 0-d arrays and with axes of length 1, compared with "
    "their C-contiguous twin element by element in logical order; distinct = distinct (clause, form, collection)",
    "entries in {None, python int incl. int8..uint64 extremes, numpy int8..uint64 min/max/sentinel, float incl. +-inf/nan/denormal, "
    "float32/64 scalars, bool, str ascii/unicode/empty, 1-d/2-d arrays (float/int/uint/bool/str; equal and differing shapes), "
    "nested lists equal/ragged/inner-ragged, tuples, empty list/array, dict[str,float], Flags, "
    "1-d/2-d/3-d float/int/bool arrays in 10 memory layouts (F, T, axes-permuted, strided, F-strided, col, neg, neg-first, neg-last, "
    "bcast; equal and differing shapes; also the typed array itself Fortran-ordered / negative-strided), 0-d arrays, unit axes}; "
    "collection length <= 4 quick, "
    "<= 6 thorough; all 2^n None patterns; plus one 9000-entry ragged collection (72 KB attributes), one parameter of each "
    "kind (incl. 4 parameters of non-contiguous arrays: equal shapes, ragged+None, None rows, 3-d) on a parent/child class pair, "
    "and the same through writeToDB/load of the smallest test reactor",
)
N_HOMO = 6 if B.thorough() else 4
N_MIX = 6 if B.thorough() else 4
ROT = 6 if B.thorough() else 3
NAME = "c05val"

# ----------------------------------------------------------------------------------------------------------------
# JSON-able entry specs  <->  python values
# ----------------------------------------------------------------------------------------------------------------
_SPECIAL = {"nan": float("nan"), "inf": float("inf"), "-inf": float("-inf")}


def _dec(x):
    if isinstance(x, list):
        return [_dec(i) for i in x]
    if isinstance(x, str) and x in _SPECIAL:
        return _SPECIAL[x]
    return x


def build(spec):
    if spec is None:
        return None
    t = spec[0]
    if t == "i":
        return int(spec[1])
    if t == "f":
        return float(_dec(spec[1]))
    if t == "b":
        return bool(spec[1])
    if t == "s":
        return str(spec[1])
    if t == "np":
        return np.dtype(spec[1]).type(_dec(spec[2]))
    if t == "a":
        a = np.array(_dec(spec[2]), dtype=spec[1])
        return a.reshape(spec[3]) if len(spec) > 3 else a
    if t == "v":
        return build_view(spec[1], spec[2], spec[3])
    if t == "l":
        return _dec(spec[1])
    if t == "t":
        return tuple(_dec(spec[1]))
    if t == "d":
        return {k: float(_dec(v)) for k, v in spec[1].items()}
    if t == "D":  # a dict that is NOT dict[str, float] (outside the property's quantifier; must be rejected, reaches that branch)
        return dict(spec[1])
    if t == "F":
        f = Flags(0)
        for n in spec[1]:
            f = f | Flags[n]
        return f
    raise ValueError(spec)


# ---- arrays whose MEMORY layout differs from their logical (row-major) content --------------------------------------
# ["v", layout, dtype, nested]: an ndarray whose logical content - what indexing, iteration, tolist() and == see - is the
# nested list `nested` (dtype `dtype`), laid out in memory as `layout` says.  The property speaks about values and
# shapes, never about layouts: every such array must be written and read back exactly like its C-contiguous twin.
LAYOUT_DOC = {
    "C": "C-contiguous array that owns its data (the twin every other layout is compared with)",
    "F": "Fortran (column-major) array that owns its data: np.array(x, order='F')",
    "T": "reversed-axes VIEW of a C-contiguous array, like table.T (column-major memory, does not own its data)",
    "perm": "axes-permuted view of a C-contiguous array: permNNN = x.transpose(NNN) undone logically (neither C nor F for 3-d)",
    "strided": "every second element along every axis of a larger array filled with junk: big[1::2, 1::2]",
    "F-strided": "the same cut out of a larger Fortran-ordered array",
    "col": "a block of columns of a wider C array: big[:, 1:1+n] (rows contiguous, gaps between rows)",
    "neg": "negative strides along every axis: x[::-1, ::-1] of the reversed copy",
    "neg-first": "negative stride along the first axis only",
    "neg-last": "negative stride along the last axis only",
    "bcast": "zero strides, read-only: np.broadcast_to(row, shape) (all rows equal)",
}
LAYOUTS_HIT = {}


def _junk(dtype):
    k = np.dtype(dtype).kind
    return {"f": -777.25, "i": -77, "u": 77, "b": True}.get(k, "JUNK" if k in "US" else None)


def build_view(layout, dtype, nested):
    base = np.array(_dec(nested), dtype=dtype)  # the logical content
    nd = base.ndim
    if layout == "C" or nd == 0:
        a = base
    elif layout == "F":
        a = np.array(base, order="F")
    elif layout == "T":
        a = np.ascontiguousarray(base.T).T
    elif layout.startswith("perm"):
        perm = tuple(int(c) for c in layout[4:])
        assert sorted(perm) == list(range(nd)), layout
        inv = tuple(perm.index(i) for i in range(nd))
        a = np.ascontiguousarray(base.transpose(perm)).transpose(inv)
    elif layout in ("strided", "F-strided"):
        big = np.full(tuple(2 * n + 1 for n in base.shape), _junk(dtype), dtype=base.dtype, order="F" if layout[0] == "F" else "C")
        sl = (slice(1, None, 2),) * nd
        big[sl] = base
        a = big[sl]
    elif layout == "col":
        big = np.full(base.shape[:-1] + (base.shape[-1] + 2,), _junk(dtype), dtype=base.dtype)
        big[..., 1:-1] = base
        a = big[..., 1:-1]
    elif layout in ("neg", "neg-first", "neg-last"):
        rev = slice(None, None, -1)
        sl = {"neg": (rev,) * nd, "neg-first": (rev,), "neg-last": (Ellipsis, rev)}[layout]
        a = np.ascontiguousarray(base[sl])[sl]
    elif layout == "bcast":
        a = np.broadcast_to(base[0], base.shape)
    else:
        raise ValueError("unknown layout %r" % (layout,))
    # self-check of the generator (a failure here is a bug of this script, not a violation): same logical content, element
    # by element THROUGH INDEXING, same shape and dtype
    assert a.shape == base.shape and a.dtype == base.dtype, (layout, a.shape, base.shape)
    for idx in np.ndindex(*base.shape):
        x, y = a[idx], base[idx]
        assert x == y or (x != x and y != y), (layout, idx, x, y)
    tag = layout if not layout.startswith("perm") else "perm"
    fl = a.flags
    hit(LAYOUTS_HIT, "%s: %s" % (tag, "C+F-contiguous" if fl.c_contiguous and fl.f_contiguous else ("C-contiguous" if fl.c_contiguous else ("F-contiguous" if fl.f_contiguous else "non-contiguous"))))
    return a


def twin(spec, entry):
    """The expected side of a comparison: for a layout spec a FRESH C-contiguous array made from the JSON content alone (no
    view, no layout involved); any other entry stands for itself."""
    if spec is not None and spec[0] == "v":
        return np.array(_dec(spec[3]), dtype=spec[2])
    return entry


def layout_suffix(spec, always=False):
    """Circumstance part of an id: the memory layout of the entry at which the comparison failed."""
    if spec is not None and spec[0] == "v":
        return ".layout-" + ("axes-permuted" if spec[1].startswith("perm") else spec[1])
    return ".contiguous" if always else ""


def II(dt):
    return np.iinfo(np.dtype(dt))


INT_DTYPES = ["int8", "int16", "int32", "int64", "uint8", "uint16", "uint32", "uint64"]
KINDS = {}
KINDS["pyint"] = [["i", 0], ["i", 1], ["i", -1], ["i", 7]]
KINDS["pyint-extreme"] = [["i", v] for b in (8, 16, 32, 64) for v in (-(2 ** (b - 1)), 2 ** (b - 1) - 1, 2**b - 1)]
for _dt in INT_DTYPES:
    _i = II(_dt)
    KINDS["np-" + _dt] = [["np", _dt, int(_i.min)], ["np", _dt, int(_i.max)], ["np", _dt, 1], ["np", _dt, 5]]
# the values the encoder uses as None markers (NONE_MAP: min+2 for signed, max-2 for unsigned; decoder: min+2)
for _dt in INT_DTYPES[:4]:
    KINDS["sentinel-" + _dt] = [["np", _dt, int(II(_dt).min) + 2], ["np", _dt, 1]]
for _dt in INT_DTYPES[4:]:
    KINDS["sentinel-" + _dt] = [["np", _dt, int(II(_dt).max) - 2], ["np", _dt, 2], ["np", _dt, 1]]
KINDS["sentinel-str"] = [["s", "<!None!>"], ["s", "abc"]]
KINDS["sentinel-pyint"] = [["i", int(II("int64").min) + 2], ["i", 3]]
KINDS["np-int8+int16+int32+uint8"] = [["np", "int8", 5], ["np", "int16", 300], ["np", "int32", 70000], ["np", "uint8", 200]]
KINDS["float"] = [["f", 0.0], ["f", -1.5], ["f", 1e300], ["f", 5e-324], ["f", "inf"], ["f", "-inf"]]
KINDS["float-nan"] = [["f", "nan"], ["f", 2.5]]
KINDS["np-float64"] = [["np", "float64", 2.5], ["np", "float64", "inf"]]
KINDS["np-float32"] = [["np", "float32", 0.1], ["np", "float32", -3.0]]
KINDS["bool"] = [["b", True], ["b", False]]
KINDS["np-bool"] = [["np", "bool", True], ["np", "bool", False]]
KINDS["str"] = [["s", "abc"], ["s", ""], ["s", "x y"]]
KINDS["str-unicode"] = [["s", "Zré✓"], ["s", "abc"]]
KINDS["arr1f-equal"] = [["a", "float64", [1.0, 2.0, 3.0]], ["a", "float64", [4.0, "inf", -6.5]]]
KINDS["arr1f-ragged"] = [["a", "float64", [1.0, 2.0, 3.0]], ["a", "float64", [7.0]], ["a", "float64", [8.0, 9.0]]]
KINDS["arr1f-nan"] = [["a", "float64", [1.0, "nan"]], ["a", "float64", ["nan", "nan"]], ["a", "float64", [3.0, 4.0]]]
KINDS["arr1i-equal"] = [["a", "int64", [1, 2, 3]], ["a", "int64", [-4, 5, int(II("int64").max)]]]
KINDS["arr1i-ragged"] = [["a", "int64", [1, 2, 3]], ["a", "int64", [4, 5]], ["a", "int64", [6]]]
KINDS["arr1-int64+int32"] = [["a", "int64", [1, 2, 3]], ["a", "int32", [4, 5]]]
KINDS["arr1u8"] = [["a", "uint8", [255, 0]], ["a", "uint8", [1, 7]], ["a", "uint8", [3]]]
KINDS["arr1f32"] = [["a", "float32", [0.1, 2.0]], ["a", "float32", [3.0, 4.5]]]
KINDS["arr2f-equal"] = [["a", "float64", [[1.0, 2.0], [3.0, 4.0]]], ["a", "float64", [[5.0, 6.0], [7.0, 8.5]]]]
KINDS["arr2-ragged"] = [["a", "int64", [[1, 2], [3, 4]]], ["a", "int64", [[1, 2, 3], [4, 5, 6], [7, 8, 9]]], ["a", "int64", [[1], [2]]], ["a", "int64", [[1, 2, 3]]]]
KINDS["arr-mixed-ndim"] = [["a", "float64", [[1.0, 2.0], [3.0, 4.0]]], ["a", "float64", [5.0, 6.0]]]
KINDS["arr-bool"] = [["a", "bool", [True, False]], ["a", "bool", [False, False]], ["a", "bool", [True]]]
KINDS["arr-str"] = [["a", "U", ["a", "bc"]], ["a", "U", ["d", "e"]], ["a", "U", ["f"]]]
KINDS["list-equal"] = [["l", [1, 2]], ["l", [3, 4]]]
KINDS["listf-equal"] = [["l", [1.5, 2.5]], ["l", [0.0, "inf"]]]
KINDS["list2-equal"] = [["l", [[1, 2], [3, 4]]], ["l", [[5, 6], [7, 8]]]]
KINDS["list-ragged"] = [["l", [1]], ["l", [1, 2, 3]], ["l", [4, 5]]]
KINDS["list-inner-ragged"] = [["l", [[1], [2, 3]]], ["l", [[4, 5], [6]]], ["l", [[7]]]]
KINDS["list-int+float"] = [["l", [1, 2]], ["l", [1.5]]]
KINDS["tuple"] = [["t", [1, 2]], ["t", [3, 4]], ["t", [5]]]
KINDS["empty"] = [["l", []], ["a", "float64", []], ["a", "int64", []], ["a", "float64", [], [0, 2]]]
KINDS["arr-zero-width"] = [["a", "float64", [], [2, 0]], ["a", "float64", [[1.0, 2.0]]]]
KINDS["dict"] = [["d", {"a": 1.0}], ["d", {"b": 2.0, "a": -1.5}], ["d", {}], ["d", {"c": "inf", "a": 0.0}]]
KINDS["dict-nan"] = [["d", {"a": "nan", "b": 1.0}], ["d", {"b": 2.0}]]
KINDS["dict+dict-not-float"] = [["D", {"a": None}], ["d", {"a": 1.0}]]
KINDS["flags"] = [["F", ["FUEL"]], ["F", ["FUEL", "INNER"]], ["F", []], ["F", ["A", "B", "CONTROL", "MOVEABLE"]]]
# ---- memory layouts (see LAYOUT_DOC): the same values and shapes as above, but not C-contiguous ----
KINDS["arr2f-layouts-ragged"] = [
    ["v", "T", "float64", [[1.0, 4.0], [2.0, 5.0], [3.0, 6.0]]],
    ["v", "F", "float64", [[10.0, 20.0], [30.0, 40.0]]],
    ["v", "strided", "float64", [[7.0, 8.0, 9.0], [1.5, 2.5, 3.5]]],
    ["v", "neg", "float64", [[1.0, 2.0, 3.0], [4.0, 5.0, 6.0], [7.0, 8.0, 9.0]]],
    ["v", "col", "float64", [[1.0, 2.0], [3.0, 4.0], [5.0, 6.0], [7.0, 8.0]]],
    ["v", "F-strided", "float64", [[0.5, "inf", -2.0]]],
]
KINDS["arr2f-layouts-equal"] = [
    ["v", "T", "float64", [[1.0, 2.0, 3.0], [4.0, 5.0, 6.0]]],
    ["v", "F", "float64", [[7.0, 8.0, 9.0], [10.0, 11.0, 12.0]]],
    ["v", "strided", "float64", [[-1.0, -2.0, -3.0], [-4.0, -5.0, -6.0]]],
    ["v", "neg", "float64", [[0.5, 1.5, 2.5], [3.5, 4.5, 5.5]]],
    ["v", "col", "float64", [[13.0, 14.0, 15.0], [16.0, 17.0, 18.0]]],
    ["v", "bcast", "float64", [[21.0, 22.0, 23.0], [21.0, 22.0, 23.0]]],
]
KINDS["arr2i-layouts-ragged"] = [
    ["v", "T", "int64", [[1, 2], [3, 4], [5, 6]]],
    ["v", "F", "int64", [[7, 8, 9], [10, 11, 12]]],
    ["v", "neg-last", "int64", [[13, 14], [15, 16]]],
    ["v", "neg-first", "int64", [[17, 18, 19, 20], [21, 22, 23, 24]]],
    ["v", "strided", "int64", [[25, 26, 27]]],
]
KINDS["arr2i-layouts-equal"] = [
    ["v", "T", "int64", [[1, 2], [3, 4], [5, 6]]],
    ["v", "F", "int64", [[7, 8], [9, 10], [11, 12]]],
    ["v", "neg", "int64", [[13, 14], [15, 16], [17, 18]]],
    ["v", "F-strided", "int64", [[19, 20], [21, 22], [23, 24]]],
]
KINDS["arr3f-layouts"] = [
    ["v", "perm201", "float64", [[[1.0, 2.0], [3.0, 4.0], [5.0, 6.0]], [[7.0, 8.0], [9.0, 10.0], [11.0, 12.0]]]],
    ["v", "perm102", "float64", [[[1.0, 2.0, 3.0], [4.0, 5.0, 6.0]], [[7.0, 8.0, 9.0], [10.0, 11.0, 12.0]]]],
    ["v", "T", "float64", [[[1.0, 2.0], [3.0, 4.0]], [[5.0, 6.0], [7.0, 8.0]]]],
    ["v", "F", "float64", [[[1.0, 2.0], [3.0, 4.0], [5.0, 6.0]]]],
    ["v", "perm021", "float64", [[[1.0, 2.0], [3.0, 4.0], [5.0, 6.0]], [[7.0, 8.0], [9.0, 10.0], [11.0, 12.0]]]],
]
KINDS["arr1-layouts"] = [
    ["v", "strided", "float64", [1.0, 2.0, 3.0]],
    ["v", "neg", "float64", [4.0, 5.0]],
    ["v", "strided", "float64", [6.0]],
    ["v", "neg", "float64", [7.0, 8.0, 9.0]],
    ["v", "bcast", "float64", [2.5, 2.5]],
]
KINDS["arr1i-layouts-equal"] = [["v", "strided", "int64", [1, 2, 3]], ["v", "neg", "int64", [4, 5, 6]], ["v", "C", "int64", [7, 8, 9]]]
KINDS["arr2b-layouts"] = [
    ["v", "T", "bool", [[True, False], [False, False], [True, True]]],
    ["v", "F", "bool", [[True, False], [False, True]]],
    ["v", "neg", "bool", [[False, True, True], [False, False, True]]],
]
# ---- 0-d arrays and axes of length 1 ----
KINDS["arr-0d"] = [["a", "float64", 2.5], ["a", "float64", -1.0], ["a", "float64", "inf"]]
KINDS["arr-0d-int"] = [["a", "int64", 3], ["a", "int64", -4]]
KINDS["arr-0d+1d"] = [["a", "float64", 2.5], ["a", "float64", [1.0, 2.0]], ["a", "float64", [3.0]]]
KINDS["arr-unit-axis"] = [
    ["a", "float64", [[1.0, 2.0, 3.0]]],
    ["a", "float64", [[4.0], [5.0], [6.0]]],
    ["a", "float64", [[7.0]]],
    ["v", "T", "float64", [[8.0], [9.0]]],
    ["v", "F", "float64", [[1.5, 2.5]]],
]
KINDS["arr-unit-axis-equal"] = [["a", "float64", [[1.0, 2.0, 3.0]]], ["v", "T", "float64", [[4.0, 5.0, 6.0]]], ["a", "float64", [[7.0, 8.0, 9.0]]]]
KINDS["arr3-unit-axis"] = [
    ["a", "float64", [[[1.0, 2.0]], [[3.0, 4.0]]]],
    ["a", "float64", [[[5.0], [6.0]]]],
    ["a", "float64", [[[7.0]]]],
    ["v", "perm201", "float64", [[[1.0, 2.0, 3.0]], [[4.0, 5.0, 6.0]]]],
]
KINDS["arr1-len1"] = [["a", "float64", [1.0]], ["a", "float64", [2.0]], ["v", "neg", "float64", [3.0]]]
# one representative per region of the encoder's decision space, for the mixed-kind collections
MIX_KINDS = ["pyint", "pyint-extreme", "np-int8", "np-uint8", "np-uint64", "float", "float-nan", "np-float32", "bool", "str",
             "arr1f-equal", "arr1f-ragged", "arr1i-equal", "arr2f-equal", "arr2-ragged", "list-equal", "list-ragged", "tuple",
             "empty", "dict", "flags", "arr1f-nan", "arr-str", "arr2f-layouts-ragged"]
if B.thorough():
    MIX_KINDS += ["np-int64", "np-uint16", "np-float64", "np-bool", "str-unicode", "arr1u8", "arr-bool", "list2-equal",
                  "list-inner-ragged", "dict-nan", "sentinel-int8", "sentinel-uint8", "arr-zero-width",
                  "arr2f-layouts-equal", "arr2i-layouts-ragged", "arr3f-layouts", "arr1-layouts", "arr-0d", "arr-unit-axis"]


def collections():
    """Yield (tag, [spec...])."""
    for kname, pool in KINDS.items():
        for n in range(1, N_HOMO + 1):
            for mask in itertools.product((0, 1), repeat=n):
                k = n - sum(mask)
                # windows of k consecutive pool values: every start for small pools, every k-th start for large ones, so
                # that every value of the pool occurs for every n and every None pattern
                starts = range(len(pool)) if len(pool) <= ROT else range(0, len(pool), max(1, k))
                for r in (starts if k else [0]):
                    it = iter(range(k))
                    yield kname, [None if m else pool[(r + next(it)) % len(pool)] for m in mask]
    for k1, k2 in itertools.combinations(MIX_KINDS, 2):
        p = (KINDS[k1], KINDS[k2])
        for n in range(2, N_MIX + 1):
            for mask in itertools.product((0, 1), repeat=n):
                if n - sum(mask) < 2:
                    continue
                for start in (0, 1):
                    r = zlib.crc32(("%s|%s|%s|%d" % (k1, k2, mask, start)).encode()) % 12  # fixed, independent of seed and tier
                    out, j = [], 0
                    for m in mask:
                        if m:
                            out.append(None)
                        else:
                            pool = p[(start + j) % 2]
                            out.append(pool[(r + j // 2) % len(pool)])
                            j += 1
                    yield k1 + "+" + k2, out
    if B.thorough():
        names = list(KINDS)
        for _ in range(20000):
            ks = B.rng.sample(names, 3)
            n = B.rng.randint(3, N_HOMO)
            yield "+".join(ks), [None if B.rng.random() < 0.25 else B.rng.choice(KINDS[B.rng.choice(ks)]) for _ in range(n)]


# ----------------------------------------------------------------------------------------------------------------
# the oracle: own structural comparison (no numpy coercion of the expected side)
# ----------------------------------------------------------------------------------------------------------------
def is_seq(x):
    return isinstance(x, (list, tuple)) or (isinstance(x, np.ndarray) and x.ndim > 0)


def children(x):
    return list(x)


def kind(x):
    if isinstance(x, (bool, np.bool_)):
        return "bool"
    if isinstance(x, (int, np.integer)):
        return "int"
    if isinstance(x, (float, np.floating)):
        return "float"
    if isinstance(x, str):
        return "str"
    return type(x).__name__


def native(x):
    if isinstance(x, np.ndarray) and x.ndim == 0:
        x = x[()]
    return x.item() if isinstance(x, np.generic) else x


def isnan(x):
    return isinstance(x, (float, np.floating)) and x != x


def leaves(x):
    """The scalars of an entry in LOGICAL order (first index slowest), whatever the memory layout: tolist() nests by index."""
    if is_seq(x):
        if isinstance(x, np.ndarray) and x.dtype != object:
            return leaves(x.tolist()) if x.ndim > 1 else x.tolist()
        return [lf for c in children(x) for lf in leaves(c)]
    return [native(x)]


def permuted(le, la):
    """Same scalars (kind and value), another order."""
    def key(x):
        x = native(x)
        return (kind(x), repr(x))

    return len(le) == len(la) and len(le) > 1 and sorted(map(key, le)) == sorted(map(key, la))


def sig(x):
    """Nesting signature: shape for rectangular data, and also defined for inner-ragged lists."""
    if isinstance(x, np.ndarray) and x.ndim > 0 and x.dtype != object:
        s = "."
        for n in reversed(x.shape):
            s = (s,) * n
        return s
    if is_seq(x):
        return tuple(sig(c) for c in children(x))
    return "."


# Result of comparing one expected leaf / entry with what was read: (coarse, detail).  coarse orders severity; detail names
# the observable failure class (one class per id).
RANK = {"ok": 0, "kind": 1, "shape": 2, "none": 3, "value": 4}
OK = ("ok", "")
TOL = {}


def tol(what):
    TOL[what] = TOL.get(what, 0) + 1


def leaf_cmp(e, a):
    e, a = native(e), native(a)
    if e is None:
        if a is None:
            return OK
        if isnan(a):
            tol("None->NaN")
            return OK
        return ("none", "none-became-value")
    if isnan(e):
        if a is None:
            tol("NaN->None")
            return OK
        if isnan(a):
            return OK
        return ("value", "number-to-str" if isinstance(a, str) else ("nan-cast-to-int" if kind(a) == "int" else "silent-change"))
    if a is None:
        return ("none", "value-became-none")
    ke, ka = kind(e), kind(a)
    if ke == ka:
        if e == a:
            return OK
        return ("value", "int-wrapped" if ke == "int" else "silent-change")
    num = ("bool", "int", "float")
    if ke in num and ka in num:  # python compares bool/int/float exactly
        if ke == "float":  # float -> int / bool: demotion, value kept (-3.0 -> -3) or truncated (2.5 -> 2)
            return ("kind" if e == a else "value", "float-to-int")
        if e == a:
            return ("kind", "kind-promotion")  # bool -> int, bool -> float, int -> float with the same numeric value
        return ("value", "int-precision-lost" if ka == "float" else "silent-change")
    if ke in num and ka == "str":
        return ("value", "number-to-str")
    return ("value", "silent-change")


def worst(rs):
    return max(rs, key=lambda r: RANK[r[0]]) if rs else OK


def own_shape(x):
    """Shape by an own walk; None when the entry is not rectangular (inner-ragged)."""
    if isinstance(x, np.ndarray):
        return tuple(x.shape)
    if not isinstance(x, (list, tuple)):
        return ()
    subs = [own_shape(c) for c in x]
    if not subs:
        return (0,)
    if any(s is None for s in subs) or len(set(subs)) != 1:
        return None
    return (len(x),) + subs[0]


def entry_cmp(e, a):
    if isinstance(e, Flag):
        if a is None:
            return ("none", "value-became-none")
        if not isinstance(a, Flag):
            return ("value", "flags-coerced")  # a Flags object stored as its integer / as an empty dict
        return OK if type(a) is type(e) and e._flagsOn() == a._flagsOn() else ("value", "silent-change")
    if isinstance(e, dict):
        if not isinstance(a, dict):
            return ("none", "value-became-none") if a is None else ("value", "silent-change")
        ee = {str(k): v for k, v in e.items() if not isnan(v)}
        if len(ee) != len(e):
            tol("dict NaN value->key dropped")
        aa = {str(k): v for k, v in a.items()}
        if set(ee) != set(aa):
            return ("value", "silent-change")
        return worst([leaf_cmp(ee[k], aa[k]) for k in ee])
    if is_seq(e):
        le = leaves(e)
        if not le:  # an empty entry
            if a is None:
                tol("empty->None")
                return OK
            return OK if is_seq(a) and not leaves(a) else ("value", "silent-change")
        if a is None:
            if all(isnan(x) for x in le):
                tol("all-NaN entry->None")
                return OK
            return ("none", "value-became-none")
        if not is_seq(a):
            return ("shape", "shape") if len(le) == 1 and leaf_cmp(le[0], a)[0] in ("ok", "kind") else ("value", "silent-change")
        la = leaves(a)
        if len(la) != len(le):
            return ("value", "silent-change")
        r = worst([leaf_cmp(x, y) for x, y in zip(le, la)])
        if sig(e) != sig(a) and RANK[r[0]] < RANK["shape"]:
            return ("shape", "shape.inner-ragged-flattened" if own_shape(e) is None and own_shape(a) == (len(le),) else "shape")
        if r[0] in ("none", "value") and permuted(le, la):
            return ("value", "elements-permuted")  # every scalar of the entry is there, at another position
        return r
    # scalar or None expected
    if is_seq(a):
        la = leaves(a)
        if e is None:
            return ("none", "none-became-value")
        if len(la) != 1:
            return ("value", "silent-change")
        r = leaf_cmp(e, la[0])
        return ("shape", "scalar-to-array") if r[0] in ("ok", "kind") else r
    if isinstance(a, (dict, Flag)):
        return ("none", "none-became-value") if e is None else ("value", "silent-change")
    return leaf_cmp(e, a)


# ---- attribution of a failure to its class (used only to choose the id; pass/fail is decided above) ---------------
def sentinel_of(x):
    """The value the encoder stores for None next to data of x's type (layout.NONE_MAP as documented: min+2 for signed,
    max-2 for unsigned, "<!None!>" for str; NaN for reals is a documented normalisation, not a collision)."""
    if isinstance(x, (bool, np.bool_)):
        return None
    if isinstance(x, np.ndarray):
        x = x.dtype.type(0) if x.dtype.kind in "iu" else None
    if isinstance(x, np.signedinteger):
        return int(np.iinfo(x.dtype).min) + 2
    if isinstance(x, np.unsignedinteger):
        return int(np.iinfo(x.dtype).max) - 2
    if isinstance(x, int):
        return int(np.iinfo(np.int64).min) + 2
    if isinstance(x, str):
        return "<!None!>"
    return None


def one_unsigned_dtype(nonNone):
    uns = [e for e in nonNone if isinstance(e, np.unsignedinteger) or (isinstance(e, np.ndarray) and e.dtype.kind == "u")]
    return bool(nonNone) and len(uns) == len(nonNone) and len({e.dtype for e in uns}) == 1


def has_skippable_entry(entries):
    """A collection that is stored ragged (it holds a list / array) AND holds an entry that is neither a sequence nor a
    python int / float (str, dict, Flags, numpy scalars other than float64): JaggedArray.__init__ leaves such entries out."""
    return any(isinstance(e, (list, np.ndarray)) for e in entries) and any(
        e is not None and not is_seq(e) and not isinstance(e, (int, float)) for e in entries)


def cast_hits_sentinel(ev, nonNone):
    """Attribution only: the encoder casts every entry to the type of the first one; does that turn ev into that type's marker?"""
    first = nonNone[0]
    if not isinstance(first, np.integer) or not isinstance(native(ev), (int, float)) or isinstance(native(ev), bool):
        return False
    try:
        box = np.empty(1, dtype=object)
        box[0] = ev
        with np.errstate(all="ignore"):
            return int(box.astype(first.dtype)[0]) == sentinel_of(first)
    except Exception:
        return False


def marker_lost_in_promotion(expected, nonNone):
    """Attribution only: a column of 64-bit signed AND unsigned integers is promoted to float64 by numpy before the cast to
    the first entry's dtype; the None marker of that dtype (min+2 / max-2) is not a float64 value, so it comes back as another
    integer and the reader does not recognise it."""
    first = nonNone[0]
    m = sentinel_of(first)
    if not isinstance(m, int) or isinstance(first, int):
        return False
    dt = np.asarray(first).dtype
    try:
        with np.errstate(all="ignore"):
            col = np.array([np.asarray(x) if x is not None else np.asarray(m, dtype=dt) for x in expected])
            if col.dtype.kind != "f":
                return False
            back = col.astype(dt)
        return any(x is None and int(back[i]) != m for i, x in enumerate(expected))
    except Exception:
        return False


ROOT_CAUSE = ("sentinel-collision", "unsigned-sentinel", "shape.inner-ragged-flattened", "jagged-entry-skipped")


def classify(expected, i, e, r):
    coarse, detail = r
    nonNone = [x for x in expected if x is not None]
    if coarse == "none":
        if detail == "value-became-none":
            sentinels = {sentinel_of(x) for x in nonNone} - {None}
            ev = native(e)
            if not is_seq(e) and not isinstance(ev, bool) and isinstance(ev, (int, str)) and ev in sentinels:
                return "sentinel-collision"
            if has_skippable_entry(expected):
                return "jagged-entry-skipped"
            if cast_hits_sentinel(e, nonNone):
                return "value-cast-to-sentinel"
        if detail == "none-became-value" and marker_lost_in_promotion(expected, nonNone):
            return "marker-lost-in-float-promotion"
        if one_unsigned_dtype(nonNone):
            return "unsigned-sentinel"  # writer and reader disagree on the None marker of an unsigned dtype
        return "none-position"
    return detail


LAYOUT_CLASSES = ("elements-permuted", "silent-change", "shape", "read-error")


def with_layout(cls, spec):
    """<class>[.layout-<memory layout of the entry that failed>]: elements-permuted always names the layout (.contiguous for an
    ordinary array / list); silent-change, shape and read-error only when the entry is one of the layout specs (so the ids of
    ordinary inputs stay what they were)."""
    if cls in LAYOUT_CLASSES:
        return cls + layout_suffix(spec, always=cls == "elements-permuted")
    return cls


def compare(expected, actual, specs=None):
    """Return {failure class: first index}; empty = equal up to the documented normalisations."""
    out = {}
    if len(expected) != len(actual):
        return {"jagged-entry-skipped" if has_skippable_entry(expected) else "entries-dropped": -1}
    for i, (e, a) in enumerate(zip(expected, actual)):
        r = entry_cmp(e, a)
        if r[0] != "ok":
            cls = classify(expected, i, e, r)
            out.setdefault(with_layout(cls, specs[i] if specs is not None and i < len(specs) else None), i)
    return out


def first_layout_spec(specs):
    """For failures of a whole collection (reading raises): the first entry that is not an ordinary contiguous array."""
    for sp in specs:
        if sp is not None and sp[0] == "v" and sp[1] != "C":
            return sp
    return None


def spec_kind(s):
    if s[0] == "v":
        return "a:" + s[2]  # an array of that dtype: the memory layout is not a kind
    if s[0] in ("np", "a"):
        return s[0] + ":" + s[1]
    if s[0] in ("l", "t"):
        return s[0] + ":" + ",".join(sorted({kind(x) for x in leaves(_dec(s[1]))}))
    return s[0]


def root_class(cls):
    return cls.split(".layout-")[0]


def is_mixed(specs):
    """More than one kind / dtype among the non-None entries (decided from the input alone, so a replay gives the same id)."""
    return len({spec_kind(s) for s in specs if s is not None}) > 1


# ----------------------------------------------------------------------------------------------------------------
# bookkeeping of violations (smallest input per id), strategies, rejections
# ----------------------------------------------------------------------------------------------------------------
VIOL = {}
VCOUNT = {}
STRAT = {}
REJECT = {}
ROUTES = {}


def short(x, n=300):
    s = repr(x)
    return s if len(s) <= n else s[:n] + "..."


DUMP = [] if "--dump" in sys.argv else None  # --dump <file>: every failing input, one JSON line each (debugging aid)


def vid_of(clause, cls, specs):
    """<clause>.<class> for failures with an identified cause or in one-kind collections, <clause>.mixed.<class> otherwise."""
    if root_class(cls) in ROOT_CAUSE or not is_mixed(specs):
        return clause + "." + cls
    return clause + ".mixed." + cls


def flag(vid, what, inp):
    VCOUNT[vid] = VCOUNT.get(vid, 0) + 1
    if DUMP is not None:
        DUMP.append({"id": vid, "what": what, "input": inp})
    js = json.dumps(inp, default=str)
    size = (len(inp.get("entries", [])), len(js), js)  # deterministic: fewest entries, then shortest, then alphabetical
    if vid not in VIOL or size < VIOL[vid][0]:
        VIOL[vid] = (size, what, inp)


def hit(d, k):
    d[k] = d.get(k, 0) + 1


def strategy(arrayData, data, attrs, exc):
    """Which branch of packSpecialData was taken, inferred from its observable result."""
    if exc is not None:
        msg = str(exc)
        if "Unable to coerce dictionary" in msg:
            return "dict:rejected-non-numeric"
        if "Could not determine None replacement" in msg:
            return "sentinel:rejected-no-sentinel-for-type"
        if "Could not coerce data" in msg:
            return "sentinel:rejected-coercion"
        if "Failed to convert data to valid HDF5 type" in msg:
            return "sentinel:rejected-object-result"
        if "did not resolve to a numpy/HDF5" in msg or "Failed to process special data" in msg:
            return "final-raise"
        return "raised:" + type(exc).__name__
    if not attrs:
        return "passthrough-typed-array"
    if data is None:
        return "all-none-skipped"
    if attrs.get("dict"):
        return "dict"
    if attrs.get("jagged"):
        return "jagged" + ("+nones" if len(attrs["noneLocations"]) else "")
    if data.ndim > 1:
        return "array-entries" + ("+nones-as-sentinel-rows" if attrs.get("nones") else "")
    return "scalars-1d" + ("+nones-as-sentinel" if attrs.get("nones") else "-object-no-none")


_realPack = database.packSpecialData


def spyPack(arrayData, paramName):
    """Observation only: the real function runs unchanged; records the branch taken on the db.params path."""
    try:
        data, attrs = _realPack(arrayData, paramName)
    except Exception as e:
        hit(STRAT, "db:" + strategy(arrayData, None, None, e))
        raise
    hit(STRAT, "db:" + strategy(arrayData, data, attrs, None))
    return data, attrs


database.packSpecialData = spyPack


class H5:
    """In-memory HDF5 file, recycled so that deleted groups do not pile up."""

    def __init__(self):
        self.f, self.n = None, 0

    def group(self):
        if self.f is None or self.n % 1500 == 0:
            if self.f is not None:
                self.f.close()
            self.f = h5py.File("c05-%d.h5" % self.n, "w", driver="core", backing_store=False)
        self.n += 1
        return self.f.create_group("c%06d" % self.n)

    def drop(self, g):
        del self.f[g.name]


H = H5()

# ----------------------------------------------------------------------------------------------------------------
# clause pack: packSpecialData -> dataset + _writeAttrs | dataset -> _resolveAttrs -> unpackSpecialData
# ----------------------------------------------------------------------------------------------------------------
def pack_roundtrip(arrayData, n):
    """Return ("rejected", exc) | ("read-error", exc) | ("ok", list of n entries)."""
    g = H.group()
    try:
        try:
            if isinstance(arrayData, np.ndarray) and arrayData.dtype.kind == "U":
                arrayData = arrayData.astype("S")  # as _writeParams does before packing
            data, attrs = _realPack(arrayData, NAME)
        except Exception as e:
            hit(STRAT, "pack:" + strategy(arrayData, None, None, e))
            return "rejected", e
        hit(STRAT, "pack:" + strategy(arrayData, data, attrs, None))
        if data is None:  # _writeParams: nothing is stored, every object keeps the default (None)
            return "ok", [None] * n
        try:
            ds = g.create_dataset(NAME, data=data, compression="gzip", track_order=True)
            if any(attrs):
                Database._writeAttrs(ds, g, attrs)
        except Exception as e:
            hit(STRAT, "pack:h5py-rejected:" + type(e).__name__)
            return "rejected", e
        if any(isinstance(v, str) and v.startswith("@") for v in ds.attrs.values()):
            hit(STRAT, "attrs:spilled-to-dataset")
        try:
            raw = g[NAME][:]
            rattrs = Database._resolveAttrs(g[NAME].attrs, g)
            if raw.dtype.type is np.bytes_:
                raw = np.char.decode(raw)
            out = unpackSpecialData(raw, rattrs, NAME)  # short-circuits itself when no special formatting was applied
            return "ok", out.tolist()
        except Exception as e:
            return "read-error", e
    finally:
        H.drop(g)


def object_array(entries):
    a = np.empty(len(entries), dtype=object)
    for i, e in enumerate(entries):
        a[i] = e
    return a


def check_pack(specs, entries, exps=None):
    exps = entries if exps is None else exps  # the expected side: layout specs are compared with their C-contiguous twin
    forms = []
    nonNone = [e for e in entries if e is not None]
    if any(e is None or isinstance(e, (dict, Flag)) for e in entries):
        forms.append("object")  # what numpy itself makes of a list holding None / dict / other objects: a 1-d object array
    if nonNone and all(is_seq(e) for e in nonNone):
        forms.append("jagged")
    if nonNone and len(nonNone) == len(entries) and not any(isinstance(e, (dict, Flag)) for e in entries):
        forms.append("typed")
        if all(isinstance(e, np.ndarray) and e.ndim >= 1 and e.size > 1 for e in entries):
            # the typed array handed to pack (and by pack straight to HDF5) in another memory layout
            forms += ["typed-fortran", "typed-reversed"]
    for form in forms:
        inp = {"clause": "pack", "form": form, "entries": specs}
        try:
            if form == "object":
                arr = object_array(entries)
                expected = list(exps)
            elif form == "jagged":
                arr = JaggedArray(entries, NAME)
                expected = list(exps)
            else:
                arr = np.array(entries)
                if arr.dtype == object:
                    continue
                expected = list(np.array(exps))  # clause is about pack/unpack: expected = content of the array handed to pack
                if form == "typed-fortran":
                    arr = np.asfortranarray(arr)
                elif form == "typed-reversed":
                    arr = np.ascontiguousarray(arr[::-1, ..., ::-1])[::-1, ..., ::-1]
        except Exception as e:  # numpy / JaggedArray refuse to build the container: rejected before pack
            hit(REJECT, "pack/%s container: %s" % (form, type(e).__name__))
            continue
        if form.startswith("typed-"):  # self-check of this script: the same logical array, another layout
            assert len(arr) == len(expected) and all(np.array_equal(x, y, equal_nan=x.dtype.kind == "f") for x, y in zip(arr, expected)), form
            hit(LAYOUTS_HIT, "%s: %s" % (form, "C-contiguous" if arr.flags.c_contiguous else ("F-contiguous" if arr.flags.f_contiguous else "non-contiguous")))
        B.case(("pack", form, json.dumps(specs)), inp)
        st, res = pack_roundtrip(arr, len(entries))
        if st == "rejected":
            hit(REJECT, "pack/%s: %s" % (form, type(res).__name__))
            continue
        circ = "" if form in ("object", "jagged", "typed") else "." + form  # the circumstance is part of the id
        if st == "read-error":
            flag(vid_of("pack", with_layout("read-error", first_layout_spec(specs)) + circ, specs), "pack accepted the data but reading it back raised %s" % short(res, 160), inp)
            continue
        for cls, i in compare(expected, res, specs).items():
            flag(vid_of("pack", cls + circ, specs), "unpack(pack(x)) differs from x at entry %d: wrote %s, read %s" % (i, short(expected, 200), short(res, 200)), inp)


# ----------------------------------------------------------------------------------------------------------------
# clause nonsense: replaceNonesWithNonsense / replaceNonsenseWithNones inverse per dtype
# ----------------------------------------------------------------------------------------------------------------
def check_nonsense(specs, entries, exps=None):
    exps = entries if exps is None else exps
    nonNone = [e for e in entries if e is not None]
    if any(isinstance(e, (dict, Flag)) for e in nonNone):
        return
    if any(is_seq(e) for e in nonNone):
        if not all(isinstance(e, np.ndarray) and e.size for e in nonNone) or len({e.shape for e in nonNone}) != 1 or len({e.dtype for e in nonNone}) != 1:
            return  # documented domain: None or equal, storable arrays
    elif len({(type(e), getattr(e, "dtype", None)) for e in nonNone}) > 1:
        return  # one dtype per call (per-dtype inverse); 0-d arrays: all ndarray, so the dtype decides
    inp = {"clause": "nonsense", "entries": specs}
    B.case(("nonsense", json.dumps(specs)), inp)
    data = object_array(entries)
    nones = np.where([d is None for d in data])[0]
    try:
        enc = replaceNonesWithNonsense(data.copy(), NAME, nones) if len(entries) % 2 else replaceNonesWithNonsense(data.copy(), NAME)
    except (TypeError, ValueError) as e:
        hit(REJECT, "nonsense: %s" % type(e).__name__)
        return
    if enc.dtype.kind == "O" or len(enc) != len(entries):
        flag("nonsense.values", "encoded array is not a typed array of the same length: %s" % short(enc), inp)
        return
    bad = [i for i, e in enumerate(exps) if e is not None and entry_cmp(e, enc[i])[0] != "ok"]
    if bad:
        flag("nonsense.values" + layout_suffix(specs[bad[0]]), "replaceNonesWithNonsense changed a non-None entry: %s -> %s" % (short(exps), short(enc)), inp)
        return
    try:
        dec = replaceNonsenseWithNones(enc, NAME)
    except Exception as e:
        flag("nonsense.roundtrip", "replaceNonsenseWithNones raised on the output of replaceNonesWithNonsense: %s" % short(e), inp)
        return
    diff = compare(list(exps), list(dec), specs)
    for cls, i in diff.items():
        vid = {"unsigned-sentinel": "nonsense.unsigned-sentinel", "sentinel-collision": "nonsense.sentinel-collision"}.get(cls, "nonsense.roundtrip" + layout_suffix(specs[i]))  # one dtype per call: never mixed
        flag(vid, "replaceNonsenseWithNones(replaceNonesWithNonsense(x)) != x (%s) at %d: x=%s encoded=%s decoded=%s" % (cls, i, short(entries, 150), short(enc, 150), short(dec, 150)), inp)


# ----------------------------------------------------------------------------------------------------------------
# clause jagged: offsets / shapes / nones bookkeeping and fromH5().unpack()
# ----------------------------------------------------------------------------------------------------------------
def check_jagged(specs, entries, exps=None):
    exps = entries if exps is None else exps
    nonNone = [e for e in entries if e is not None]
    if not nonNone or not all(is_seq(e) for e in nonNone):
        return  # documented domain of JaggedArray: a list of arrays / lists / tuples (and None)
    inp = {"clause": "jagged", "entries": specs}
    B.case(("jagged", json.dumps(specs)), inp)
    try:
        ja = JaggedArray(entries, NAME)
    except Exception as e:
        hit(REJECT, "jagged: %s" % type(e).__name__)
        return
    kept = [(i, e) for i, e in enumerate(entries) if e is not None and len(e) > 0]
    sizes = [len(leaves(e)) for _, e in kept]
    expOffsets = [sum(sizes[:k]) for k in range(len(sizes))]
    expNones = [i for i, e in enumerate(entries) if e is None or len(e) == 0]
    if list(np.asarray(ja.offsets).tolist()) != expOffsets:
        flag("jagged.offsets", "offsets[k] != sum of sizes before k: offsets=%s sizes=%s" % (short(ja.offsets), sizes), inp)
    if len(ja.flattenedArray) != sum(sizes) or ja.flattenedArray.ndim != 1:
        flag("jagged.length", "len(flattenedArray)=%s != total size %d" % (ja.flattenedArray.shape, sum(sizes)), inp)
    if list(np.asarray(ja.nones).tolist()) != expNones:
        flag("jagged.nones", "nones=%s expected %s" % (short(ja.nones), expNones), inp)
    shp = [own_shape(e) for _, e in kept]
    got = [tuple(int(v) for v in np.atleast_1d(s)) for s in ja.shapes]
    if all(s is not None for s in shp):
        if got != shp:
            flag("jagged.shapes", "shapes=%s expected %s" % (got, shp), inp)
    elif [int(np.prod(s)) for s in got] != sizes:
        flag("jagged.shapes", "shape products %s != sizes %s" % (got, sizes), inp)
    flat = [lf for i, _ in kept for lf in leaves(exps[i])]  # entry after entry, each in logical (first index slowest) order
    flatCls = None
    if len(flat) == len(ja.flattenedArray):
        got = ja.flattenedArray.tolist()
        w = worst([leaf_cmp(x, y) for x, y in zip(flat, got)])
        if w[0] in ("none", "value"):  # a changed value in the flat array; promotion to one dtype with equal values is not reported here
            flatCls = w[1]
            # the first entry whose own stretch of the flat array is wrong: are its scalars all there, in another order?
            for k, (i, _) in enumerate(kept):
                seg = slice(expOffsets[k], expOffsets[k] + sizes[k])
                ws = worst([leaf_cmp(x, y) for x, y in zip(flat[seg], got[seg])])
                if ws[0] in ("none", "value"):
                    if ws[1] == w[1]:
                        flatCls = with_layout("elements-permuted" if permuted(flat[seg], got[seg]) else w[1], specs[i])
                    break
            flag(vid_of("jagged", "flat." + flatCls, specs), "flattenedArray is not the concatenation of the entries in logical order (%s): %s vs %s" % (flatCls, short(ja.flattenedArray), short(flat)), inp)
    try:
        back = JaggedArray.fromH5(ja.flattenedArray, ja.offsets, ja.shapes, ja.nones, ja.dtype, NAME).unpack()
    except Exception as e:
        flag("jagged.roundtrip" + layout_suffix(first_layout_spec(specs)), "fromH5(...).unpack() raised %s" % short(e), inp)
        return
    diff = compare(list(exps), list(back), specs)
    diff.pop(flatCls, None)  # already reported on the flat array: unpack() only hands that content back
    diff.pop("kind-promotion", None)  # one flat array has one dtype: promotion is reported by the pack / db.params clauses
    if "shape.inner-ragged-flattened" in diff:
        # JaggedArray's own docstring: "No structure is retained from nested lists of jagged lists" - at the level of this
        # class the flattening is documented; the property-level clauses (pack / db.params) still report it
        diff.pop("shape.inner-ragged-flattened")
        hit(TOL, "jagged clause only: inner-ragged entry flattened (documented in JaggedArray)")
    for cls, i in diff.items():
        flag(vid_of("jagged", "roundtrip." + cls, specs), "fromH5(...).unpack() differs from the entries (%s) at %d: %s vs %s" % (cls, i, short(entries, 200), short(back, 200)), inp)


# ----------------------------------------------------------------------------------------------------------------
# clause db.params: Database._writeParams / _readParams on dummy composites
# ----------------------------------------------------------------------------------------------------------------
def _pdefs(names):
    pDefs = parameters.ParameterDefinitionCollection()
    with pDefs.createBuilder(default=None, saveToDB=True, location=parameters.ParamLocation.AVERAGE) as pb:
        for n in names:
            pb.defParam(n, units="", description="C05 bounded-tier dummy parameter")
    return pDefs


class C05Obj(composites.Composite):
    """One free parameter: the enumerated collections go through it."""

    pDefs = _pdefs([NAME])


class C05Parent(composites.Composite):
    pDefs = _pdefs(["c05Int", "c05Float", "c05Bool", "c05Str"])


# parameters whose per-object values are arrays in other memory layouts (equal shapes / ragged with an unset object / equal
# shapes with unset objects / 3-d / int): on the parent/child pair and through writeToDB/load
LAYOUT_PARAMS = {
    "c05ArrLayouts": [["v", "T", "float64", [[1.0, 2.0, 3.0], [4.0, 5.0, 6.0]]], ["v", "F", "float64", [[7.0, 8.0, 9.0], [10.0, 11.0, 12.0]]],
                      ["v", "strided", "float64", [[-1.0, -2.0, -3.0], [-4.0, -5.0, -6.0]]], ["v", "neg", "float64", [[0.5, 1.5, 2.5], [3.5, 4.5, 5.5]]]],
    "c05JagLayouts": [["v", "T", "float64", [[1.0, 4.0], [2.0, 5.0], [3.0, 6.0]]], ["v", "F", "float64", [[10.0, 20.0], [30.0, 40.0]]], None,
                      ["v", "col", "float64", [[7.0, 8.0, 9.0]]]],
    "c05ArrLayoutsNone": [["v", "F", "int64", [[1, 2], [3, 4], [5, 6]]], None, ["v", "T", "int64", [[7, 8], [9, 10], [11, 12]]], None],
    "c05Jag3Layouts": [["v", "perm201", "float64", [[[1.0, 2.0], [3.0, 4.0], [5.0, 6.0]], [[7.0, 8.0], [9.0, 10.0], [11.0, 12.0]]]],
                       ["v", "T", "float64", [[[1.0, 2.0], [3.0, 4.0]], [[5.0, 6.0], [7.0, 8.0]]]], ["v", "F", "float64", [[[1.0, 2.0, 3.0]]]],
                       ["v", "perm021", "float64", [[[1.0, 2.0]], [[3.0, 4.0]]]]],
}


class C05Child(C05Parent):
    pDefs = _pdefs(["c05Arr", "c05Arr2", "c05Jag", "c05List", "c05Dict", "c05IntNone", "c05FloatNone", "c05ArrNone", "c05AllNone"] + sorted(LAYOUT_PARAMS))


DB = Database("c05-unused.h5", "w")  # never opened: _writeParams only needs the instance


def db_roundtrip(cls, assign, n):
    """assign: {param name: n values}.  Return ("rejected"|"read-error", exc) or ("ok", {param: n values})."""
    comps = [cls("w%d" % i) for i in range(n)]
    for pname, vals in assign.items():
        for c, v in zip(comps, vals):
            c.p[pname] = v
    g = H.group()
    try:
        try:
            DB._writeParams(g, comps)
        except Exception as e:
            return "rejected", e
        fresh = [cls("r%d" % i) for i in range(n)]
        try:
            Database._readParams(g, cls.__name__, fresh)
        except Exception as e:
            return "read-error", e
        names = set(g[cls.__name__].keys())
        for pname in assign:
            hit(ROUTES, "stored" if pname in names else "not-stored(all None)")
            if pname in names:
                at = g[cls.__name__][pname].attrs
                hit(ROUTES, "serializer" if "serializerName" in at else ("special" if at.get("specialFormatting", False) else "plain-typed-dataset"))
        return "ok", {pname: [c.p[pname] for c in fresh] for pname in assign}
    finally:
        H.drop(g)


def check_db(specs, entries, pname=NAME, cls=C05Obj, exps=None):
    exps = entries if exps is None else exps
    inp = {"clause": "db.params", "param": pname, "entries": specs}
    B.case(("db", pname, json.dumps(specs)), inp)
    st, res = db_roundtrip(cls, {pname: entries}, len(entries))
    if st == "rejected":
        hit(REJECT, "db.params: %s" % type(res).__name__)
        return
    if st == "read-error":
        cls = "jagged-entry-skipped" if has_skippable_entry(entries) else ("entries-dropped" if "unmatched sizes" in str(res) else with_layout("read-error", first_layout_spec(specs)))
        flag(vid_of("db.params", cls, specs), "_writeParams accepted the values %s but _readParams raised %s" % (short(entries, 150), short(res, 200)), inp)
        return
    for c, i in compare(list(exps), res[pname], specs).items():
        flag(vid_of("db.params", c, specs), "value read by _readParams differs from the value written by _writeParams at object %d: wrote %s, read %s" % (i, short(exps, 200), short(res[pname], 200)), inp)


def layout_values():
    return {p: [build(sp) for sp in specs] for p, specs in LAYOUT_PARAMS.items()}


def expected_values(assign):
    """What must be read back: the values assigned; for the layout parameters their C-contiguous twins."""
    return {p: ([twin(sp, None) for sp in LAYOUT_PARAMS[p]] if p in LAYOUT_PARAMS else vals) for p, vals in assign.items()}


def flag_params(base, label, assign, got):
    """Compare parameter by parameter; the old parameters keep the one id `base`, a layout parameter names class + layout."""
    exp = expected_values(assign)
    for pname, vals in assign.items():
        d = compare(exp[pname], got[pname], LAYOUT_PARAMS.get(pname))
        if not d:
            continue
        what = "parameter %s: wrote %s, %s %s (%s)" % (pname, short(exp[pname], 150), label, short(got[pname], 150), d)
        if pname in LAYOUT_PARAMS:
            for cls in d:
                flag("%s.%s" % (base, cls), what, {"clause": base_clause(base), "param": pname, "entries": LAYOUT_PARAMS[pname]})
        else:
            flag(base, what, {"clause": base_clause(base), "param": pname})


def base_clause(base):
    return {"db.params.hierarchy": "hierarchy", "db.load": "full-db"}[base]


def each_kind_values():
    a = np.array
    return dict(layout_values(), **{
        "c05Int": [1, -2, 2**40, 0],
        "c05Float": [0.5, -1e300, float("inf"), 5e-324],
        "c05Bool": [True, False, False, True],
        "c05Str": ["fuel", "", "clad 1", "B"],
        "c05Arr": [a([1.0, 2.0]), a([3.0, 4.0]), a([5.0, 6.0]), a([7.0, 8.0])],
        "c05Arr2": [a([[1, 2], [3, 4]]), a([[5, 6], [7, 8]]), a([[9, 10], [11, 12]]), a([[0, 0], [0, 1]])],
        "c05Jag": [a([1.0]), a([2.0, 3.0]), None, a([4.0, 5.0, 6.0])],
        "c05List": [[1, 2, 3], [4, 5, 6], [7, 8, 9], [10, 11, 12]],
        "c05Dict": [{"U235": 0.1}, {"U238": 0.9, "U235": 0.2}, {}, {"ZR": 1.0}],
        "c05IntNone": [None, 7, None, -3],
        "c05FloatNone": [1.5, None, float("-inf"), None],
        "c05ArrNone": [a([1.0, 2.0]), None, a([3.0, 4.0]), None],
        "c05AllNone": [None, None, None, None],
        "flags": [Flags.FUEL, Flags.FUEL | Flags.INNER, Flags(0), Flags.CLAD | Flags.DEPLETABLE | Flags.MOVEABLE],
    })


def check_hierarchy():
    """One parameter of each kind on a parent/child class pair, written and read in one go."""
    n = 4
    assign = each_kind_values()
    B.case(("db-hierarchy",), {"clause": "db.params", "hierarchy": sorted(assign)})
    st, res = db_roundtrip(C05Child, assign, n)
    if st != "ok":
        flag("db.params.hierarchy", "one parameter of each (representable) kind on a parent/child class pair: %s %s" % (st, short(res)), {"clause": "hierarchy"})
        return
    flag_params("db.params.hierarchy", "read", assign, res)


def check_full_db():
    """The same objects as children of the smallest test reactor: Database.writeToDB -> file -> Database.load."""
    import contextlib
    import io
    from armi.reactor.tests.test_reactors import loadTestReactor

    assign = each_kind_values()
    B.case(("db-load",), {"clause": "db.load", "params": sorted(assign)})
    try:
        with contextlib.redirect_stdout(io.StringIO()):
            o, r = loadTestReactor(inputFileName="smallestTestReactor/armiRunSmallest.yaml")
        kids = [C05Child("c05kid%d" % i) for i in range(4)]
        for i, k in enumerate(kids):
            for pname, vals in assign.items():
                k.p[pname] = vals[i]
            r.add(k)
        with Database("c05-full.h5", "w") as db:  # cwd is this script's temporary directory
            db.writeInputsToDB(o.cs)
            db.writeToDB(r)
        with Database("c05-full.h5", "r") as db:
            r2 = db.load(0, 0, allowMissing=True)
    except Exception as e:
        flag("db.load", "writeToDB/load of the smallest test reactor with 4 dummy children holding one parameter of each kind raised %s" % short(e), {"clause": "full-db"})
        return
    kids2 = [c for c in r2 if isinstance(c, C05Child)]
    if [str(k.name) for k in kids2] != [k.name for k in kids]:
        flag("db.load", "children after load: %s" % [k.name for k in kids2], {"clause": "full-db"})
        return
    flag_params("db.load", "loaded", assign, {pname: [k.p[pname] for k in kids2] for pname in assign})


def check_spill():
    """A ragged collection whose offsets/shapes attributes exceed the HDF5 object-header limit (64 KiB)."""
    n = 9000
    entries = [[float(i)] * (1 + i % 3) if i % 7 else None for i in range(n)]
    B.case(("pack", "jagged-9000"), {"clause": "pack", "form": "jagged", "entries": "9000 ragged float lists, None at every 7th"})
    st, res = pack_roundtrip(JaggedArray(entries, NAME), n)
    if st == "rejected":
        hit(REJECT, "pack/jagged-9000: %s" % type(res).__name__)
        B.extra["attrs_spill"] = "not reached: the >64 KiB attribute was rejected at write time with %s (%s)" % (type(res).__name__, short(res, 120))
        return
    B.extra["attrs_spill"] = "reached" if "attrs:spilled-to-dataset" in STRAT else (
        "72 KB offsets/shapes attributes stored inline (datasets made with track_order=True, as _writeParams does, take large attributes)")
    if st == "read-error":
        flag("pack.read-error", "9000-entry ragged collection accepted but reading raised %s" % short(res, 160), {"clause": "spill"})
        return
    d = compare(entries, res)
    if d:
        flag("pack.silent-change", "9000-entry ragged collection differs after the round trip: %s" % d, {"clause": "spill"})
    # the fall-back of _writeAttrs (attribute -> own dataset + "@path" link) only matters for objects created without
    # track_order; exercise _writeAttrs/_resolveAttrs there: either the attributes resolve to equal arrays or the write raises
    g = H.group()
    try:
        ds = g.create_dataset("plain", data=np.arange(3))
        big = {"offsets": np.arange(20000), "someString": "not a link", "shapes": np.arange(30000).reshape(10000, 3)}
        B.case(("attrs", "spill"), nontrivial=True)
        try:
            Database._writeAttrs(ds, g, big)
        except Exception as e:
            hit(REJECT, "attrs-spill: %s" % type(e).__name__)
            B.extra["attrs_spill_without_track_order"] = "fall-back not reached: h5py raised %s (%s), _writeAttrs only catches RuntimeError -> rejected at write time" % (type(e).__name__, short(e, 100))
            return
        spilled = [k for k, v in ds.attrs.items() if isinstance(v, str) and v.startswith("@")]
        B.extra["attrs_spill_without_track_order"] = "spilled: %s" % spilled
        if spilled:
            hit(STRAT, "attrs:spilled-to-dataset")
        back = Database._resolveAttrs(ds.attrs, g)
        ok = set(back) == set(big) and all(np.array_equal(back[k], big[k]) for k in big)
        if not ok:
            flag("attrs.spill-roundtrip", "_resolveAttrs(_writeAttrs(attrs)) != attrs for attributes larger than the object header", {"clause": "spill"})
    finally:
        H.drop(g)


# ----------------------------------------------------------------------------------------------------------------
# line coverage of the functions under contract (sys.monitoring, python >= 3.12): which branches were reached
# ----------------------------------------------------------------------------------------------------------------
COV_FUNCS = {
    "packSpecialData": _realPack,
    "unpackSpecialData": database.unpackSpecialData,
    "replaceNonesWithNonsense": layout.replaceNonesWithNonsense,
    "replaceNonsenseWithNones": layout.replaceNonsenseWithNones,
    "JaggedArray.__init__": JaggedArray.__init__,
    "JaggedArray.unpack": JaggedArray.unpack,
    "Database._writeParams": Database._writeParams,
    "Database._readParams": Database._readParams,
    "Database._writeAttrs": Database._writeAttrs,
    "Database._resolveAttrs": Database._resolveAttrs,
}
COV_HIT = {}


def cov_start():
    mon = getattr(sys, "monitoring", None)
    if mon is None:
        return False
    try:
        mon.use_tool_id(mon.COVERAGE_ID, "c05")
    except ValueError:
        return False

    def on_line(code, line):
        COV_HIT.setdefault(code, set()).add(line)
        return mon.DISABLE

    mon.register_callback(mon.COVERAGE_ID, mon.events.LINE, on_line)
    for f in COV_FUNCS.values():
        mon.set_local_events(mon.COVERAGE_ID, getattr(f, "__func__", f).__code__, mon.events.LINE)
    return True


def cov_report():
    rep = {}
    for name, f in COV_FUNCS.items():
        code = getattr(f, "__func__", f).__code__
        lines = {ln for _, _, ln in code.co_lines() if ln is not None and ln != code.co_firstlineno}
        # a docstring expression statement has no line event of its own in 3.12; drop lines never attributed to bytecode
        h = COV_HIT.get(code, set()) & lines
        rep[name] = {"lines_hit": len(h), "lines": len(lines), "missed": sorted(lines - h)}
    return rep


# ----------------------------------------------------------------------------------------------------------------
def run_one(specs, clauses=("pack", "nonsense", "jagged", "db.params"), param=NAME):
    entries = [build(s) for s in specs]
    exps = [twin(s, e) for s, e in zip(specs, entries)]
    if "pack" in clauses:
        check_pack(specs, entries, exps)
    if "nonsense" in clauses:
        check_nonsense(specs, entries, exps)
    if "jagged" in clauses:
        check_jagged(specs, entries, exps)
    if "db.params" in clauses:
        if param == "flags":
            check_db(specs, entries, "flags")
        else:
            check_db(specs, entries, exps=exps)


def main():
    if B.replay is not None:
        r = B.replay
        cl = r.get("clause")
        if cl == "hierarchy":
            check_hierarchy()
        elif cl == "spill":
            check_spill()
        elif cl == "full-db":
            check_full_db()
        else:
            run_one(r["entries"], clauses=(cl,), param=r.get("param", NAME))
        print(json.dumps({"result": "fail" if VIOL else "pass", "violations": [{"id": k, "what": v[1]} for k, v in sorted(VIOL.items())]}, default=str))
        return
    covered = cov_start()
    flagCases = []
    kinds_seen = set()
    for tag, specs in collections():
        kinds_seen.add(tag)
        run_one(specs)
        if all(s is None or s[0] == "F" for s in specs) and any(s is not None for s in specs):
            flagCases.append(specs)
    check_spill()
    check_hierarchy()
    check_full_db()
    # Flags through the serializer route of _writeParams/_readParams (the `flags` parameter of every composite); last,
    # because assigning `flags` once makes every later write of any composite class include it
    for specs in flagCases:
        entries = [build(s) for s in specs]
        check_db(specs, entries, "flags")
    for vid in sorted(VIOL):
        _, what, inp = VIOL[vid]
        if vid.startswith("pack.") and isinstance(inp.get("entries"), list):
            # is the smallest pack-level failure also reachable through the real writer?
            ents = [build(s) for s in inp["entries"]]
            exps = [twin(s, e) for s, e in zip(inp["entries"], ents)]
            st, res = db_roundtrip(C05Obj, {NAME: ents}, len(ents))
            dd = compare(exps, res[NAME], inp["entries"]) if st == "ok" else None
            via = "rejected at write time" if st == "rejected" else ("reading raises" if st == "read-error" else ("differs: " + ",".join(sorted(dd)) if dd else "round-trips"))
            what += "  [same collection through _writeParams/_readParams: %s]" % via
            VIOL[vid] = (None, what, inp)

        # one entry per id (at most ~30): appended directly, Bounded.violation() would cut the list at 20
        B.violations.append({"id": vid, "what": what + "  [%d failing inputs with this id]" % VCOUNT[vid], "input": inp})
    B.extra["violation_counts"] = dict(sorted(VCOUNT.items()))
    B.extra["reachable_through_writeParams"] = {k: ("db.params." + k[len("pack."):]) in VCOUNT for k in sorted(VCOUNT) if k.startswith("pack.")}
    B.extra["memory_layouts"] = LAYOUT_DOC
    B.extra["strategies_hit"] = dict(sorted(STRAT.items()))
    B.extra["strategies_unreachable"] = ["final-raise (the two raise statements at the end of packSpecialData are dead code: the preceding `if any(isinstance(d, (tuple, list, np.ndarray)) ...)` is always true when reached)"] if "pack:final-raise" not in STRAT else []
    B.extra["db_routes"] = dict(sorted(ROUTES.items()))
    B.extra["rejected_at_write_time"] = dict(sorted(REJECT.items()))
    B.extra["tolerated_normalisations"] = dict(sorted(TOL.items()))
    B.extra["collection_kinds"] = len(kinds_seen)
    B.extra["memory_layouts_hit"] = dict(sorted(LAYOUTS_HIT.items()))
    if covered:
        B.extra["line_coverage"] = cov_report()
    if DUMP is not None:
        with open(sys.argv[sys.argv.index("--dump") + 1], "w") as fh:
            for d in DUMP:
                fh.write(json.dumps(d, default=str) + "\n")
    B.finish(exhaustive=False)


try:
    main()
finally:
    if H.f is not None:
        H.f.close()
    os.chdir("/")
    _TMP.cleanup()
