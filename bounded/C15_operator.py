"""C15 bounded tier: a run visits every time node once, in order, calling hooks in stack order.

Three executable contracts around REAL armi code (nothing is re-implemented; the oracle is written from the statement):

1. nodes.* / history.*  armi.utils node arithmetic and cycle-history expansion
   - all burn-step vectors with <= 4 cycles x 0..4 burn steps (exhaustive within the bound, as detailed `cycles`
     settings; the all-equal vectors also as simple inputs) plus seeded larger ones: the visiting order of a run
     [(c, n) for c in cycles for n in 0..burnSteps[c]] is numbered 0,1,2,... by getCumulativeNodeNum, inverted by
     getCycleNodeFromCumulativeNode, stepped backwards by getPreviousTimeNode; time step s (1-based) starts at the
     s-th element of [(c, n) for n < burnSteps[c]] (getCycleNodeFromCumulativeStep)
   - generated simple (nCycles/burnSteps/cycleLength(s)/availabilityFactor(s)/powerFractions, repeat syntax "3R")
     and detailed (`cycles`: step days / cumulative days / cycle length + burn steps, "R3"/"3R") inputs:
     sum(steps[c]) = availability[c] * cycleLength[c]; every list has nCycles entries, every per-cycle list has
     burnSteps[c] entries; values equal the independently expanded input
2. schedule.* / who.* / state.* / coupling.*  the REAL Operator on the smallest test reactor, with recording dummy
   interfaces, for generated (cycle history, restart point, stack, deferral, halt, coupling) configurations: the
   recorded trace (interface, hook, args, r.p.cycle, r.p.timeNode, coupledIteration) equals the prescribed one.
   The restart point reaches the main loop in three ways: "preset" (r.p.cycle/timeNode set before operate()),
   "bol" (a recording interface early in the stack sets them INSIDE its interactBOL, as armi's MainInterface does;
   ids schedule.restart-set-at-BOL.*), and "main" (the real MainInterface + DatabaseInterface restarting from the
   database written by a previous full run of the same history; ids schedule.restart-main-db.*)
3. stack.*  addInterface / removeInterface / getInterface against a list model of the documented rules
"""
import json
import os
import random
import sys
import tempfile

sys.path.insert(0, os.path.dirname(os.path.abspath(__file__)))
from common import Bounded, armi_ready

armi_ready()
from armi import runLog, utils
from armi.bookkeeping.db.databaseInterface import DatabaseInterface
from armi.bookkeeping.mainInterface import MainInterface
from armi.interfaces import Interface, TightCoupler
from armi.operators.operator import Operator
from armi.testing import loadTestReactor

B = Bounded(
    "(1) every burn-step vector <= 4 cycles x 0..4 steps + seeded larger; seeded simple/detailed cycle-history settings; "
    "(2) real Operator runs: every burn-step vector <= 3 cycles x 0..3 steps x restart points x seeded "
    "(stack of 2..7 recording interfaces: order/index, enabled, bolForce, reverseAtEOL, deferred names+cycle, BOC halt, "
    "scripted TightCouplers; tightCoupling on/off, max iters 1..4, exempt cycles); (3) seeded add/remove/get sequences; "
    "distinct = distinct configuration",
    "(1) 780 vectors exhaustive + 150/1500 larger (<= 10 cycles x 0..12 steps), 300/3000 histories; "
    "(2) quick: 84 vectors x (2 runs from (0,0) + 2 at random restart points), one seeded stack each; thorough: 84 vectors x ALL restart points x 8 stacks (12 from (0,0)); restart set inside a BOL hook: ALL 570 restart points of the 84 vectors x 1/4 stacks; real MainInterface+DB restart: all restart points of 3 seeded 2-cycle histories (quick) / 40 seeded histories of the 84 (thorough); "
    "(3) 150/1500 sequences of <= 6/10 stack operations",
)
THOROUGH = B.thorough()
REL = 1e-9

_COUNTS = {}
_raw_violation = B.violation


def _violation(vid, what, inp):
    """common.Bounded keeps the first 20 violations; keep at most 2 per id so known findings cannot crowd out new ones."""
    _COUNTS[vid] = _COUNTS.get(vid, 0) + 1
    if _COUNTS[vid] <= 2:
        _raw_violation(vid, what, inp)


B.violation = _violation
STATS = {"runs": 0, "runs_with_coupling": 0, "runs_with_halt": 0, "runs_restart": 0, "runs_deferred": 0, "events_compared": 0,
         "calls_compared": 0, "max_coupled_iterations_hit": 0, "early_convergence": 0, "skipped_outside_quantifier": 0,
         "stack_ops": 0, "runs_restart_set_at_BOL": 0, "runs_restart_main_db": 0, "histories_simple": 0, "histories_detailed": 0}

SIMPLE_OFF = {"cycles": []}
DETAILED_OFF = {"burnSteps": None, "cycleLength": None, "cycleLengths": None, "availabilityFactor": None, "availabilityFactors": None,
                "powerFractions": None}


def close(a, b):
    return abs(a - b) <= REL * max(1.0, abs(a), abs(b))


def closelist(a, b):
    return len(a) == len(b) and all(close(float(x), float(y)) for x, y in zip(a, b))


# ----------------------------------------------------------------------------------------------- settings builders
def compress(values, rng, style=None):
    """Write a list with the repeat syntax ('3R' or 'R3' = repeat the previous entry 3 more times) at random."""
    out, i = [], 0
    while i < len(values):
        j = i
        while j + 1 < len(values) and values[j + 1] == values[i]:
            j += 1
        run = j - i
        out.append(values[i])
        if run and rng.random() < 0.7:
            k = rng.randint(1, run)
            st = style or rng.choice(["%dR", "R%d", "%dr"])
            out.append(st % k)
            out.extend([values[i]] * (run - k))
        else:
            out.extend([values[i]] * run)
        i = j + 1
    return out


def detailed_settings(base_cs, spec):
    """spec: list of per-cycle dicts in the `cycles` schema."""
    new = dict(DETAILED_OFF)
    new.update({"nCycles": len(spec), "cycles": spec})
    return base_cs.modified(newSettings=new)


def vector_settings(base_cs, bs, rng):
    """A detailed `cycles` setting whose cycle c has bs[c] burn steps (kinds chosen at random)."""
    spec, steps = [], []
    for n in bs:
        kind = rng.choice(["step", "cumulative", "length"]) if n > 0 else "step"
        if kind == "step":
            st = [float(rng.choice([1, 2, 5, 10.5]))] * n if rng.random() < 0.5 else [float(rng.choice([1, 2, 3.5, 7])) for _ in range(n)]
            spec.append({"step days": compress(st, rng)})
        elif kind == "cumulative":
            st = [float(rng.choice([1, 2, 3.5, 7])) for _ in range(n)]
            cum, t = [], 0.0
            for x in st:
                t += x
                cum.append(t)
            spec.append({"cumulative days": cum})
        else:
            length = float(rng.choice([10, 30, 365.25]))
            st = [length / n] * n
            spec.append({"cycle length": length, "burn steps": n})
        steps.append(st)
    return detailed_settings(base_cs, spec), steps


# ----------------------------------------------------------------------------------------------- 1. node arithmetic
def check_nodes(cs, bs, tag):
    inp = {"burnSteps": list(bs), "input": tag}
    B.case(("nodes", tag, tuple(bs)), sample=inp)
    try:
        got_bs = utils.getBurnSteps(cs)
        npc = utils.getNodesPerCycle(cs)
    except Exception as e:  # noqa: BLE001
        B.violation("nodes.error", "getBurnSteps/getNodesPerCycle raised %s" % type(e).__name__, inp)
        return
    if not B.check(list(got_bs) == list(bs), "nodes.burn-steps", "getBurnSteps differs from the number of steps given per cycle", dict(inp, got=got_bs)):
        return
    B.check(list(npc) == [b + 1 for b in bs], "nodes.nodes-per-cycle", "a cycle with n steps has n+1 nodes", dict(inp, got=npc))
    order = [(c, n) for c in range(len(bs)) for n in range(bs[c] + 1)]  # the order a run visits the nodes
    for idx, (c, n) in enumerate(order):
        try:
            B.check(utils.getCumulativeNodeNum(c, n, cs) == idx, "nodes.cumulative-of-visit-order",
                    "getCumulativeNodeNum does not number the nodes in visiting order", dict(inp, cycle=c, node=n, want=idx))
            B.check(tuple(utils.getCycleNodeFromCumulativeNode(idx, cs)) == (c, n), "nodes.cycle-node-of-cumulative",
                    "getCycleNodeFromCumulativeNode is not the inverse of the visiting-order numbering", dict(inp, cumulative=idx, want=[c, n]))
            if idx == 0:
                try:
                    utils.getPreviousTimeNode(c, n, cs)
                    B.violation("nodes.previous-of-first", "there is no node before (0, 0) but none was refused", inp)
                except ValueError:
                    pass
            else:
                B.check(tuple(utils.getPreviousTimeNode(c, n, cs)) == order[idx - 1], "nodes.previous",
                        "getPreviousTimeNode is not the node visited just before", dict(inp, cycle=c, node=n, want=list(order[idx - 1])))
        except Exception as e:  # noqa: BLE001
            B.violation("nodes.error", "node arithmetic raised %s: %s" % (type(e).__name__, e), dict(inp, cycle=c, node=n))
            return
    steps = [(c, n) for c in range(len(bs)) for n in range(bs[c])]  # step s (1-based) starts at steps[s-1]
    for s, (c, n) in enumerate(steps, start=1):
        try:
            B.check(tuple(utils.getCycleNodeFromCumulativeStep(s, cs)) == (c, n), "nodes.step-to-cycle-node",
                    "getCycleNodeFromCumulativeStep is not the node at the start of the s-th time step", dict(inp, step=s, want=[c, n]))
        except Exception as e:  # noqa: BLE001
            B.violation("nodes.error", "getCycleNodeFromCumulativeStep raised %s: %s" % (type(e).__name__, e), dict(inp, step=s))
            return
    for bad, fn in ((0, utils.getCycleNodeFromCumulativeStep), (-1, utils.getCycleNodeFromCumulativeNode)):
        try:
            fn(bad, cs)
            B.violation("nodes.out-of-range-accepted", "a step number < 1 / node number < 0 was not refused", dict(inp, value=bad))
        except ValueError:
            pass


def part_nodes(base_cs):
    rng = random.Random(B.seed * 7 + 1)
    vectors = []
    for ncyc in range(1, 5):
        def rec(prefix):
            if len(prefix) == ncyc:
                vectors.append(tuple(prefix))
                return
            for b in range(5):
                rec(prefix + [b])
        rec([])
    for bs in vectors:
        cs, _steps = vector_settings(base_cs, bs, rng)
        check_nodes(cs, bs, "detailed")
        if len(set(bs)) == 1 and (bs[0] > 0 or len(bs) == 1):
            new = dict(SIMPLE_OFF)
            new.update({"nCycles": len(bs), "burnSteps": bs[0], "cycleLength": 100.0, "availabilityFactor": 0.9})
            check_nodes(base_cs.modified(newSettings=new), bs, "simple")
    for _ in range(1500 if THOROUGH else 150):
        bs = tuple(rng.randint(0, 12) for _ in range(rng.randint(1, 10)))
        cs, _steps = vector_settings(base_cs, bs, rng)
        check_nodes(cs, bs, "detailed")
    return len(vectors)


# ----------------------------------------------------------------------------------------------- 1b. histories
def check_history(cs, want, inp, fam):
    """want: dict(steps=[[...]], avail=[...], lengths=[...], pf=[[...]])."""
    ncyc = len(want["steps"])
    try:
        steps, lengths = utils.getStepLengths(cs), utils.getCycleLengths(cs)
        pf, av, bs = utils.getPowerFractions(cs), utils.getAvailabilityFactors(cs), utils.getBurnSteps(cs)
    except Exception as e:  # noqa: BLE001
        B.violation("history.%s.error" % fam, "cycle-history expansion raised %s: %s" % (type(e).__name__, e), inp)
        return
    okl = B.check(len(steps) == ncyc and len(lengths) == ncyc and len(pf) == ncyc and len(av) == ncyc and len(bs) == ncyc,
                  "history.%s.list-lengths" % fam, "a per-cycle list does not have nCycles entries",
                  dict(inp, got=[len(steps), len(lengths), len(pf), len(av), len(bs)]))
    if not okl:
        return
    for c in range(ncyc):
        ic = dict(inp, cycle=c)
        B.check(bs[c] == len(want["steps"][c]) == len(steps[c]), "history.%s.burn-steps" % fam, "number of steps of a cycle", dict(ic, got=steps[c]))
        B.check(len(pf[c]) == len(want["steps"][c]), "history.%s.power-fractions-length" % fam, "power fractions of a cycle need one entry per step", dict(ic, got=pf[c]))
        B.check(closelist(steps[c], want["steps"][c]), "history.%s.step-values" % fam, "step lengths differ from the input", dict(ic, got=steps[c], want=want["steps"][c]))
        B.check(closelist(pf[c], want["pf"][c]), "history.%s.power-fraction-values" % fam, "power fractions differ from the input", dict(ic, got=pf[c], want=want["pf"][c]))
        B.check(close(float(av[c]), want["avail"][c]), "history.%s.availability" % fam, "availability factor differs from the input", dict(ic, got=av[c]))
        if want["lengths"][c] is not None:
            B.check(close(float(lengths[c]), want["lengths"][c]), "history.%s.cycle-length" % fam, "cycle length differs from the input", dict(ic, got=lengths[c]))
        if len(steps[c]):
            B.check(close(sum(steps[c]), float(av[c]) * float(lengths[c])), "history.%s.steps-sum" % fam,
                    "step lengths of a cycle do not sum to availability x cycle length", dict(ic, steps=steps[c], avail=av[c], length=lengths[c]))


def part_histories(base_cs):
    rng = random.Random(B.seed * 7 + 2)
    for k in range(3000 if THOROUGH else 300):
        if k % 2 == 0:
            ncyc = rng.randint(1, 6)
            nb = rng.randint(0 if ncyc == 1 else 1, 6)  # 0 burn steps with several cycles is refused by the settings validation
            new = dict(SIMPLE_OFF)
            new.update({"nCycles": ncyc, "burnSteps": nb})
            if rng.random() < 0.5:
                lens = [float(rng.choice([100, 365.25, 30]))] * ncyc
                new["cycleLength"], new["cycleLengths"] = lens[0], None
            else:
                lens = [float(rng.choice([100, 365.25, 30, 400])) for _ in range(ncyc)]
                new["cycleLength"], new["cycleLengths"] = None, compress(lens, rng)
            if rng.random() < 0.5:
                av = [rng.choice([1.0, 0.9, 0.5, 0.0])] * ncyc
                new["availabilityFactor"], new["availabilityFactors"] = av[0], None
            else:
                av = [rng.choice([1.0, 0.9, 0.5, 0.25, 0.0]) for _ in range(ncyc)]
                new["availabilityFactor"], new["availabilityFactors"] = None, compress(av, rng)
            if rng.random() < 0.5:
                pfc = [1.0] * ncyc
                new["powerFractions"] = None
            else:
                pfc = [rng.choice([1.0, 0.5, 0.0, 0.75]) for _ in range(ncyc)]
                new["powerFractions"] = compress(pfc, rng)
            inp = {k2: v for k2, v in new.items() if k2 != "cycles"}
            B.case(("history", json.dumps(inp, sort_keys=True)), sample=inp if k < 4 else None)
            STATS["histories_simple"] += 1
            try:
                cs = base_cs.modified(newSettings=new)
            except Exception as e:  # noqa: BLE001
                B.violation("history.simple.settings-refused", "generated simple history refused: %s" % e, inp)
                continue
            want = {"steps": [[lens[c] * av[c] / nb] * nb if nb else [] for c in range(ncyc)], "avail": av, "lengths": lens, "pf": [[pfc[c]] * nb for c in range(ncyc)]}
            check_history(cs, want, inp, "simple")
        else:
            ncyc = rng.randint(1, 5)
            spec, want = [], {"steps": [], "avail": [], "lengths": [], "pf": []}
            for _c in range(ncyc):
                n = rng.randint(0, 5)
                kind = rng.choice(["step", "cumulative", "length"]) if n else "step"
                cyc = {}
                af = 1.0
                if rng.random() < 0.6:
                    af = rng.choice([1.0, 0.9, 0.5, 0.25])
                    cyc["availability factor"] = af
                if kind == "step":
                    st = [float(rng.choice([1, 2, 5, 10.5]))] * n if rng.random() < 0.5 else [float(rng.choice([1, 2, 3.5, 7])) for _ in range(n)]
                    cyc["step days"] = compress(st, rng)
                    length = None
                elif kind == "cumulative":
                    st = [float(rng.choice([1, 2, 3.5, 7])) for _ in range(n)]
                    cum, t = [], 0.0
                    for x in st:
                        t += x
                        cum.append(t)
                    cyc["cumulative days"] = cum
                    length = None
                else:
                    length = float(rng.choice([10, 30, 365.25]))
                    st = [length * af / n] * n
                    cyc["cycle length"], cyc["burn steps"] = length, n
                if rng.random() < 0.5:
                    p = [rng.choice([1.0, 0.5, 0.0, 0.3]) for _ in range(n)] if rng.random() < 0.5 else [rng.choice([1.0, 0.5])] * n
                    cyc["power fractions"] = compress(p, rng)
                else:
                    p = [1.0] * n
                if rng.random() < 0.3:
                    cyc["name"] = "cycle %d" % _c
                spec.append(cyc)
                want["steps"].append(st)
                want["avail"].append(af)
                want["lengths"].append(length)
                want["pf"].append(p)
            inp = {"cycles": spec}
            B.case(("history", json.dumps(inp, sort_keys=True)), sample=inp if k < 4 else None)
            STATS["histories_detailed"] += 1
            try:
                cs = detailed_settings(base_cs, spec)
            except Exception as e:  # noqa: BLE001
                B.violation("history.detailed.settings-refused", "generated detailed history refused: %s" % e, inp)
                continue
            check_history(cs, want, inp, "detailed")
    # two inputs the `cycles` schema admits (min=0): a zero-step cycle given as length + steps, an all-outage cycle
    for vid, spec, want in (
        ("history.detailed.zero-burn-steps", [{"cycle length": 10.0, "burn steps": 0}], {"steps": [[]], "avail": [1.0], "lengths": [None], "pf": [[]]}),
        ("history.detailed.zero-availability", [{"cycle length": 10.0, "burn steps": 2, "availability factor": 0.0}],
         {"steps": [[0.0, 0.0]], "avail": [0.0], "lengths": [10.0], "pf": [[1.0, 1.0]]}),
    ):
        inp = {"cycles": spec}
        B.case(("history", vid))
        try:
            cs = detailed_settings(base_cs, spec)
            steps, lengths = utils.getStepLengths(cs), utils.getCycleLengths(cs)
            B.check(len(steps) == 1 and closelist(steps[0], want["steps"][0]) and (want["lengths"][0] is None or close(lengths[0], want["lengths"][0])),
                    vid, "schema-valid detailed cycle expands to the wrong history", dict(inp, got=[steps, lengths]))
        except Exception as e:  # noqa: BLE001
            B.violation(vid, "schema-valid detailed cycle (burn steps / availability of 0) raises %s: %s" % (type(e).__name__, e), inp)


# ----------------------------------------------------------------------------------------------- 2. operator runs
class Rec(Interface):
    """Recording dummy.  Subclasses set `name`; instances carry the scripted behaviour."""

    name = "rec"

    def __init__(self, r, cs, log, halt_cycle=None, pattern=None):
        Interface.__init__(self, r, cs)
        self.log = log
        self.halt_cycle = halt_cycle
        self.pattern = pattern  # {(cycle, node): [converged at iteration 0, 1, ...]} for coupler interfaces
        self.value = 0.0
        self.prev_ok = True
        self.restart_to = None

    def _rec(self, kind, *args):
        r = self.r
        self.log.append((self.name, kind, tuple(int(a) for a in args), int(r.p.cycle), int(r.p.timeNode), int(r.core.p.coupledIteration or 0),
                         float(r.p.stepLength or 0.0), float(r.core.p.power or 0.0)))

    def interactBOL(self):
        if self.restart_to is not None:
            # a restart is established DURING the beginning-of-life event (cf. MainInterface._activateDBPrepRestart)
            self.r.p.cycle, self.r.p.timeNode = self.restart_to
        self._rec("BOL")

    def interactBOC(self, cycle=None):
        self._rec("BOC", cycle)
        return True if (self.halt_cycle is not None and cycle == self.halt_cycle) else None

    def interactEveryNode(self, cycle, node):
        self._rec("EveryNode", cycle, node)

    def interactCoupled(self, iteration):
        self._rec("Coupled", iteration)
        if self.coupler is not None:
            if self.coupler._previousIterationValue != self.value:
                self.prev_ok = False
            seq = self.pattern.get((int(self.r.p.cycle), int(self.r.p.timeNode)), [])
            conv = seq[iteration] if iteration < len(seq) else False
            if not conv:
                self.value += 10.0

    def interactEOC(self, cycle=None):
        self._rec("EOC", cycle)

    def interactEOL(self):
        self._rec("EOL")

    def getTightCouplingValue(self):
        return self.value

    def writeDBEveryNode(self):
        pass


_CLASSES = {}


def rec_class(name):
    if name not in _CLASSES:
        _CLASSES[name] = type("Rec_" + name, (Rec,), {"name": name})
    return _CLASSES[name]


def gen_stack(rng, bs, start_cycle, coupling, max_iters):
    """A random stack description (JSON-able)."""
    ncyc = len(bs)
    n = rng.randint(1, 5)
    stack = [{"name": "base", "enabled": True, "bolForce": False, "reverse": rng.random() < 0.3, "index": None, "halt": None, "pattern": None}]
    for k in range(n):
        d = {"name": "i%d" % k, "enabled": rng.random() < 0.75, "bolForce": rng.random() < 0.4, "reverse": rng.random() < 0.4,
             "index": None, "halt": None, "pattern": None}
        if rng.random() < 0.3:
            d["index"] = rng.randint(0, len(stack))
        if rng.random() < 0.15:
            d["halt"] = rng.randint(start_cycle, ncyc - 1)
        if coupling and rng.random() < 0.5:
            pat = {}
            for c in range(ncyc):
                for nd in range(bs[c] + 1):
                    style = rng.random()
                    if style < 0.35:
                        first = rng.randint(0, max_iters)  # converges from iteration `first` on (== max_iters: never)
                        seq = [i >= first for i in range(max_iters)]
                    elif style < 0.5:
                        seq = [False] * max_iters
                    else:
                        seq = [rng.random() < 0.55 for _ in range(max_iters)]
                    pat["%d,%d" % (c, nd)] = seq
            d["pattern"] = pat
        stack.append(d)
    if coupling:
        # _performTightCoupling asks the stack for the interface named "database" to write the node
        stack.append({"name": "database", "enabled": True, "bolForce": False, "reverse": rng.random() < 0.5, "index": None, "halt": None, "pattern": None})
    deferred, dcycle = [], 0
    if rng.random() < 0.4:
        cand = [d["name"] for d in stack if d["pattern"] is None and d["name"] not in ("base", "database")]
        if cand:
            deferred = rng.sample(cand, rng.randint(1, min(2, len(cand))))
            dcycle = rng.randint(0, ncyc)
    return stack, deferred, dcycle


def expected_events(conf, order):
    """The trace the statement prescribes, as a list of events (kind, args, state(cycle,node), coupledIteration|None, [names])."""
    bs, sc, sn = conf["burnSteps"], conf["startCycle"], conf["startNode"]
    by = {d["name"]: d for d in conf["stack"]}
    dnames, dcycle = set(conf["deferred"]), conf["deferredCycle"]

    def active(kind, cycle):
        out = []
        for nm in order:
            d = by[nm]
            if not (d["enabled"] or (kind == "BOL" and d["bolForce"])):
                continue
            if nm in dnames and cycle < dcycle:
                continue  # deferred: normal operation begins at cycle `deferredInterfacesCycle`
            out.append(nm)
        if kind == "EOL":
            out = [x for x in out if not by[x]["reverse"]] + [x for x in reversed(out) if by[x]["reverse"]]
        return out

    ev = []
    if conf.get("restartVia") == "main" and sn == 0 and sc > 0:
        # documented MainInterface behaviour: the DB holds the last node of the previous cycle BEFORE its EOC
        # interactions, so they are performed (from inside main's BOL hook) before the run proceeds
        ev.append(("EOC", (sc - 1,), (sc - 1, bs[sc - 1]), None, active("EOC", sc - 1)))
    ev.append(("BOL", (), (sc, sn), None, active("BOL", sc)))
    cyc, node = sc, sn
    halted = None
    for c in range(sc, len(bs)):
        first = sn if c == sc else 0
        cyc, node = c, first
        act = active("BOC", c)
        ev.append(("BOC", (c,), (c, first), None, act))
        if any(by[x]["halt"] == c for x in act):
            halted = c
            break
        for n in range(first, bs[c] + 1):
            node = n
            ev.append(("EveryNode", (c, n), (c, n), None, active("EveryNode", c)))
            if conf["tightCoupling"] and c not in conf["skipCycles"]:
                act = active("Coupled", c)
                couplers = [x for x in act if by[x]["pattern"] is not None]
                for k in range(conf["maxIters"]):
                    ev.append(("Coupled", (k,), (c, n), k + 1, act))
                    if all(by[x]["pattern"]["%d,%d" % (c, n)][k] for x in couplers):
                        break
        ev.append(("EOC", (c,), (c, bs[c]), None, active("EOC", c)))
    ev.append(("EOL", (), (cyc, node), None, active("EOL", cyc)))
    return ev, halted


def group(log):
    ev = []
    for name, kind, args, cyc, node, it, _sl, _pw in log:
        if ev and ev[-1][0] == kind and ev[-1][1] == args:
            ev[-1][2].append((name, cyc, node, it))
        else:
            ev.append((kind, args, [(name, cyc, node, it)]))
    return ev


def run_operator(base_cs, r, conf):
    """Build the real Operator for `conf`, run it, compare traces."""
    inp = conf
    STATS["runs"] += 1
    bs = conf["burnSteps"]
    spec = []
    for c, n in enumerate(bs):
        cyc = {"step days": [float(c + 1)] * n, "power fractions": [round(1.0 - 0.1 * k, 3) for k in range(n)]}
        spec.append(cyc)
    new = dict(DETAILED_OFF)
    new.update({"nCycles": len(bs), "cycles": spec, "startCycle": conf["startCycle"], "startNode": conf["startNode"], "power": 1000.0,
                "tightCoupling": conf["tightCoupling"], "tightCouplingMaxNumIters": conf["maxIters"],
                "cyclesSkipTightCouplingInteraction": list(conf["skipCycles"]),
                "deferredInterfaceNames": list(conf["deferred"]), "deferredInterfacesCycle": conf["deferredCycle"]})
    via = conf.get("restartVia", "preset")
    real = bool(conf.get("real")) or via == "main"
    rid = {"preset": "", "bol": "restart-set-at-BOL.", "main": "restart-main-db."}[via]
    if via == "main":
        new.update({"loadStyle": "fromDB", "reloadDBName": first_db(base_cs, r, bs)})
    cs = base_cs.modified(newSettings=new)
    if real:
        _TITLE[0] += 1
        cs.caseTitle = "c15run%d" % _TITLE[0]
    o = Operator(cs)
    o.reattach(r, cs)
    if via == "preset":
        r.p.cycle, r.p.timeNode = conf["startCycle"], conf["startNode"]  # restart point already established before operate()
    else:
        r.p.cycle, r.p.timeNode = 0, 0  # the restart point is only established during the BOL event
    r.core.p.coupledIteration = 0
    log, order, insts = [], [], {}
    for d in conf["stack"]:
        pat = None
        if d["pattern"] is not None:
            pat = {tuple(int(x) for x in k.split(",")): v for k, v in d["pattern"].items()}
        i = rec_class(d["name"])(r, cs, log, halt_cycle=d["halt"], pattern=pat)
        if pat is not None:
            i.coupler = TightCoupler("scripted", 1.0, conf["maxIters"])
        if d["name"] == "restarter":
            i.restart_to = (conf["startCycle"], conf["startNode"])
        o.addInterface(i, index=d["index"], reverseAtEOL=d["reverse"], enabled=d["enabled"], bolForce=d["bolForce"])
        if d["index"] is None:
            order.append(d["name"])
        else:
            order.insert(d["index"], d["name"])
        insts[d["name"]] = i
    if not B.check([i.name for i in o.getInterfaces()] == order, "stack.add.order", "addInterface(index=...) did not produce the documented stack order",
                   dict(inp, got=[i.name for i in o.getInterfaces()], want=order)):
        return
    dbi = None
    if real:
        # armi's own first and last interfaces: main (first, reversed at EOL) and the database (last)
        o.addInterface(MainInterface(r, cs), index=0, reverseAtEOL=True)
        dbi = DatabaseInterface(r, cs)
        o.addInterface(dbi)
    want, halted = expected_events(conf, order)
    try:
        o.operate()
    except Exception as e:  # noqa: BLE001
        msg = "Operator.operate() raised %s: %s" % (type(e).__name__, str(e)[:160])
        first_boc = [x[2][0] for x in log if x[1] == "BOC"][:1]
        if rid and first_boc and first_boc[0] != conf["startCycle"]:
            B.violation("schedule." + rid + "wrong-start-cycle", "the restart point is set during the BOL event, but the cycle loop began at cycle %d (then: %s)" % (first_boc[0], msg), inp)
        else:
            B.violation("schedule." + rid + "error" if rid else "run.unexpected-error", msg, inp)
        return
    finally:
        if dbi is not None:
            try:
                if dbi._db is not None and dbi._db.isOpen():
                    dbi._db.close(True)
            except Exception:  # noqa: BLE001
                pass
            if via == "main":
                try:
                    os.remove(cs.caseTitle + ".h5")
                except OSError:
                    pass
        o.removeAllInterfaces()
        if o.r is not None and o.r is not r:
            o.r.o = None  # the DB restart loads a fresh reactor and re-attaches the operator to it
        r.o = None
    got = group(log)
    if halted is not None:
        STATS["runs_with_halt"] += 1
    wk = [(k, a) for k, a, _s, _i, _n in want]
    gk = [(k, a) for k, a, _c in got]
    STATS["events_compared"] += len(wk)
    if wk != gk:
        i = 0
        while i < min(len(wk), len(gk)) and wk[i] == gk[i]:
            i += 1
        e = wk[i] if i < len(wk) else None
        g = gk[i] if i < len(gk) else None
        boc = [a for k, a in gk if k == "BOC"]
        nodes = [a for k, a in gk if k == "EveryNode"]
        if rid and boc and boc[0][0] != conf["startCycle"]:
            vid, what = "schedule." + rid + "wrong-start-cycle", "the restart point is set during the BOL event, but the cycle loop does not begin at the start cycle"
        elif rid and nodes and tuple(nodes[0]) != (conf["startCycle"], conf["startNode"]) and not (halted == conf["startCycle"]):
            vid, what = "schedule." + rid + "wrong-start-node", "the restart point is set during the BOL event, but the first node visited is not the start node"
        elif e is None or (g is not None and e in gk[i:] and g not in wk[i:]):
            vid, what = "schedule.extra." + g[0], "the run performs an event the statement does not prescribe here"
        elif g is None or (g in wk[i:] and e not in gk[i:]):
            vid, what = "schedule.missing." + e[0], "the run skips an event the statement prescribes"
        elif e[0] == g[0]:
            vid, what = "schedule.wrong-args." + e[0], "an event carries other cycle/node/iteration arguments than prescribed"
        else:
            vid, what = "schedule.order", "events happen in another order than prescribed"
        if rid and ".restart-" not in vid:
            vid = vid.replace("schedule.", "schedule." + rid, 1)
        B.violation(vid, what, dict(inp, at=i, expected=list(e) if e else None, got=list(g) if g else None, before=[list(x) for x in wk[max(0, i - 2):i]]))
        return
    by = {d["name"]: d for d in conf["stack"]}
    dn, dc = set(conf["deferred"]), conf["deferredCycle"]
    for (kind, args, state, it, names), (_k, _a, calls) in zip(want, got):
        gn = [c[0] for c in calls]
        STATS["calls_compared"] += len(gn)
        ctx = dict(inp, event=[kind, list(args)], expected=names, got=gn)
        if gn != names:
            extra = [x for x in gn if x not in names]
            missing = [x for x in names if x not in gn]
            cyc = state[0]
            if len(set(gn)) != len(gn):
                B.violation("who.twice." + kind, "an interface is called more than once at one event", ctx)
            elif extra and all(x in dn and cyc < dc for x in extra):
                if kind == "BOL":
                    B.violation("who.deferred.called-before-start.BOL", "a deferred interface is called at BOL before its start cycle", ctx)
                else:
                    B.violation("who.deferred.called-before-start." + kind,
                                "an interface named in deferredInterfaceNames is called at this event in a cycle before deferredInterfacesCycle", ctx)
            elif extra:
                B.violation("who.extra." + kind, "an interface that is disabled / excluded is called", ctx)
            elif missing and kind == "BOL" and all(x in dn for x in missing):
                # named as deferred but already due (start cycle >= deferredInterfacesCycle): the statement is silent on
                # whether BOL counts as "normal operation"; accepted either way
                STATS["skipped_outside_quantifier"] += 1
            elif missing and kind == "BOC" and any(by[x]["halt"] == args[0] for x in gn) and \
                    all(names.index(x) > min(names.index(h) for h in gn if by[h]["halt"] == args[0]) for x in missing):
                B.violation("who.missing.BOC.after-halt-request", "interfaces after the one that requests a halt are not called at that BOC", ctx)
            elif missing:
                B.violation("who.missing." + kind, "an enabled (or forced at BOL), not deferred interface is not called", ctx)
            else:
                B.violation("who.order." + kind, "interfaces are not called in stack order (at EOL: reverse-flagged ones last, reversed)", ctx)
            continue
        for name, cyc, node, cit in calls:
            if kind == "BOL" and via == "bol" and order.index(name) < order.index("restarter"):
                state_here = (0, 0)  # hooks ahead of the interface that establishes the restart point
            else:
                state_here = tuple(state)
            if (cyc, node) != state_here:
                B.violation("state.cycle-node." + kind, "r.p.cycle / r.p.timeNode seen inside the hook are not the current cycle and node", dict(ctx, seen=[cyc, node], want=list(state_here)))
                break
            if it is not None and cit != it:
                B.violation("state.coupledIteration", "core.p.coupledIteration is not the 1-based iteration number", dict(ctx, seen=cit, want=it))
                break
    # step length and power seen at every node that starts a step
    for name, kind, args, _c, _n, _it, sl, pw in log:
        if kind == "EveryNode" and args[1] < bs[args[0]]:
            ws, wp = float(args[0] + 1), 1000.0 * round(1.0 - 0.1 * args[1], 3)
            if not (close(sl, ws) and close(pw, wp)):
                B.violation("state.stepLength-power", "step length / power seen at a node are not those of the step that starts there", dict(inp, event=[kind, list(args)], seen=[sl, pw], want=[ws, wp]))
                break
    for d in conf["stack"]:
        if d["pattern"] is not None and not insts[d["name"]].prev_ok:
            B.violation("coupling.previous-value-not-stored", "the coupler's previous-iteration value was not stored before the coupled hooks ran", inp)
            break
    if conf["tightCoupling"]:
        STATS["runs_with_coupling"] += 1
        its = {}
        for k, a, s, it, _n in want:
            if k == "Coupled":
                its[s] = max(its.get(s, 0), it)
        STATS["max_coupled_iterations_hit"] += sum(1 for v in its.values() if v == conf["maxIters"])
        STATS["early_convergence"] += sum(1 for v in its.values() if v < conf["maxIters"])


_TITLE = [0]
_FIRST = {}


def first_db(base_cs, r, bs):
    """Database of a complete run (real MainInterface + DatabaseInterface) of the history `bs`, written once per history."""
    key = tuple(bs)
    if key not in _FIRST or not os.path.exists(_FIRST[key]):
        conf = {"burnSteps": list(bs), "startCycle": 0, "startNode": 0, "tightCoupling": False, "maxIters": 1, "skipCycles": [],
                "stack": [{"name": "base", "enabled": True, "bolForce": False, "reverse": False, "index": None, "halt": None, "pattern": None}],
                "deferred": [], "deferredCycle": 0, "restartVia": "preset", "real": True}
        B.case(("run", json.dumps(conf, sort_keys=True)))
        run_operator(base_cs, r, conf)  # the full run is itself held against the schedule oracle
        _FIRST[key] = os.path.abspath("c15run%d.h5" % _TITLE[0])
    return _FIRST[key]


def gen_conf(rng, bs, sc, sn, via="preset"):
    coupling = rng.random() < 0.6 and via != "main"  # with the real DatabaseInterface the dummy "database" cannot be stacked
    max_iters = rng.randint(1, 4)
    skip = sorted(c for c in range(len(bs)) if rng.random() < 0.25) if coupling else []
    stack, deferred, dcycle = gen_stack(rng, bs, sc, coupling, max_iters)
    if via == "bol":
        stack.insert(0, {"name": "restarter", "enabled": True, "bolForce": False, "reverse": rng.random() < 0.3, "index": None, "halt": None, "pattern": None})
        for d in stack[1:]:
            if d["index"] is not None:
                d["index"] = min(d["index"] + rng.randint(0, 1), stack.index(d))  # sometimes ahead of the restarter, mostly behind it
    return {"burnSteps": list(bs), "startCycle": sc, "startNode": sn, "tightCoupling": coupling, "maxIters": max_iters, "skipCycles": skip,
            "stack": stack, "deferred": deferred, "deferredCycle": dcycle, "restartVia": via}


def part_operator(base_cs, r):
    rng = random.Random(B.seed * 7 + 3)
    vectors = [()]
    out = []
    for _ in range(3):
        vectors = [v + (b,) for v in vectors for b in range(4)]
        out.extend(vectors)
    for bs in out:
        points = [(c, n) for c in range(len(bs)) for n in range(bs[c] + 1)]
        if THOROUGH:
            chosen = [(p, k) for p in points for k in range(12 if p == (0, 0) else 8)]
        else:
            chosen = [((0, 0), 0), ((0, 0), 1), (rng.choice(points), 0), (rng.choice(points), 1)]
        for (sc, sn), _k in chosen:
            conf = gen_conf(rng, bs, sc, sn)
            if (sc, sn) != (0, 0):
                STATS["runs_restart"] += 1
            if conf["deferred"]:
                STATS["runs_deferred"] += 1
            B.case(("run", json.dumps(conf, sort_keys=True)), sample=None)
            run_operator(base_cs, r, conf)
    # restart point established DURING the BOL event by an early recording interface: every restart point of every history
    for bs in out:
        for sc in range(len(bs)):
            for sn in range(bs[sc] + 1):
                for _k in range(4 if THOROUGH else 1):
                    conf = gen_conf(rng, bs, sc, sn, via="bol")
                    STATS["runs_restart_set_at_BOL"] += 1
                    B.case(("run", json.dumps(conf, sort_keys=True)), sample=None)
                    run_operator(base_cs, r, conf)
    # the real MainInterface restarting from the database of a previous full run (loadStyle fromDB, startCycle/startNode)
    if THOROUGH:
        hist = rng.sample(out, 40)
    else:
        hist = rng.sample([v for v in out if len(v) == 2 and 1 <= sum(v) <= 3], 3)  # each DB write costs ~0.2 s per node
    for bs in hist:
        for sc in range(len(bs)):
            for sn in range(bs[sc] + 1):
                if (sc, sn) == (0, 0):
                    continue  # nothing to load before (0, 0)
                conf = gen_conf(rng, bs, sc, sn, via="main")
                STATS["runs_restart_main_db"] += 1
                B.case(("run", json.dumps(conf, sort_keys=True)), sample=None)
                run_operator(base_cs, r, conf)


# ----------------------------------------------------------------------------------------------- 3. stack rules
def part_stack(base_cs, r):
    rng = random.Random(B.seed * 7 + 4)

    class P(Rec):
        name, function = "p", "fa"

    class P1(P):
        name = "p1"

    class P2(P1):
        name = "p2"

    class Q(Rec):
        name, function = "q", "fa"  # same function as P, unrelated class

    class S(Rec):
        name, function = "s", "fb"

    class S1(S):
        name = "s1"

    class T(Rec):
        name = "t"  # no function

    class U(Rec):
        name = "u"

    classes = [P, P1, P2, Q, S, S1, T, U]
    cs = base_cs
    for seqno in range(1500 if THOROUGH else 150):
        o = Operator(cs)
        o.reattach(r, cs)
        model = []  # list of dicts: inst, name, function, enabled, bolForce, reverse
        ops = []
        B.case(("stack", seqno), sample=None)
        for _step in range(rng.randint(2, 10 if THOROUGH else 6)):
            STATS["stack_ops"] += 1
            kind = rng.choice(["add"] * 5 + ["remove", "removeByName", "get", "getFn", "getBoth"])
            names = [m["name"] for m in model]
            if kind == "add":
                klass = rng.choice(classes)
                inst = klass(r, cs, [])
                if rng.random() < 0.2 and names:
                    inst.name = rng.choice(names)  # provoke a duplicate name
                elif rng.random() < 0.3:
                    inst.name = klass.name + "_%d" % rng.randint(0, 2)
                idx = rng.randint(0, len(model)) if rng.random() < 0.4 else None
                rev, en, bf = rng.random() < 0.4, rng.random() < 0.7, rng.random() < 0.4
                ops.append(["add", klass.__name__, inst.name, idx, rev, en, bf])
                inp = {"ops": ops}
                same_fn = [m for m in model if inst.function and m["function"] == inst.function]
                if inst.name in names:
                    expect = "dup"
                elif same_fn and isinstance(same_fn[0]["inst"], type(inst)):
                    expect = "ignored"  # existing one is the same class or more specific
                elif same_fn and isinstance(inst, type(same_fn[0]["inst"])):
                    expect = "replace"
                elif same_fn:
                    expect = "clash"
                else:
                    expect = "plain"
                try:
                    o.addInterface(inst, index=idx, reverseAtEOL=rev, enabled=en, bolForce=bf)
                    raised = None
                except RuntimeError as e:
                    raised = e
                except Exception as e:  # noqa: BLE001
                    B.violation("stack.add.unexpected-error", "addInterface raised %s" % type(e).__name__, inp)
                    break
                if expect == "dup":
                    B.check(raised is not None, "stack.add.duplicate-name-accepted", "an interface with an attached name was accepted", inp)
                elif expect == "clash":
                    B.check(raised is not None, "stack.add.same-function-unrelated-accepted", "a second, unrelated interface of the same function was accepted", inp)
                else:
                    B.check(raised is None, "stack.add.refused", "a legal addInterface was refused: %s" % raised, inp)
                    if raised is None and expect != "ignored":
                        if expect == "replace":
                            old = same_fn[0]
                            model.remove(old)
                            B.check(old["inst"].o is None and old["inst"].r is None, "stack.replace.old-not-detached", "the replaced interface is still attached", inp)
                        entry = {"inst": inst, "name": inst.name, "function": inst.function, "enabled": en, "bolForce": bf, "reverse": rev}
                        if idx is None:
                            model.append(entry)
                        else:
                            model.insert(idx, entry)
                        B.check(inst.o is o and inst.r is r, "stack.add.not-attached", "the added interface is not attached to operator and reactor", inp)
            elif kind in ("remove", "removeByName"):
                present = bool(model) and rng.random() < 0.75
                if present:
                    m = rng.choice(model)
                    target, tname = m["inst"], m["name"]
                else:
                    m, target, tname = None, U(r, cs, []), "nobody"
                ops.append([kind, tname])
                inp = {"ops": ops}
                try:
                    res = o.removeInterface(target) if kind == "remove" else o.removeInterface(interfaceName=tname)
                except Exception as e:  # noqa: BLE001
                    B.violation("stack.remove.unexpected-error", "removeInterface raised %s" % type(e).__name__, inp)
                    break
                B.check(bool(res) == present, "stack.remove.result", "removeInterface returns True exactly when it removed something", dict(inp, got=res))
                if present:
                    model.remove(m)
                    B.check(target.o is None and target.r is None, "stack.remove.not-detached", "the removed interface is still attached", inp)
            else:
                ops.append([kind])
                inp = {"ops": ops}
                qn = rng.choice(names + ["nobody"]) if kind in ("get", "getBoth") else None
                qf = rng.choice(["fa", "fb", "fc"]) if kind in ("getFn", "getBoth") else None
                ops[-1] += [qn, qf]
                hits = [m for m in model if (qn and m["name"] == qn) or (qf and m["function"] == qf)]
                try:
                    res = o.getInterface(name=qn, function=qf)
                    if len(hits) > 1:
                        B.violation("stack.get.ambiguous-accepted", "several interfaces match the name/function but no error", inp)
                    else:
                        B.check(res is (hits[0]["inst"] if hits else None), "stack.get.result", "getInterface returns another interface than the one with that name/function", inp)
                except RuntimeError:
                    B.check(len(hits) > 1, "stack.get.refused", "getInterface raised although at most one interface matches", inp)
            # the stack after every operation
            inp = {"ops": ops}
            real = o.getInterfaces()
            if not B.check([id(i) for i in real] == [id(m["inst"]) for m in model], "stack.order", "the interface stack differs from the documented result",
                           dict(inp, got=[i.name for i in real], want=[m["name"] for m in model])):
                break
            for i, m in zip(real, model):
                B.check(bool(i.enabled()) == m["enabled"] and bool(i.bolForce()) == m["bolForce"] and bool(i.reverseAtEOL) == m["reverse"], "stack.flags",
                        "enabled / bolForce / reverseAtEOL differ from what addInterface was given", dict(inp, name=i.name))
        o.removeAllInterfaces()
    r.o = None


class muted:
    """armi prints its event banners to fd 1 at every verbosity; keep stdout for the result line."""

    def __enter__(self):
        sys.stdout.flush()
        self.saved = os.dup(1)
        null = os.open(os.devnull, os.O_WRONLY)
        os.dup2(null, 1)
        os.close(null)

    def __exit__(self, *exc):
        sys.stdout.flush()
        os.dup2(self.saved, 1)
        os.close(self.saved)
        return False


# ----------------------------------------------------------------------------------------------- main
def main():
    with muted():
        o0, r = loadTestReactor(inputFileName="smallestTestReactor/armiRunSmallest.yaml", customSettings={"verbosity": "error"})
    runLog.setVerbosity("error")
    base_cs = o0.cs.modified(newSettings={"startCycle": 0, "startNode": 0})
    if B.replay is not None:
        conf = B.replay
        if "stack" not in conf:
            print(json.dumps({"result": "error", "why": "replay supports operator-run configurations (the input of schedule./who./state. violations)"}))
            return
        for k in ("at", "expected", "got", "before", "event", "seen", "want"):
            conf.pop(k, None)
        with muted():
            run_operator(base_cs, r, conf)
        print(json.dumps({"result": "fail" if B.violations else "pass", "violations": B.violations}, default=str))
        return
    with muted():
        nvec = part_nodes(base_cs)
        part_histories(base_cs)
        part_operator(base_cs, r)
        part_stack(base_cs, r)
    B.extra.update(STATS)
    B.extra["node_vectors_exhaustive"] = nvec
    B.extra["violation_counts"] = _COUNTS
    B.finish(exhaustive=False)


if __name__ == "__main__":
    here = os.getcwd()
    with tempfile.TemporaryDirectory() as tmp:
        os.chdir(tmp)
        try:
            main()
        finally:
            os.chdir(here)
