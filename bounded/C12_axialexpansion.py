"""C12 bounded tier: axial expansion / contraction of pin-type assemblies on the REAL armi code (nothing re-implemented).

Executable contract of property C12 wrapped around
    AxialExpansionChanger.performPrescribedAxialExpansion / performThermalAxialExpansion / setAssembly / axiallyExpandAssembly
    ExpansionData.setExpansionFactors / computeThermalExpansionFactors / determineTargetComponent, AssemblyAxialLinkage
(armi/reactor/converters/axialExpansionChanger/*.py, imported from the tree under test).

A *case* is a JSON-able descriptor {"asm": ..., "targets": seed|None, "setFuel": bool, "fresh": bool, "ops": [op, ...]} (<= 4 ops):
    asm  {"kind": "test", "material": "FakeMat"|"HT9", "hot": bool}         armi's buildTestAssemblyWithFakeMaterial
         {"kind": "generated", "seed": s}                                  seeded blocks from armi's _buildTestBlock/_buildDummySodium
                                                                           builders and a local variant with varied component sets
                                                                           (no clad / no duct / annular or thinner pin / other
                                                                           multiplicity / per-component materials), 1-7 blocks + dummy
         {"kind": "reactor", "type": t}                                    a design of the detailedAxialExpansion test reactor
    designate {"mode": fuel-nonfuel|nonfuel|mixed, "seed": s}  explicit target designation before the first change: every FUEL block gets a
         solid that is NOT the fuel (the clad if present) / non-fuel blocks get a seeded solid / both
    op   {"kind": "presc", "mode": uniform|block|component|fuel-only|identity|subset|big|fuel-vs-target, "seed": s}   growth fractions L1/L0
         (fuel-vs-target: per block the fuel grows by one fraction, the target and every other solid by another, |difference| >= 0.005)
         {"kind": "redesignate", "mode": change|remove, "seed": s}         between two changes: designate another solid / clear the parameter
         {"kind": "thermal", "mode": iso|gradient|random, "seed": s}       temperature grid/field over the assembly height
         {"kind": "inverse"}                                               the inverse of the previous op (1/g, or the old temperatures)
After EVERY op the clauses of the statement are evaluated; the expected elevations come from a naive bottom-up walk that uses only
the statement (each solid component grows by its fraction from the old block height, sits on the component it is linked to below -
else on the block below -, the block top is the top of its designated target component, the top dummy block takes up the rest).

violation ids (stable; `<clause>[.<circumstance>]`)
    change.exception                 an exception other than the documented refusals
    height.total                     total height / top of the top block changed (1e-12 relative)
    mesh.contiguous  mesh.positive  mesh.height-consistent  mesh.grid-bounds  mesh.locators
    boundary.target                  block top != top of its designated target component
    boundary.target-growth           target component did not grow by its fraction of the old block height
    boundary.walk                    block tops differ from the naive walk
    target.rule                      a block WITHOUT a designation got a target other than the documented one (fuel block: fuel; plenum/aclp: clad)
    target.designation-overridden    a block's designated target (Block.setAxialExpTargetComp / the axialExpTargetComponent parameter, set
                                     before the change by the blueprint, by this script - incl. NON-fuel components of FUEL blocks, with setFuel
                                     True and False - or by an earlier change) is not the block's target parameter after setAssembly / the change
    boundary.designated-target       block top != top of the component this script / the blueprint explicitly designated (incl. after the
                                     designation was changed or removed-and-reset between two changes with the same changer)
    target-mass.designated           mass of the explicitly designated target not conserved (it starts at the block bottom; else the id is
                                     target-mass.target-offset as for any target)
    component.stacked                linked component does not sit on the one below (or unlinked one not on the block below)
    component.height                 component height != fraction x old block height
    density.factor                   solid component densities != old / fraction (prescribed changes)
    density.fluid-changed            fluid densities changed by a prescribed change
    volume.stale                     component volume != area x block height after the change
    target-mass.linked-dimension     (temperature fields) the target's mass changed and its 2-D thermal expansion alone (material density
                                     factor x area ratio) does not conserve it - a radial dimension linked to another component
    target-mass[.target-offset]      mass of a block's target component not conserved below the top dummy block (1e-10);
                                     circumstance: the target component does not start at the bottom of its block after the change
                                     (the component it is linked to below is not that block's target and ended elsewhere)
    uniform-mass[.target-offset]     all solids of the block grew by one fraction but the mass of one of them changed
    inverse.heights / inverse.densities / inverse.masses [.nonuniform]   change followed by its inverse does not restore the state;
                                     circumstance: some block's solids had different fractions
    refuse.length-mismatch  refuse.nonpositive  refuse.state-changed     invalid factor inputs must raise and leave the assembly alone
Not failures (counted): refused_negative_height (ArithmeticError: the top block would get a negative height), refused_setup
(no/ambiguous target or ambiguous linkage in a generated assembly), refused_thermal_grid.
Bound: see B.bound.
"""
import copy
import json
import math
import os
import random
import sys
import tempfile
import time
import traceback

sys.path.insert(0, os.path.dirname(os.path.abspath(__file__)))
from common import Bounded, armi_ready

armi_ready()
import numpy as np
from armi import materials, runLog
from armi.materials.material import Fluid
from armi.reactor import grids
from armi.reactor.assemblies import HexAssembly
from armi.reactor.blocks import HexBlock
from armi.reactor.components import DerivedShape, UnshapedComponent
from armi.reactor.components.basicShapes import Circle, Hexagon
from armi.reactor.converters.axialExpansionChanger import AxialExpansionChanger
from armi.reactor.converters.tests import test_axialExpansionChanger as tax
from armi.reactor.flags import Flags
from armi.reactor.tests.test_reactors import loadTestReactor
from armi.tests import TEST_ROOT

materials.setMaterialNamespaceOrder(["armi.reactor.converters.tests.test_axialExpansionChanger", "armi.materials"])

B = Bounded(
    rule="case = (assembly descriptor, target-component seed, setFuel, changer reuse, sequence of <= 4 ops over prescribed growth-fraction "
    "vectors {uniform, per block, per component, fuel only, identity, subset of components, +-30%, fuel-vs-target}, explicit target designations and re-designations, temperature fields {isothermal, "
    "linear gradient, random} and `inverse of the previous op`); all clauses evaluated after every op; distinct = distinct descriptor; "
    "non-trivial = at least one component fraction != 1",
    bound="quick: armi's 4 axial-expansion test assemblies + 6 designs of the detailedAxialExpansion reactor + 150 generated assemblies "
    "(1-7 blocks + dummy, heights 3-60 cm, 0-1 missing component, thinner/annular/fewer pins, 5 materials, manual targets) x (6 sequences of "
    "<= 4 ops + 3 sequences with explicit target designation: FUEL blocks with a non-fuel target / non-fuel blocks / both, setFuel True "
    "and False, fuel and target growing differently, designation changed or removed between changes) = 1440 cases, ~5300 changes; 60 "
    "invalid-input cases. thorough: 2000 generated assemblies x (8 + 6) sequences (~28000 cases). Fractions 0.7-1.3, temperatures 25-700 C; "
    "hex pin assemblies with a top dummy block only.",
)
counts = {}
B.extra["violation_counts"] = counts
for k in ("refused_negative_height", "refused_setup", "refused_thermal_grid", "skipped_inverse", "changes", "target_offset_seen", "uniform_blocks_checked", "inverse_checked", "radial_nonconserving_seen", "designated_blocks_checked",
          "fuel_blocks_with_nonfuel_target_checked", "redesignations", "designated_mass_checked"):
    B.extra[k] = 0
B.extra["op_modes"] = {}
_seen = set()


def V(vid, what, case, detail=None):
    key = (vid, id(case))
    if key in _seen:
        return
    _seen.add(key)
    counts[vid] = counts.get(vid, 0) + 1
    if counts[vid] == 1 or B.replay is not None:  # one report per id; appended directly: Bounded.violation() keeps only the first 20
        B.violations.append({"id": vid, "what": what, "input": {"case": case, "detail": detail}})


def check(cond, vid, what, case, detail=None):
    if not cond:
        V(vid, what, case, detail)
    return bool(cond)


def solid(c):
    return not isinstance(c.material, Fluid)


def solids(b):
    return [c for c in b if solid(c)]


# ------------------------------------------------------------------------------------------------ assemblies
_reactor = []


def reactor():
    if not _reactor:
        _o, r = loadTestReactor(os.path.join(TEST_ROOT, "detailedAxialExpansion"))
        runLog.setVerbosity("error")
        _reactor.append(r)
    return _reactor[0]


def reactor_designs():
    out = []
    for a in reactor().core:
        if a.getType() not in out:
            out.append(a.getType())
    return out


KINDS = ["shield", "fuel", "fuel", "plenum", "aclp plenum", "control", "reflector", "grid plate"]
MATS = ["FakeMat", "HT9", "UZr", "B4C", "UraniumOxide"]


def gen_block(rng, kind, height, temp):
    """Pin-type block like armi's _buildTestBlock but with a seeded component set and per-component materials."""
    b = HexBlock(kind, height=height)
    common = {"Tinput": 25.0, "Thot": temp}
    pinName = kind.split()[0] if kind != "grid plate" else "grid plate"
    pinMat = rng.choice(MATS)
    structMat = rng.choice(["HT9", "FakeMat"])
    shape = rng.choice(["solid", "solid", "thin", "annular", "fewer"])
    od, idd, mult = 0.76, 0.0, 127.0
    if shape == "thin":
        od = 0.70
    elif shape == "annular":
        idd = 0.30
    elif shape == "fewer":
        mult = 61.0
    drop = rng.choice(["none", "none", "none", "clad", "duct", "pin"])
    plenum = kind.startswith(("plenum", "aclp"))
    if plenum:
        drop = "pin" if rng.random() < 0.5 else "duct" if drop == "duct" else "none"  # the clad is the target of plenum blocks
    if kind == "fuel" and drop == "pin":
        drop = "none"
    if drop != "pin":
        b.add(Circle(pinName, pinMat, od=od, id=idd, mult=mult, **common))
    if drop != "clad":
        b.add(Circle("clad", structMat, od=0.80, id=0.77, mult=127.0, **common))
    if drop != "duct":
        b.add(Hexagon("duct", structMat, op=16.0, ip=15.3, mult=1.0, **common))
    b.add(DerivedShape("coolant", "Sodium", **common))
    b.add(Hexagon("intercoolant", "Sodium", op=17.0, ip=16.0, mult=1.0, **common))
    b.setType(kind)
    b.getVolumeFractions()
    if drop == "pin" and not plenum:  # no component carries the block's flag: the target must be designated (as blueprints do)
        b.setAxialExpTargetComp(rng.choice(solids(b)))
    return b


def build_assembly(asm):
    if asm["kind"] == "test":
        return tax.buildTestAssemblyWithFakeMaterial(name=asm["material"], hot=asm.get("hot", False))
    if asm["kind"] == "reactor":
        a0 = next(a for a in reactor().core if a.getType() == asm["type"])
        return copy.deepcopy(a0)
    rng = random.Random(asm["seed"])
    a = HexAssembly("testAssemblyType")
    a.spatialGrid = grids.AxialGrid.fromNCells(numCells=1)
    a.spatialGrid.armiObject = a
    n = rng.randint(1, 7)
    temp = rng.choice([25.0, 25.0, 250.0])
    style = rng.choice(["armi", "armi", "varied", "varied", "varied"])
    oneMat = rng.choice(["FakeMat", "HT9"])
    for _ in range(n):
        kind = rng.choice(KINDS)
        h = rng.choice([3.0, 10.0, 10.0, 25.0, 60.0]) if rng.random() < 0.6 else round(rng.uniform(3.0, 40.0), 3)
        if style == "armi":
            kind = kind.split()[-1] if kind == "aclp plenum" else kind
            a.add(tax._buildTestBlock(kind if kind != "grid plate" else "shield", oneMat, temp, h))
        else:
            a.add(gen_block(rng, kind, h, temp))
    a.add(tax._buildDummySodium(temp, rng.choice([10.0, 25.0, 60.0])))
    a.calculateZCoords()
    a.reestablishBlockOrder()
    return a


def set_targets(a, seed):
    if seed is None:
        return
    rng = random.Random(seed)
    for b in list(a)[:-1]:
        if rng.random() < 0.35 and solids(b):
            b.setAxialExpTargetComp(rng.choice(solids(b)))


EXPLICIT = {}  # block index -> component name designated explicitly (by the blueprint or by this script) for the running case


def designate(a, spec):
    """Explicit designation as blueprints allow: FUEL blocks get a solid that is not the fuel, other blocks a seeded solid."""
    if not spec:
        return
    rng = random.Random(spec["seed"])
    for b in list(a)[:-1]:
        ss = solids(b)
        if b.hasFlags(Flags.FUEL) and spec["mode"] in ("fuel-nonfuel", "mixed"):
            non = [c for c in ss if not c.hasFlags(Flags.FUEL)]
            clad = [c for c in non if c.hasFlags(Flags.CLAD)]
            if non:
                b.setAxialExpTargetComp(clad[0] if clad and rng.random() < 0.7 else rng.choice(non))
        elif not b.hasFlags(Flags.FUEL) and spec["mode"] in ("nonfuel", "mixed") and ss and rng.random() < 0.7:
            b.setAxialExpTargetComp(rng.choice(ss))


def default_rule_applies(b):
    """The documented rule names a target without a designation: fuel block with a fuel component, plenum/aclp block with a clad."""
    if b.hasFlags(Flags.PLENUM) or b.hasFlags(Flags.ACLP):
        return len([c for c in b if c.hasFlags(Flags.CLAD)]) == 1
    return b.hasFlags(Flags.FUEL) and len([c for c in b if c.hasFlags(Flags.FUEL)]) == 1


def redesignate(a, op):
    rng = random.Random(op["seed"])
    n = 0
    for k, b in enumerate(list(a)[:-1]):
        if rng.random() < 0.6:
            continue
        ss = [c for c in solids(b) if c.name != b.p.axialExpTargetComponent]
        if op["mode"] == "remove":
            if default_rule_applies(b):
                b.p.axialExpTargetComponent = ""
                EXPLICIT.pop(k, None)
                n += 1
        elif ss:
            c = rng.choice(ss)
            b.setAxialExpTargetComp(c)
            EXPLICIT[k] = c.name
            n += 1
    return n


# ------------------------------------------------------------------------------------------------ independent facts
def linked(ca, cb):
    """The documented linkage criteria (solid, same class, same multiplicity, cold bounding diameters overlap)."""
    if not (solid(ca) and solid(cb)) or type(ca) is not type(cb) or isinstance(ca, UnshapedComponent):
        return False
    if ca.getDimension("mult") != cb.getDimension("mult"):
        return False
    inner = max(ca.getCircleInnerDiameter(cold=True), cb.getCircleInnerDiameter(cold=True))
    outer = min(ca.getBoundingCircleOuterDiameter(cold=True), cb.getBoundingCircleOuterDiameter(cold=True))
    return inner < outer


def lower_link(a, k, c):
    if k == 0:
        return None, 0
    cands = [x for x in solids(a[k - 1]) if linked(c, x)]
    return (cands[0] if len(cands) == 1 else None), len(cands)


def dll_percent(c, T):
    return c.material.linearExpansionPercent(Tc=T)


def snapshot(a):
    s = {"ztop": [b.p.ztop for b in a], "zbottom": [b.p.zbottom for b in a], "height": [b.getHeight() for b in a], "comps": [],
         "target": [b.p.axialExpTargetComponent for b in a]}
    for b in a:
        s["comps"].append([{"mass": c.getMass(), "dens": dict(c.getNumberDensities()), "T": c.temperatureInC, "area": c.getArea()} for c in b])
    return s


def rel(a, b):
    return abs(a - b) / max(abs(a), abs(b), 1e-300)


# ------------------------------------------------------------------------------------------------ ops
def presc_factors(a, op):
    rng = random.Random(op["seed"])
    mode = op["mode"]
    comps, fr = [], []
    lo, hi = (0.7, 1.3) if mode == "big" else (0.97, 1.03)
    g_all = rng.uniform(lo, hi)
    for b in list(a)[:-1]:
        g_b = rng.uniform(lo, hi)
        g_f = g_b + rng.choice([-1, 1]) * rng.uniform(0.005, 0.03)
        for c in solids(b):
            if mode == "fuel-vs-target":
                g = g_f if (c.hasFlags(Flags.FUEL) and c.name != b.p.axialExpTargetComponent) else g_b
            elif mode in ("uniform", "big"):
                g = g_all
            elif mode == "block":
                g = g_b
            elif mode == "component":
                g = rng.uniform(lo, hi)
            elif mode == "fuel-only":
                if not c.hasFlags(Flags.FUEL):
                    continue
                g = g_all
            elif mode == "identity":
                g = 1.0
            else:  # subset
                if rng.random() < 0.5:
                    continue
                g = rng.uniform(lo, hi)
            comps.append(c)
            fr.append(g)
    return comps, fr


def thermal_field(a, op):
    rng = random.Random(op["seed"])
    H = a.getTotalHeight()
    n = rng.choice([101, 400, 1000])
    grid = np.linspace(0.0, H, n)
    mode = op["mode"]
    if mode == "iso":
        field = np.zeros(n) + rng.choice([25.0, 100.0, 250.0, 350.0, 600.0, rng.uniform(25.0, 700.0)])
    elif mode == "gradient":
        t0, t1 = rng.uniform(25.0, 500.0), rng.uniform(25.0, 700.0)
        field = t0 + (t1 - t0) * grid / H
    else:
        field = np.array([rng.uniform(25.0, 700.0) for _ in range(n)])
    return grid, field


class Refused(Exception):
    pass


def apply_op(case, a, ch, op, prev):
    """Perform one change with the real code.  Returns name -> growth fraction per solid component (id(c) -> g), or raises Refused."""
    before = snapshot(a)
    g = {}
    if op["kind"] == "inverse":
        if prev is None:
            raise Refused("skipped_inverse")
        if prev["kind"] == "presc":
            comps = prev["comps"]
            fr = [1.0 / x for x in prev["fr"]]
            op = {"kind": "presc", "mode": "inverse", "comps": comps, "fr": fr}
        else:
            # back to the temperatures the components had before the previous change (possible as a field only if they were block-wise equal)
            temps = []
            for k, b in enumerate(a):
                ts = {prev["before"]["comps"][k][i]["T"] for i, _c in enumerate(b)}
                if len(ts) != 1:
                    raise Refused("skipped_inverse")
                temps.append(ts.pop())
            op = {"kind": "thermal", "mode": "inverse", "grid": [0.5 * (b.p.zbottom + b.p.ztop) for b in a], "field": temps}
    if op["kind"] == "presc":
        comps, fr = (op["comps"], op["fr"]) if "comps" in op else presc_factors(a, op)
        for c, x in zip(comps, fr):
            g[id(c)] = x
        rec = {"kind": "presc", "comps": comps, "fr": fr, "before": before}
        try:
            ch.performPrescribedAxialExpansion(a, comps, fr, setFuel=case["setFuel"])
        except ArithmeticError:
            raise Refused("refused_negative_height")
    else:
        grid, field = (np.array(op["grid"]), np.array(op["field"])) if "grid" in op else thermal_field(a, op)
        # expected block temperatures (mean of the field points inside the block) and growth fractions
        for b in a:
            pts = [field[i] for i, z in enumerate(grid) if b.p.zbottom <= z <= b.p.ztop]
            if not pts:
                raise Refused("refused_thermal_grid")
            T = float(np.mean(pts))
            for c in solids(b):
                g[id(c)] = (100.0 + dll_percent(c, T)) / (100.0 + dll_percent(c, c.temperatureInC))
        rec = {"kind": "thermal", "before": before}
        try:
            ch.performThermalAxialExpansion(a, grid, field, setFuel=case["setFuel"])
        except ArithmeticError:
            raise Refused("refused_negative_height")
    for b in list(a)[:-1]:
        for c in solids(b):
            g.setdefault(id(c), 1.0)
    rec["g"] = g
    rec["op"] = op
    return rec


# ------------------------------------------------------------------------------------------------ clauses after a change
def check_state(case, a, ch, rec, step):
    before, g = rec["before"], rec["g"]
    blocks = list(a)
    n = len(blocks)
    H0 = before["ztop"][-1]
    info = {"step": step, "op": {k: v for k, v in rec["op"].items() if k not in ("comps", "fr", "grid", "field")}}

    def det(**kw):
        d = dict(info)
        d.update(kw)
        return d

    tops = [b.p.ztop for b in blocks]
    bots = [b.p.zbottom for b in blocks]
    # total height
    tot = sum(b.getHeight() for b in blocks)
    check(rel(tot, sum(before["height"])) <= 1e-12 and tops[-1] == H0, "height.total", "total assembly height / top of the top block changed", case,
          det(before=sum(before["height"]), after=tot, top_before=H0, top_after=tops[-1]))
    # mesh
    check(bots[0] == 0.0 and all(bots[k] == tops[k - 1] for k in range(1, n)), "mesh.contiguous", "a block bottom is not the top of the block below", case, det(zbottom=bots, ztop=tops))
    check(all(b.getHeight() > 0.0 for b in blocks), "mesh.positive", "a block height is not positive", case, det(heights=[b.getHeight() for b in blocks]))
    check(all(abs(b.getHeight() - (tops[k] - bots[k])) <= 1e-12 * H0 for k, b in enumerate(blocks)), "mesh.height-consistent", "block height != ztop - zbottom", case,
          det(heights=[b.getHeight() for b in blocks], zbottom=bots, ztop=tops))
    gb = [float(x) for x in a.spatialGrid._bounds[2]]
    check(gb == [0.0] + tops, "mesh.grid-bounds", "axial grid bounds differ from the block elevations", case, det(bounds=gb, ztop=tops))
    okloc = all(b.spatialLocator.grid is a.spatialGrid and tuple(int(i) for i in b.spatialLocator.getCompleteIndices()) == (0, 0, k) for k, b in enumerate(blocks))
    check(okloc, "mesh.locators", "block locators are not (0,0,k) on the assembly grid", case, det(locators=[str(b.spatialLocator.getCompleteIndices()) for b in blocks]))
    # naive walk
    exp_top = {}
    walk_tops = []
    walk_ok = True
    for k, b in enumerate(blocks[:-1]):
        Hk = before["height"][k]
        # the designation in force: the explicit one (it holds until this script changes it) else what the block carried before the change
        des = EXPLICIT.get(k) or before["target"][k]
        now = b.p.axialExpTargetComponent
        if des:
            check(now == des, "target.designation-overridden", "the block's designated target component was replaced by the change", case,
                  det(block=k, block_type=b.getType(), designated=des, after=now, setFuel=case["setFuel"], explicit=k in EXPLICIT))
        tname = des or now
        tc = [c for c in b if c.name == tname]
        if len(tc) != 1:
            V("boundary.target", "the block has no unique designated target component", case, det(block=k, target=tname))
            walk_ok = False
            break
        tc = tc[0]
        bid = "boundary.designated-target" if k in EXPLICIT else "boundary.target"
        if bid == "boundary.designated-target":
            B.extra["designated_blocks_checked"] += 1
            if b.hasFlags(Flags.FUEL) and not tc.hasFlags(Flags.FUEL):
                B.extra["fuel_blocks_with_nonfuel_target_checked"] += 1
        # documented target rule where the block carried no designation
        if not des:
            if b.hasFlags(Flags.PLENUM) or b.hasFlags(Flags.ACLP):
                check(tc.hasFlags(Flags.CLAD), "target.rule", "plenum/aclp block without designation: the target must be the clad", case, det(block=k, target=tname))
            elif b.hasFlags(Flags.FUEL):
                check(tc.hasFlags(Flags.FUEL), "target.rule", "fuel block without designation: the target must be the fuel", case, det(block=k, target=tname))
        for ic, c in enumerate(b):
            if not solid(c):
                continue
            low, ncand = lower_link(a, k, c)
            if ncand > 1:
                walk_ok = False
                continue
            base = exp_top[id(low)] if low is not None else (walk_tops[k - 1] if k > 0 else 0.0)
            gc = g[id(c)]
            exp_top[id(c)] = base + gc * Hk
            d = det(block=k, component=c.name, g=gc, old_block_height=Hk, zbottom=c.zbottom, ztop=c.ztop, height=c.height,
                    linked_below=(low.name if low is not None else None), below_top=(low.ztop if low is not None else (tops[k - 1] if k else 0.0)))
            if low is not None:
                check(c.zbottom == low.ztop, "component.stacked", "a linked component does not sit on the top of the component below it", case, d)
            else:
                check(c.zbottom == (tops[k - 1] if k else 0.0), "component.stacked", "an unlinked component does not sit on the top of the block below", case, d)
            check(abs(c.height - gc * Hk) <= 1e-12 * H0 and abs(c.ztop - (c.zbottom + c.height)) <= 1e-12 * H0, "component.height", "component height is not its fraction of the old block height", case, d)
        check(b.p.ztop == tc.ztop, bid, "the block top is not the top of its designated target component", case,
              det(block=k, block_type=b.getType(), target=tname, block_top=b.p.ztop, target_top=tc.ztop, setFuel=case["setFuel"],
                  tops={c.name: c.ztop for c in solids(b)}))
        check(abs((tc.ztop - tc.zbottom) - g[id(tc)] * Hk) <= 1e-12 * H0, "boundary.target-growth", "the target component did not grow by its fraction", case,
              det(block=k, target=tname, g=g[id(tc)], old_block_height=Hk, zbottom=tc.zbottom, ztop=tc.ztop))
        walk_tops.append(exp_top.get(id(tc), float("nan")))
    if walk_ok:
        check(all(abs(x - y) <= 1e-11 * H0 for x, y in zip(walk_tops, tops)), "boundary.walk", "block tops differ from the bottom-up walk of the statement", case,
              det(expected=walk_tops, got=tops[:-1]))
    # densities, volumes, masses
    for k, b in enumerate(blocks):
        top = k == n - 1
        gs = [g[id(c)] for c in solids(b)] if not top else []
        uniform = bool(gs) and max(gs) - min(gs) <= 1e-15 * max(gs)
        tname = (EXPLICIT.get(k) or before["target"][k] or b.p.axialExpTargetComponent) if not top else ""
        explicit = (not top) and k in EXPLICIT
        offset = False
        if not top:
            tcs = [c for c in b if c.name == tname]
            offset = bool(tcs) and tcs[0].zbottom != b.p.zbottom
            if offset:
                B.extra["target_offset_seen"] += 1
            if uniform:
                B.extra["uniform_blocks_checked"] += 1
        sfx = ".target-offset" if offset else ""
        for ic, c in enumerate(b):
            old = before["comps"][k][ic]
            check(rel(c.getVolume(), c.getArea() * b.getHeight()) <= 1e-12, "volume.stale", "component volume != area x block height after the change", case,
                  det(block=k, component=c.name, volume=c.getVolume(), area_x_height=c.getArea() * b.getHeight()))
            if rec["kind"] == "presc":
                now = c.getNumberDensities()
                if solid(c) and not top:
                    ok = all(rel(now.get(nuc, 0.0) * g[id(c)], v) <= 1e-12 for nuc, v in old["dens"].items() if v)
                    check(ok, "density.factor", "number densities of a solid component are not old / fraction", case, det(block=k, component=c.name, g=g[id(c)]))
                else:
                    check(all(now.get(nuc, 0.0) == v for nuc, v in old["dens"].items()), "density.fluid-changed", "densities of a fluid / top-block component changed", case,
                          det(block=k, component=c.name))
            if top or not solid(c):
                continue
            m0, m1 = old["mass"], c.getMass()
            # a temperature change alone (2-D expansion: density factor of the material x area ratio) may already change the mass per unit
            # height when a radial dimension is linked to another component; the axial clause is then evaluated on top of that factor
            radial = 1.0
            if rec["kind"] == "thermal" and old["area"]:
                radial = c.material.getThermalExpansionDensityReduction(old["T"], c.temperatureInC) * c.getArea() / old["area"]
            d = det(block=k, component=c.name, g=g[id(c)], mass_before=m0, mass_after=m1, rel=rel(m0, m1), block_zbottom=b.p.zbottom, component_zbottom=c.zbottom,
                    fractions_in_block=gs, radial_factor=radial)
            if abs(radial - 1.0) > 1e-11:
                B.extra["radial_nonconserving_seen"] += 1
                if c.name == tname:
                    check(rel(m0, m1) <= 1e-10, "target-mass.linked-dimension", "mass of the block's target component not conserved (its 2-D thermal expansion alone does not conserve it)", case, d)
            if c.name == tname and explicit and not sfx:
                B.extra["designated_mass_checked"] += 1
            if c.name == tname:
                check(rel(m0 * radial, m1) <= 1e-10, "target-mass" + (sfx or (".designated" if explicit else "")), "mass of the block's target component not conserved", case, d)
            if uniform:
                check(rel(m0 * radial, m1) <= 1e-10, "uniform-mass" + sfx, "all solids of the block grew by one fraction but the mass of one of them changed", case, d)


def check_inverse(case, a, ref, rec, step):
    """rec = the forward change (with rec['before'] = state to be restored); a is in the state after the inverse change."""
    g = rec["g"]
    nonuni = False
    for b in list(a)[:-1]:
        gs = [g[id(c)] for c in solids(b)]
        if gs and max(gs) - min(gs) > 1e-15 * max(gs):
            nonuni = True
    sfx = ".nonuniform" if nonuni else ""
    before = rec["before"]
    H0 = before["ztop"][-1]
    B.extra["inverse_checked"] += 1
    tops = [b.p.ztop for b in a]
    info = {"step": step, "inverse_of": {k: v for k, v in rec["op"].items() if k not in ("comps", "fr", "grid", "field")}}
    check(all(abs(x - y) <= 1e-12 * H0 for x, y in zip(tops, before["ztop"])), "inverse.heights" + sfx, "change followed by its inverse does not restore the block elevations", case,
          dict(info, before=before["ztop"], after=tops))
    for k, b in enumerate(a):
        for ic, c in enumerate(b):
            old = before["comps"][k][ic]
            if not solid(c):
                continue
            now = c.getNumberDensities()
            okd = all(rel(now.get(nuc, 0.0), v) <= 1e-12 for nuc, v in old["dens"].items() if v)
            check(okd, "inverse.densities" + sfx, "change followed by its inverse does not restore the number densities", case, dict(info, block=k, component=c.name))
            check(rel(old["mass"], c.getMass()) <= 1e-10, "inverse.masses" + sfx, "change followed by its inverse does not restore the component masses", case,
                  dict(info, block=k, component=c.name, before=old["mass"], after=c.getMass()))


# ------------------------------------------------------------------------------------------------ parts
def run_sequence(case):
    try:
        EXPLICIT.clear()
        a = build_assembly(case["asm"])
        set_targets(a, case.get("targets"))
        designate(a, case.get("designate"))
        for k, b in enumerate(list(a)[:-1]):
            if b.p.axialExpTargetComponent:
                EXPLICIT[k] = b.p.axialExpTargetComponent
        ch = AxialExpansionChanger()
        ch.setAssembly(a, setFuel=case["setFuel"])
        for k, b in enumerate(list(a)[:-1]):
            if k in EXPLICIT:
                check(b.p.axialExpTargetComponent == EXPLICIT[k], "target.designation-overridden", "setAssembly replaced the block's designated target component", case,
                      {"step": "setAssembly", "block": k, "block_type": b.getType(), "designated": EXPLICIT[k], "after": b.p.axialExpTargetComponent, "setFuel": case["setFuel"], "explicit": True})
                tcs = [c for c in b if c.name == EXPLICIT[k]]
                check(len(tcs) == 1 and ch.expansionData.isTargetComponent(tcs[0]) and sum(ch.expansionData.isTargetComponent(c) for c in b) == 1,
                      "target.designation-overridden", "the changer does not treat exactly the designated component as the block's target", case,
                      {"step": "setAssembly", "block": k, "block_type": b.getType(), "designated": EXPLICIT[k], "setFuel": case["setFuel"],
                       "changer_targets": [c.name for c in b if ch.expansionData.isTargetComponent(c)]})
        for b in list(a)[:-1]:
            for c in solids(b):
                _low, ncand = lower_link(a, list(a).index(b), c)
                if ncand > 1:
                    raise RuntimeError("ambiguous linkage")
    except (RuntimeError, ValueError):
        if case["asm"]["kind"] == "generated":
            B.extra["refused_setup"] += 1
            return False
        V("change.exception", "setAssembly raised on a test assembly", case, traceback.format_exc()[-600:])
        return False
    prev = None
    nontrivial = False
    for step, op in enumerate(case["ops"]):
        if op["kind"] == "redesignate":
            B.extra["redesignations"] += redesignate(a, op)
            prev = None  # the previous change cannot be inverted across a change of targets
            continue
        if case.get("fresh"):
            ch = AxialExpansionChanger()
        try:
            rec = apply_op(case, a, ch, op, prev)
        except Refused as r:
            B.extra[str(r)] += 1
            if str(r) == "skipped_inverse":
                continue
            return nontrivial
        except Exception as e:
            V("change.exception", "the change raised", case, {"step": step, "op": op, "error": repr(e)[:300], "tb": traceback.format_exc()[-700:]})
            return nontrivial
        B.extra["changes"] += 1
        key = op["kind"] + ":" + op.get("mode", "")
        B.extra["op_modes"][key] = B.extra["op_modes"].get(key, 0) + 1
        if any(abs(x - 1.0) > 1e-15 for x in rec["g"].values()):
            nontrivial = True
        check_state(case, a, ch, rec, step)
        if op["kind"] == "inverse" and prev is not None:
            check_inverse(case, a, None, prev, step)
        prev = rec
    return nontrivial


def run_refuse(case):
    a = build_assembly(case["asm"])
    ch = AxialExpansionChanger()
    before = snapshot(a)
    comps = [c for b in list(a)[:-1] for c in solids(b)]
    rng = random.Random(case["seed"])
    bad = case["bad"]
    if bad == "length":
        fr = [1.01] * (len(comps) + rng.choice([-1, 1, 2]))
        vid = "refuse.length-mismatch"
    else:
        fr = [1.01] * len(comps)
        fr[rng.randrange(len(fr))] = rng.choice([0.0, -0.01, -1.0, -100.0])
        vid = "refuse.nonpositive"
    try:
        ch.performPrescribedAxialExpansion(a, comps, fr, setFuel=True)
        V(vid, "invalid expansion factors were accepted", case, {"n_components": len(comps), "factors": fr})
    except Exception:
        pass
    after = snapshot(a)
    check(after["ztop"] == before["ztop"] and all(x["dens"] == y["dens"] for bx, by in zip(after["comps"], before["comps"]) for x, y in zip(bx, by)),
          "refuse.state-changed", "a refused change modified the assembly", case, None)
    return True


RUN = {"sequence": run_sequence, "refuse": run_refuse}
PRESC = ["uniform", "block", "component", "fuel-only", "identity", "subset", "big", "fuel-vs-target"]
THERM = ["iso", "iso", "gradient", "random"]


def seq_for(rng, k):
    """k-th sequence pattern for an assembly."""
    def P(mode=None):
        return {"kind": "presc", "mode": mode or rng.choice(PRESC), "seed": rng.randrange(10 ** 6)}

    def T(mode=None):
        return {"kind": "thermal", "mode": mode or rng.choice(THERM), "seed": rng.randrange(10 ** 6)}

    I = {"kind": "inverse"}
    pats = [
        [P("uniform"), I, P("component"), I],
        [P("block"), I, T("iso"), I],
        [P("fuel-only"), I, P("subset"), P("identity")],
        [T("iso"), T("gradient"), T("iso"), I],
        [P("big"), I, P("component"), P("uniform")],
        [T("random"), P("uniform"), I, T("iso")],
    ]
    def R(mode):
        return {"kind": "redesignate", "mode": mode, "seed": rng.randrange(10 ** 6)}

    dpats = [  # used with an explicit designation (see cases())
        [P("fuel-vs-target"), I, T("iso"), P("fuel-vs-target")],
        [P("fuel-vs-target"), R("change"), P("fuel-vs-target"), I],
        [P("component"), R("remove"), P("fuel-vs-target"), R("change"), T("gradient")],
    ]
    if k >= 100:
        return dpats[(k - 100) % len(dpats)]
    if k < len(pats):
        return pats[k]
    n = rng.randint(1, 4)
    ops = []
    for _ in range(n):
        r = rng.random()
        ops.append(I if (ops and ops[-1]["kind"] != "inverse" and r < 0.3) else (P() if r < 0.75 else T()))
    return ops


def cases():
    T = B.thorough()
    rng = B.rng
    asms = [{"kind": "test", "material": m, "hot": h} for m in ("FakeMat", "HT9") for h in (False, True)]
    asms += [{"kind": "reactor", "type": t} for t in reactor_designs()]
    asms += [{"kind": "generated", "seed": B.seed * 100000 + s} for s in range(2000 if T else 150)]
    out = []
    for asm in asms:
        for k in range(8 if T else 6):
            out.append({"part": "sequence", "asm": asm, "targets": rng.randrange(10 ** 6) if (asm["kind"] == "generated" and rng.random() < 0.5) else None,
                        "setFuel": rng.random() < 0.8, "fresh": rng.random() < 0.3, "ops": seq_for(rng, k)})
        # explicit designations (FUEL blocks with a non-fuel target; non-fuel blocks), setFuel True and False alternating, same changer throughout
        for j in range(6 if T else 3):
            out.append({"part": "sequence", "asm": asm, "targets": None, "designate": {"mode": ["fuel-nonfuel", "mixed", "nonfuel"][j % 3], "seed": rng.randrange(10 ** 6)},
                        "setFuel": (j + len(out)) % 2 == 0, "fresh": False, "ops": seq_for(rng, 100 + j)})
    for k in range(400 if T else 60):
        out.append({"part": "refuse", "asm": asms[k % len(asms)], "bad": ["length", "nonpositive"][k % 2], "seed": rng.randrange(10 ** 6)})
    rng.shuffle(out)
    return out


def main():
    runLog.setVerbosity("error")
    here = os.getcwd()
    with tempfile.TemporaryDirectory() as tmp:
        os.chdir(tmp)
        try:
            if B.replay is not None:
                if "case" in B.replay and "part" not in B.replay:  # ./check --replay passes the recorded {"case": ..., "detail": ...}
                    B.replay = B.replay["case"]
                RUN[B.replay["part"]](B.replay)
                print(json.dumps({"result": "fail" if B.violations else "pass", "violations": sorted(counts), "details": [[v["id"], v["input"]["detail"]] for v in B.violations],
                                  "input": B.replay}, default=str))
                return
            budget = 1100.0 if B.thorough() else 80.0
            todo = cases()
            done = 0
            for c in todo:
                if B.spent() > budget:
                    break
                runLog.setVerbosity("error")
                nontrivial = RUN[c["part"]](c)
                done += 1
                B.case(json.dumps(c, sort_keys=True, default=str), sample=c, nontrivial=bool(nontrivial))
            B.extra["cases_planned"] = len(todo)
            B.extra["cases_run"] = done
        finally:
            os.chdir(here)
    B.finish(exhaustive=False)


main()
