"""C04 bounded tier: a reactor saved to the database loads back observationally equal.

Executable contract around the real ``Database.writeToDB`` -> ``Database.load`` (armi imported from the tree
under test).  The oracle is the property statement, expressed as an independent recursive comparison of two
reactor trees (``compare_trees``) - nothing is taken from what the database code returns.

Clauses (stable violation ids)

  whole state, original vs loaded       db.type db.name db.serial db.child-count db.child-order
                                        db.child-order.resorted db.parent-link db.grid db.locator db.locator-global
                                        db.locator.coordinate-to-index db.param-differs.<parameter name>
                                        db.param-none-to-default db.param-nan-to-none db.param-empty-to-none
                                        db.param-array-with-none db.param-unset-after-load db.material
                                        db.temperature db.dimension db.dimension.none-to-value db.dimension-link
                                        db.numdens db.volume db.mass db.area db.write-error db.load-error
  load the same snapshot twice          db.double-load.<clause>   (clause = locator, param-differs, child-order, ...)
  save a loaded reactor, load again     db.resave.<clause>  db.resave.error
  edge-value probes (one assignment)    the ids above, and db.write-error.<probe> / db.load-error.<probe>
  kernels ([P] rows of DESIGN.md run as executable checks)
    _packLocationsV3/_unpackLocationsV2 loc.pack-unpack loc.pack-length loc.pack-complete-indices
    Layout._createLayout counters       layout.preorder layout.index-in-data layout.num-children layout.grid-index
                                        layout.grouped layout.location layout.read-back
    Layout.computeAncestors             layout.ancestors
    StructuredGrid.reduce -> cls(*...)  grid.reduce grid.reduce-coords

Every id is reported once per run (first failing, replayable state + counts of states/objects/classes).
Not compared as raw parameters: Component.p.volume / p.area (documented lazy caches, observed through
getVolume()/getArea()); the spelling 'hex_corners_up' vs 'hex' of the same geometry type (recorded in
``geomType_spelling_normalised_by_rebuild``).  States in which a mutation made components overlap, or in which armi
itself raised half way through a mutation, are outside the quantifier and are skipped (counted).

Bound: see ``B = Bounded(...)`` below.
"""
import math
import os
import shutil
import sys
import tempfile
import time
import traceback

sys.path.insert(0, os.path.dirname(os.path.abspath(__file__)))
from common import Bounded, armi_ready

# armi writes its logs to stdout; the JSON result must be the last stdout line -> park fd 1 on /dev/null while working
_REAL_STDOUT = os.dup(1)
_DEVNULL = os.open(os.devnull, os.O_WRONLY)
sys.stdout.flush()
os.dup2(_DEVNULL, 1)

armi_ready()
import random

import numpy as np
from armi import runLog
from armi.bookkeeping.db import layout as layoutMod
from armi.bookkeeping.db.database import Database
from armi.bookkeeping.db.databaseInterface import DatabaseInterface
from armi.reactor import grids
from armi.reactor.blocks import Block
from armi.reactor.components import Component
from armi.reactor.composites import Composite
from armi.testing import TEST_ROOT, loadTestReactor, reduceTestReactorRings

B = Bounded(
    rule="test reactors (hex full/third core with pin multi-locations and SFP, Cartesian with/without pin lattice, "
    "theta-RZ), each in states reached by k in {0..3} cumulative seeded mutations (scalar/array/str/None parameter "
    "assignment, number density / temperature / dimension change, assembly swap, rotation, discharge to SFP, "
    "third->full core conversion); every state is written, loaded twice, re-saved and loaded again and compared "
    "object by object; kernels: random location lists, layouts of every state, random trees for computeAncestors, "
    "every distinct grid for reduce(); non-trivial = distinct (reactor, chain seed, k, mutation list) / kernel case",
    bound="quick: 4 reactors x (2 chains, 3-ring hex: 1) x k<=3 (<= 8 states each), 8 edge-value probes, 300 location lists, 200 random trees; "
    "thorough: 9 reactors, small ones x 10 chains x k<=3 (40 states), large ones x 2 chains (8 states), "
    "3000 location lists, 2000 random trees",
)

# one reported violation per id (first failing input + number of occurrences): common.Bounded keeps 20 at most and
# one broken clause must not hide the others
_FIRST = {}
_rawViolation = B.violation


def _violation(vid, what, inp):
    if vid not in _FIRST:
        _FIRST[vid] = [what, inp, 0]
    _FIRST[vid][2] += 1


B.violation = _violation

RTOL = 1e-9
# Component.p.volume / p.area are documented as caches that "are not safe to access directly": getVolume()/getArea()
# are the observation points (compare_physics)
LAZY_CACHES = {"volume", "area"}


# ----------------------------------------------------------------------------------------------------------------
# value comparison (independent of armi): NaN-aware, arrays by value, relative tolerance 1e-9
# ----------------------------------------------------------------------------------------------------------------
def _isnum(x):
    return isinstance(x, (int, float, np.integer, np.floating)) and not isinstance(x, (bool, np.bool_))


def num_eq(x, y):
    x = float(x)
    y = float(y)
    if math.isnan(x) or math.isnan(y):
        return math.isnan(x) and math.isnan(y)
    if x == y:
        return True
    if math.isinf(x) or math.isinf(y):
        return False
    return abs(x - y) <= RTOL * max(abs(x), abs(y))


def _isseq(x):
    return isinstance(x, (list, tuple, np.ndarray)) and not (isinstance(x, np.ndarray) and x.ndim == 0)


def val_eq(x, y):
    """Equality by value: containers (list/tuple/ndarray) are compared element-wise regardless of container type."""
    if x is None or y is None:
        return x is None and y is None
    if isinstance(x, np.ndarray) and x.ndim == 0:
        x = x.item()
    if isinstance(y, np.ndarray) and y.ndim == 0:
        y = y.item()
    if isinstance(x, (bool, np.bool_)) or isinstance(y, (bool, np.bool_)):
        return (_isnum(y) or isinstance(y, (bool, np.bool_))) and (_isnum(x) or isinstance(x, (bool, np.bool_))) and bool(x) == bool(y) and float(x) == float(y)
    if _isnum(x) and _isnum(y):
        return num_eq(x, y)
    if isinstance(x, (str, bytes)) or isinstance(y, (str, bytes)):
        return isinstance(x, str) == isinstance(y, str) and isinstance(x, bytes) == isinstance(y, bytes) and x == y
    if isinstance(x, dict) or isinstance(y, dict):
        if not (isinstance(x, dict) and isinstance(y, dict)) or set(x) != set(y):
            return False
        return all(val_eq(x[k], y[k]) for k in x)
    if _isseq(x) and _isseq(y):
        if len(x) != len(y):
            return False
        # fast path for big numeric arrays
        try:
            ax = np.asarray(x)
            ay = np.asarray(y)
            if ax.dtype.kind in "iuf" and ay.dtype.kind in "iuf":
                if ax.shape != ay.shape:
                    return False
                ax = ax.astype(float)
                ay = ay.astype(float)
                nanx = np.isnan(ax)
                if not np.array_equal(nanx, np.isnan(ay)):
                    return False
                ax = ax[~nanx]
                ay = ay[~nanx]
                with np.errstate(invalid="ignore"):
                    ok = (ax == ay) | (np.abs(ax - ay) <= RTOL * np.maximum(np.abs(ax), np.abs(ay)))
                return bool(np.all(ok))
        except Exception:
            pass
        return all(val_eq(p, q) for p, q in zip(x, y))
    if _isseq(x) or _isseq(y):
        return False
    try:
        return bool(x == y)
    except Exception:
        return False


def brief(v, n=120):
    if isinstance(v, np.ndarray):
        s = "ndarray%s%s" % (v.shape, np.array2string(v.ravel()[:6], precision=6))
    else:
        s = repr(v)
    return "%s:%s" % (type(v).__name__, s[:n])


# ----------------------------------------------------------------------------------------------------------------
# whole-state comparison
# ----------------------------------------------------------------------------------------------------------------
class Diffs:
    """Collected differences: (clause, key) -> [count, first example]."""

    def __init__(self):
        self.d = {}
        self.nodes = 0
        self.params = 0
        self.nontrivialParams = 0

    def add(self, clause, key, path, detail):
        k = (clause, key)
        if k not in self.d:
            self.d[k] = [0, {"at": path, "detail": detail}]
        self.d[k][0] += 1

    def __bool__(self):
        return bool(self.d)


def tname(o):
    return type(o).__name__


def path_of(o):
    names = []
    while o is not None:
        try:
            names.append("%s#%s" % (o.name, o.p.serialNum))
        except Exception:
            names.append(tname(o))
        o = o.parent
    return "/".join(reversed(names))


def param_value(o, name):
    """(assigned?, value).  Unassigned = no value and no default (ParameterError)."""
    try:
        return True, o.p[name]
    except Exception as e:  # ParameterError for NoDefault
        return False, type(e).__name__


def grid_fields(g):
    gp = g.reduce()
    bounds = gp.bounds
    return {
        "class": tname(g),
        "unitSteps": np.asarray(gp.unitSteps, dtype=float).tolist(),
        "bounds": [None if b is None else np.asarray(b, dtype=float).tolist() for b in bounds],
        "unitStepLimits": np.asarray(gp.unitStepLimits).tolist(),
        "offset": None if gp.offset is None else np.asarray(gp.offset, dtype=float).tolist(),
        # geometry type by meaning ('hex_corners_up' is documented to collapse to HEX; '' = none), spelling kept apart
        "geomType": str(g.geomType) if gp.geomType else "",
        "symmetry": str(gp.symmetry),
    }


def geom_spelling(g):
    return str(g.reduce().geomType)


def locator_desc(loc):
    """Independent description of a locator: kind + indices / sub-locations / coordinates."""
    if loc is None:
        return ("None",)
    if type(loc) is grids.MultiIndexLocation:
        return ("Multi", tuple(("Index" if type(s) is grids.IndexLocation else tname(s), tuple(_plain(s.i, s.j, s.k))) for s in loc))
    if type(loc) is grids.CoordinateLocation:
        return ("Coordinate", tuple(float(v) for v in (loc.i, loc.j, loc.k)))
    if type(loc) is grids.IndexLocation:
        return ("Index", tuple(_plain(loc.i, loc.j, loc.k)))
    return (tname(loc), tuple(_plain(loc.i, loc.j, loc.k)))


def _plain(*ijk):
    out = []
    for v in ijk:
        if isinstance(v, (int, np.integer)):
            out.append(int(v))
        else:
            out.append(("nonint", float(v)))
    return out


def locator_eq(da, db):
    if da[0] != db[0]:
        return False
    if da[0] == "None":
        return True
    if da[0] == "Coordinate":
        return all(num_eq(p, q) for p, q in zip(da[1], db[1]))
    return da[1] == db[1]


def compare_node(a, b, D):
    """Compare one pair of objects (not their children)."""
    p = path_of(a)
    D.nodes += 1
    if type(a) is not type(b):
        D.add("type", tname(a), p, [tname(a), tname(b)])
        return
    if a.name != b.name:
        D.add("name", tname(a), p, [a.name, b.name])
    if a.p.serialNum != b.p.serialNum:
        D.add("serial", tname(a), p, [int(a.p.serialNum), int(b.p.serialNum)])
    # grid
    ga, gb = a.spatialGrid, b.spatialGrid
    if (ga is None) != (gb is None):
        D.add("grid", tname(a), p, ["grid present" if ga is not None else "no grid", "grid present" if gb is not None else "no grid"])
    elif ga is not None:
        fa, fb = grid_fields(ga), grid_fields(gb)
        if not val_eq(fa, fb):
            bad = [k for k in fa if not val_eq(fa[k], fb[k])]
            D.add("grid", tname(a) + "." + ",".join(bad), p, {k: [fa[k], fb[k]] for k in bad})
        elif geom_spelling(ga) != geom_spelling(gb):
            SPELLING.add((geom_spelling(ga), geom_spelling(gb)))
        if gb.armiObject is not b:
            D.add("grid", tname(a) + ".armiObject", p, "loaded grid is not anchored to its object")
    # locator
    la, lb = a.spatialLocator, b.spatialLocator
    da, db = locator_desc(la), locator_desc(lb)
    LOCATOR_KINDS[da[0]] = LOCATOR_KINDS.get(da[0], 0) + 1
    if not locator_eq(da, db):
        D.add("locator.coordinate-to-index" if (da[0], db[0]) == ("Coordinate", "Index") else "locator", tname(a) + ":" + da[0] + "->" + db[0], p, [da, db])
    else:
        if la is not None and a.parent is not None and b.parent is not None:
            if (la.grid is not None and la.grid is a.parent.spatialGrid) != (lb.grid is not None and lb.grid is b.parent.spatialGrid):
                D.add("locator", tname(a) + ":" + da[0] + ".grid-link", p, "locator bound to the parent's grid on one side only")
        if da[0] in ("Index", "Coordinate"):
            try:
                ca = np.asarray(la.getGlobalCoordinates(), dtype=float)
            except Exception:
                ca = None
            if ca is not None:
                try:
                    cb = np.asarray(lb.getGlobalCoordinates(), dtype=float)
                    if not val_eq(ca, cb):
                        D.add("locator-global", tname(a) + ":" + da[0], p, [ca.tolist(), cb.tolist()])
                except Exception as e:
                    D.add("locator-global", tname(a) + ":" + da[0], p, [ca.tolist(), "raises " + repr(e)[:80]])
    # parameters: every persistent parameter that has a value on the original
    dimNames = set(getattr(a, "DIMENSION_NAMES", ()))
    for pd in a.p.paramDefs:
        if not pd.saveToDB:
            continue
        name = pd.name
        if name in dimNames:
            continue  # compared as dimensions below
        if name in LAZY_CACHES and isinstance(a, Component):
            continue  # documented lazy caches (None = recompute): observed through getVolume()/getArea() instead
        hasA, va = param_value(a, name)
        if not hasA:
            continue  # not assigned: outside the quantifier
        D.params += 1
        hasB, vb = param_value(b, name)
        key = tname(a) + "." + name
        if not hasB:
            D.add("param-unset-after-load", key, p, [brief(va), vb])
            continue
        try:
            default = pd.default
            if not val_eq(va, default):
                D.nontrivialParams += 1
        except Exception:
            pass
        if val_eq(va, vb):
            continue
        if va is None:
            D.add("param-none-to-default", key, p, [brief(va), brief(vb)])
        elif vb is None and _isnum(va) and math.isnan(float(va)):
            D.add("param-nan-to-none", key, p, [brief(va), brief(vb)])
        elif vb is None and _isseq(va) and len(va) == 0:
            D.add("param-empty-to-none", key, p, [brief(va), brief(vb)])
        elif vb is None and _isseq(va) and any(x is None for x in va):
            D.add("param-array-with-none", key, p, [brief(va), brief(vb)])
        else:
            D.add("param-differs", key, p, [brief(va), brief(vb)])
    # components: material, temperatures, dimensions, number densities
    if isinstance(a, Component):
        if tname(a.material) != tname(b.material):
            D.add("material", tname(a), p, [tname(a.material), tname(b.material)])
        for attr in ("inputTemperatureInC", "temperatureInC"):
            ta, tb = getattr(a, attr), getattr(b, attr)
            if not val_eq(ta, tb):
                D.add("temperature", tname(a) + "." + attr, p, [ta, tb])
        for dim in a.DIMENSION_NAMES:
            hasA, va = param_value(a, dim)
            hasB, vb = param_value(b, dim)
            key = tname(a) + "." + dim
            if hasA != hasB:
                D.add("dimension", key, p, [brief(va), brief(vb)])
                continue
            if hasA and va is None and vb is not None:
                D.add("dimension.none-to-value", key, p, [brief(va), brief(vb)])
                continue
            if not hasA:
                continue
            linkA = isinstance(va, tuple)
            linkB = isinstance(vb, tuple)
            if linkA or linkB:
                sa = (va[0].name, va[1]) if linkA else None
                sb = (vb[0].name, vb[1]) if linkB else None
                if sa != sb:
                    D.add("dimension-link", key, p, [sa, brief(vb) if sb is None else sb])
                    continue
                if linkB and vb[0].parent is not b.parent:
                    D.add("dimension-link", key + ".sibling", p, "link target is not a sibling of the loaded component")
            elif not val_eq(va, vb):
                D.add("dimension", key, p, [brief(va), brief(vb)])
                continue
            for cold in (True, False):
                try:
                    xa = a.getDimension(dim, cold=cold)
                except Exception:
                    continue
                try:
                    xb = b.getDimension(dim, cold=cold)
                except Exception as e:
                    xb = "raises " + repr(e)[:80]
                if not val_eq(xa, xb):
                    D.add("dimension", key + (".cold" if cold else ".hot"), p, [brief(xa), brief(xb)])
        na, nb = dict(a.getNumberDensities()), dict(b.getNumberDensities())
        if not val_eq(na, nb):
            bad = sorted(set(na) ^ set(nb)) or [k for k in na if not val_eq(na[k], nb[k])]
            D.add("numdens", tname(a), p, {k: [na.get(k), nb.get(k)] for k in bad[:4]})


def compare_physics(a, b, D):
    """Derived queries (they fill armi's lazy caches, so they run after every state comparison is done)."""
    p = path_of(a)
    if isinstance(a, (Component, Block)):
        for what, fn in (("volume", "getVolume"), ("mass", "getMass"), ("area", "getArea")):
            try:
                xa = getattr(a, fn)()
            except Exception:
                continue  # the original cannot answer: outside the statement
            try:
                xb = getattr(b, fn)()
            except Exception as e:
                xb = "raises " + repr(e)[:80]
            if not val_eq(xa, xb):
                D.add(what, tname(a), p, [brief(xa), brief(xb)])
    if isinstance(a, Block):
        try:
            nucs = sorted(a.getNuclides())
            xa = a.getNuclideNumberDensities(nucs)
        except Exception:
            nucs = None
        if nucs is not None:
            try:
                xb = b.getNuclideNumberDensities(nucs)
                nb_ = sorted(b.getNuclides())
            except Exception as e:
                xb, nb_ = "raises " + repr(e)[:80], None
            if nb_ != nucs or not val_eq(xa, xb):
                D.add("numdens", tname(a) + ".homogenized", p, "block nuclides / homogenized number densities differ")


def compare_trees(a, b, D=None, pairs=None):
    """Recursive comparison original ``a`` vs loaded ``b``; ``pairs`` collects the matched objects."""
    D = D if D is not None else Diffs()
    stack = [(a, b)]
    while stack:
        x, y = stack.pop()
        compare_node(x, y, D)
        if type(x) is not type(y):
            continue
        if pairs is not None:
            pairs.append((x, y))
        cx, cy = list(x), list(y)
        for c in cy:
            if c.parent is not y:
                D.add("parent-link", tname(c), path_of(x), "loaded child's parent is not the object that lists it")
        kx = [(tname(c), int(c.p.serialNum)) for c in cx]
        ky = [(tname(c), int(c.p.serialNum)) for c in cy]
        if kx == ky:
            stack.extend(zip(cx, cy))
            continue
        if sorted(kx) != sorted(ky) or len(set(kx)) != len(kx):
            D.add("child-count" if len(kx) != len(ky) else "child-order", tname(x) + ".children-differ", path_of(x),
                  {"n": [len(kx), len(ky)], "onlyOriginal": sorted(set(kx) - set(ky))[:5], "onlyLoaded": sorted(set(ky) - set(kx))[:5]})
            by = {k: c for k, c in zip(ky, cy)}
            stack.extend((c, by[k]) for k, c in zip(kx, cx) if k in by)
            continue
        # same children, different order
        firstBad = next(i for i, (p, q) in enumerate(zip(kx, ky)) if p != q)
        try:
            resorted = [(tname(c), int(c.p.serialNum)) for c in sorted(cx)] == ky and [(tname(c), int(c.p.serialNum)) for c in sorted(cx)] != kx
        except Exception:
            resorted = False
        D.add("child-order.resorted" if resorted else "child-order", tname(x), path_of(x),
              {"firstDifferentPosition": firstBad, "original": kx[firstBad], "loaded": ky[firstBad],
               "note": "original children were not in sorted (location) order; load returns them sorted" if resorted else "permutation"})
        by = {k: c for k, c in zip(ky, cy)}
        stack.extend((c, by[k]) for k, c in zip(kx, cx))
    return D


# ----------------------------------------------------------------------------------------------------------------
# kernels
# ----------------------------------------------------------------------------------------------------------------
def kernel_locations(nLists):
    """unpack(pack(L)) == L for lists over {None, Index, Coordinate, Multi(n)}; consumed length = sum(1 or n)."""
    rng = B.rng
    gridsAvail = [
        grids.HexGrid.fromPitch(1.3, numRings=3),
        grids.CartesianGrid.fromRectangle(1.26, 1.26, numRings=4),
        grids.AxialGrid.fromNCells(6),
        grids.ThetaRZGrid(bounds=(np.linspace(0, 2 * math.pi, 7), np.array([0.0, 1.5, 2.0, 7.25]), np.array([0.0, 10.0, 25.0]))),
    ]
    kindsSeen = set()
    for n in range(nLists):
        L, expect = [], []
        for _ in range(rng.randint(0, 12) if n else 0):
            kind = rng.choice("NICM")
            g = rng.choice(gridsAvail)
            ijk = (rng.randint(-40, 40), rng.randint(-40, 40), rng.randint(0, 30))
            if kind == "N":
                L.append(None)
                expect.append(("N", None))
            elif kind == "I":
                L.append(grids.IndexLocation(*ijk, g) if rng.random() < 0.5 else g[ijk])
                expect.append(("I", ijk))
            elif kind == "C":
                xyz = (rng.uniform(-500, 500), rng.choice([0.0, rng.uniform(-1, 1), 1e-12, 123456.789]), float(rng.randint(-3, 3)))
                L.append(grids.CoordinateLocation(*xyz, rng.choice([None, g])))
                expect.append(("C", xyz))
            else:
                m = rng.choice([0, 1, 1, 2, 3, 7, 19, 61, 271]) if rng.random() < 0.8 else rng.randint(0, 400)
                subs = [(rng.randint(-20, 20), rng.randint(-20, 20), rng.randint(0, 5)) for _ in range(m)]
                ml = grids.MultiIndexLocation(g)
                ml.extend([g[s] if rng.random() < 0.7 else grids.IndexLocation(*s, g) for s in subs])
                L.append(ml)
                expect.append(("M", subs))
        sig = "".join(k for k, _ in expect)
        kindsSeen.update(sig)
        B.case(("loc", n, sig), {"kernel": "loc", "kinds": sig} if n < 2 else None)
        inp = {"kinds": sig, "expect": expect}
        try:
            types, data = layoutMod._packLocationsV3(L)
            nExpected = sum(len(v) if k == "M" else 1 for k, v in expect)
            B.check(len(types) == len(L) and len(data) == nExpected, "loc.pack-length", "packed data length is not sum(1 or n)", inp)
            # what the file holds: one float/int 2-D dataset, read back with [:].tolist()
            stored = np.array(data).tolist() if data else []
            storedTypes = np.char.decode(np.array(types).astype("S")).tolist() if types else []
            back = layoutMod._unpackLocationsV2(storedTypes, stored)
        except Exception as e:
            B.violation("loc.pack-unpack", "pack/unpack raised " + repr(e)[:200], inp)
            continue
        ok = len(back) == len(expect)
        for got, (k, v) in zip(back, expect):
            if k == "N":
                ok &= got is None
            elif k == "I":
                ok &= isinstance(got, tuple) and got == v and all(type(x) is int for x in got)
            elif k == "C":
                ok &= isinstance(got, tuple) and len(got) == 3 and all(float(p) == float(q) for p, q in zip(got, v))
            else:
                ok &= isinstance(got, list) and len(got) == len(v) and all(isinstance(s, tuple) and s == w and all(type(x) is int for x in s) for s, w in zip(got, v))
        B.check(bool(ok), "loc.pack-unpack", "unpack(pack(L)) differs from L (kind, indices, coordinates, sub-location count/order)", inp)
    B.extra["location_kinds_hit"] = sorted(kindsSeen)
    # index locations of a 1-D grid nested in a 2-D grid are stored with their complete indices
    core = Composite("c")
    core.spatialGrid = grids.HexGrid.fromPitch(1.0, numRings=3, armiObject=core)
    for ij in [(0, 0), (1, -1), (-2, 1)]:
        asm = Composite("a")
        asm.spatialGrid = grids.AxialGrid.fromNCells(4, armiObject=asm)
        asm.spatialLocator = core.spatialGrid[ij + (0,)]
        core.add(asm)
        for k in range(4):
            loc = asm.spatialGrid[0, 0, k]
            B.case(("loc-complete", ij, k), nontrivial=True)
            types, data = layoutMod._packLocationsV3([loc])
            B.check(types == ["I"] and [tuple(int(x) for x in d) for d in data] == [ij + (k,)], "loc.pack-complete-indices",
                    "index location of a nested axial grid is not packed as its complete (i,j,k)", [ij, k, str(data)])


def preorder(root):
    """Independent depth-first walk, children in sorted order (the documented layout order)."""
    out = []
    parentSn = []

    def walk(c, psn):
        out.append(c)
        parentSn.append(psn)
        for ch in sorted(c):
            walk(ch, int(c.p.serialNum))

    walk(root, None)
    return out, parentSn


def kernel_layout(r, tag):
    """Layout._createLayout bookkeeping and computeAncestors on a real tree."""
    B.case(("layout", repr(tag)), nontrivial=True)
    inp = {"state": tag}
    try:
        lay = layoutMod.Layout((layoutMod.DB_MAJOR, layoutMod.DB_MINOR), comp=r)
    except Exception as e:
        B.violation("layout.preorder", "Layout(comp=r) raised " + repr(e)[:200], inp)
        return None
    objs, parentSn = preorder(r)
    n = len(objs)
    ok = len(lay.type) == len(lay.name) == len(lay.serialNum) == len(lay.indexInData) == len(lay.numChildren) == len(lay.gridIndex) == len(lay.locationType) == len(lay.material) == len(lay.temperatures) == n
    ok = ok and list(lay.type) == [tname(o) for o in objs] and list(lay.name) == [o.name for o in objs] and [int(s) for s in lay.serialNum] == [int(o.p.serialNum) for o in objs]
    B.check(ok, "layout.preorder", "layout rows are not the pre-order walk (sorted children) of the tree", inp)
    if not ok:
        return lay
    seen = {}
    badIdx = badNc = badGrid = badGrouped = None
    for k, o in enumerate(objs):
        t = type(o)
        if lay.indexInData[k] != seen.get(t, 0) and badIdx is None:
            badIdx = [k, tname(o), int(lay.indexInData[k]), seen.get(t, 0)]
        seen[t] = seen.get(t, 0) + 1
        if lay.numChildren[k] != len(list(o)) and badNc is None:
            badNc = [k, tname(o), int(lay.numChildren[k]), len(list(o))]
        gi = lay.gridIndex[k]
        if o.spatialGrid is None:
            if gi is not None and badGrid is None:
                badGrid = [k, tname(o), "index for an object without grid"]
        else:
            try:
                gname, gp = lay.gridParams[gi]
                same = gname == tname(o.spatialGrid) and val_eq(grid_fields(o.spatialGrid), grid_fields(type(o.spatialGrid)(*gp)))
            except Exception as e:
                same = False
            if not same and badGrid is None:
                badGrid = [k, tname(o), "grid parameters at gridIndex are not this object's grid"]
        try:
            if lay.groupedComps[t][lay.indexInData[k]] is not o and badGrouped is None:
                badGrouped = [k, tname(o)]
        except Exception:
            badGrouped = badGrouped or [k, tname(o), "missing"]
    B.check(badIdx is None, "layout.index-in-data", "indexInData[k] is not the number of earlier objects of the same type", {"state": tag, "first": badIdx})
    B.check(badNc is None and sum(int(x) for x in lay.numChildren) == n - 1, "layout.num-children", "numChildren[k] is not len(object) / does not sum to n-1", {"state": tag, "first": badNc})
    B.check(badGrid is None, "layout.grid-index", "gridIndex does not select the object's grid parameters", {"state": tag, "first": badGrid})
    B.check(badGrouped is None, "layout.grouped", "groupedComps[type][indexInData[k]] is not the k-th object", {"state": tag, "first": badGrouped})
    # location columns against the independent description
    try:
        un = layoutMod._unpackLocationsV2(list(lay.locationType), [tuple(x) for x in lay.location])
        bad = None
        for k, (o, got) in enumerate(zip(objs, un)):
            d = locator_desc(o.spatialLocator)
            if d[0] == "None":
                good = got is None
            elif d[0] == "Multi":
                good = isinstance(got, list) and [tuple(g) for g in got] == [tuple(s[1]) for s in d[1]]
            elif d[0] == "Coordinate":
                good = isinstance(got, tuple) and all(float(p) == float(q) for p, q in zip(got, d[1]))
            else:
                want = tuple(int(x) for x in o.spatialLocator.getCompleteIndices())
                good = isinstance(got, tuple) and tuple(got) == want
            if not good and bad is None:
                bad = [k, tname(o), d[0], str(got)[:80]]
        B.check(bad is None and len(un) == n, "layout.location", "layout location columns do not describe the objects' locators", {"state": tag, "first": bad})
    except Exception as e:
        B.violation("layout.location", "unpacking the layout location columns raised " + repr(e)[:200], inp)
    # computeAncestors against real parents
    sn = np.array(lay.serialNum)
    nc = np.array(lay.numChildren)
    want1 = parentSn
    snToParent = dict(zip([int(o.p.serialNum) for o in objs], parentSn))
    want = want1
    for depth in (1, 2, 3, 4):
        try:
            got = layoutMod.Layout.computeAncestors(sn, nc, depth=depth)
            got = [None if g is None else int(g) for g in got]
        except Exception as e:
            got = "raises " + repr(e)[:100]
        B.check(got == want, "layout.ancestors", "computeAncestors(depth) is not the serial number of the depth-th pre-order ancestor", {"state": tag, "depth": depth})
        want = [None if w is None else snToParent[w] for w in want]
    return lay


def kernel_layout_readback(db, r, cyc, node, tag):
    """The layout read from the file describes the written tree (pre-order rows, counters, parents)."""
    objs, parentSn = preorder(r)
    try:
        lay = db.getLayout(cyc, node)
        ok = (
            [str(t) for t in lay.type] == [tname(o) for o in objs]
            and [str(t) for t in lay.name] == [o.name for o in objs]
            and [int(x) for x in lay.serialNum] == [int(o.p.serialNum) for o in objs]
            and [int(x) for x in lay.numChildren] == [len(list(o)) for o in objs]
        )
        seen, want = {}, []
        for o in objs:
            want.append(seen.get(type(o), 0))
            seen[type(o)] = want[-1] + 1
        ok = ok and [int(x) for x in lay.indexInData] == want
        ok = ok and [None if a is None else int(a) for a in layoutMod.Layout.computeAncestors(lay.serialNum, lay.numChildren)] == parentSn
        ok = ok and [str(m) for m in lay.material] == [tname(o.material) if isinstance(o, Component) else "" for o in objs]
    except Exception as e:
        ok = False
        tag = list(tag) + ["raised " + repr(e)[:120]]
    B.check(ok, "layout.read-back", "layout/* read from the file is not the pre-order description of the written tree", {"state": tag})


def kernel_random_trees(nTrees):
    rng = B.rng
    for t in range(nTrees):
        n = rng.randint(1, 60) if t else 1
        # random tree by random parent among earlier nodes, then emitted in pre-order
        children = {0: []}
        for i in range(1, n):
            par = rng.randrange(i) if rng.random() < 0.7 else i - 1
            children.setdefault(par, []).append(i)
            children.setdefault(i, [])
        label = rng.sample(range(1000, 1000 + 5 * n), n)  # serial numbers: distinct, not in pre-order
        sn, nc, parent = [], [], []

        def walk(i, p):
            sn.append(label[i])
            nc.append(len(children[i]))
            parent.append(p)
            for c in children[i]:
                walk(c, label[i])

        walk(0, None)
        B.case(("tree", tuple(nc)), {"kernel": "tree", "numChildren": nc} if t in (1, 2) else None)
        par = dict(zip(sn, parent))
        want = parent
        for depth in (1, 2, 3):
            try:
                got = layoutMod.Layout.computeAncestors(list(sn), list(nc), depth=depth)
                got2 = layoutMod.Layout.computeAncestors(np.array(sn), np.array(nc), depth=depth)
                got2 = [None if g is None else int(g) for g in got2]
            except Exception as e:
                got = got2 = "raises " + repr(e)[:100]
            B.check(got == want and got2 == want, "layout.ancestors", "computeAncestors on a random tree", {"serialNum": sn, "numChildren": nc, "depth": depth})
            want = [None if w is None else par[w] for w in want]


_gridsSeen = set()
_gridClasses = set()
LOCATOR_KINDS = {}
SPELLING = set()  # (raw geomType before, after) where only the spelling of the same geometry type changed


def kernel_grid_reduce(g, tag):
    """cls(*g.reduce()) is the same grid: reduce() fix point and same coordinates."""
    f = grid_fields(g)
    key = repr(f)
    if key in _gridsSeen:
        return
    _gridsSeen.add(key)
    _gridClasses.add((f["class"], f["symmetry"]))
    B.case(("grid", key), {"kernel": "grid", "class": f["class"], "symmetry": f["symmetry"]} if len(_gridsSeen) < 3 else None)
    inp = {"state": tag, "grid": f}
    try:
        g2 = type(g)(*g.reduce())
        g3 = type(g)(**g.reduce()._asdict())
    except Exception as e:
        B.violation("grid.reduce", "rebuilding from reduce() raised " + repr(e)[:200], inp)
        return
    B.check(val_eq(f, grid_fields(g2)) and val_eq(f, grid_fields(g3)), "grid.reduce", "reduce() of the rebuilt grid differs", inp)
    B.check(g2.isAxialOnly == g.isAxialOnly, "grid.reduce", "isAxialOnly changed by rebuild", inp)
    if geom_spelling(g2) != geom_spelling(g):
        SPELLING.add((geom_spelling(g), geom_spelling(g2)))
    cells = [idx for idx, _ in zip(g.items(), range(40))]
    for (idx, _loc) in cells:
        try:
            same = val_eq(np.asarray(g.getCoordinates(idx)), np.asarray(g2.getCoordinates(idx))) and val_eq(np.asarray(g.getCellBase(idx)), np.asarray(g2.getCellBase(idx)))
        except Exception:
            continue
        if not B.check(same, "grid.reduce-coords", "rebuilt grid gives different coordinates", {"state": tag, "grid": f, "cell": list(idx)}):
            break


# ----------------------------------------------------------------------------------------------------------------
# mutations (all random choices from the chain's rng)
# ----------------------------------------------------------------------------------------------------------------
# parameters that are structural (names, identity, time step, axial mesh, cross-section bookkeeping with coupled
# setters) or are inputs owned by the blueprints: assigning them arbitrarily leaves the reachable state space
DENY = {
    "serialNum", "flags", "type", "name", "assemNum", "cycle", "timeNode", "height", "heightBOL", "z", "ztop", "zbottom",
    "topIndex", "axMesh", "axialMesh", "referenceBlockAxialMesh", "orientation", "xsType", "xsTypeNum", "envGroup",
    "envGroupNum", "maxAssemNum", "numberDensities", "volume", "area", "mult", "temperatureInC", "customIsotopicsName",
    "mergeWith", "theoreticalDensityFrac", "detailedNucKeys", "multiplicity", "modArea", "nPins",
    # scaled in place by Component.setTemperature / changeNDensByFactor together with the number densities
    "detailedNDens", "pinNDens",
}


def objects_by_type(r):
    out = {}
    for o in [r] + list(r.iterChildren(deep=True)):
        out.setdefault(type(o), []).append(o)
    return out


def candidate_params(objs, kind):
    from armi.reactor import parameters

    o = objs[0]
    dims = set(getattr(o, "DIMENSION_NAMES", ()))
    out = []
    for pd in o.p.paramDefs:
        if not pd.saveToDB or pd.serializer is not None or pd.name in DENY or pd.name in dims:
            continue
        if parameters.Category.assignInBlueprints in (pd.categories or ()):
            continue
        d = pd.default
        if kind in ("scalar", "none") and type(d) is float:
            out.append(pd.name)
        elif kind == "int" and type(d) is int:
            out.append(pd.name)
        elif kind == "bool" and type(d) is bool:
            out.append(pd.name)
        elif kind == "str" and type(d) is str:
            out.append(pd.name)
        elif kind == "array" and d is None:
            cur = [param_value(x, pd.name)[1] for x in objs[:20]]
            if all(c is None or _isseq(c) for c in cur):
                out.append(pd.name)
    return out


def pick_types(byType, rng, n):
    ts = sorted(byType, key=lambda t: t.__name__)
    rng.shuffle(ts)
    return ts[:n]


def mut_scalar(o, r, rng):
    done = []
    byType = objects_by_type(r)
    for t in pick_types(byType, rng, 4):
        names = candidate_params(byType[t], "scalar")
        for name in rng.sample(names, min(3, len(names))):
            for x in byType[t]:
                if rng.random() < 0.8:
                    x.p[name] = rng.choice([rng.uniform(-1e3, 1e3), rng.random() * 1e-30, rng.uniform(1, 9) * 1e200, float(rng.randint(-5, 5))])
            done.append(t.__name__ + "." + name)
        for kind in ("int", "bool"):
            names = candidate_params(byType[t], kind)
            for name in rng.sample(names, min(1, len(names))):
                for x in byType[t]:
                    if rng.random() < 0.8:
                        x.p[name] = rng.randint(-(2**31), 2**31) if kind == "int" else rng.random() < 0.5
                done.append(t.__name__ + "." + name)
    return done


def mut_array(o, r, rng):
    done = []
    byType = objects_by_type(r)
    for t in pick_types(byType, rng, 4):
        names = candidate_params(byType[t], "array")
        for name in rng.sample(names, min(2, len(names))):
            variant = rng.choice(["regular", "regular2d", "jagged", "partial", "int"])
            n = rng.randint(1, 6)
            for x in byType[t]:
                if variant == "regular":
                    x.p[name] = np.array([rng.uniform(-10, 10) for _ in range(n)])
                elif variant == "regular2d":
                    x.p[name] = np.array([[rng.uniform(0, 1) for _ in range(n)] for _ in range(2)])
                elif variant == "jagged":
                    x.p[name] = np.array([rng.uniform(-10, 10) for _ in range(rng.randint(1, 6))])
                elif variant == "partial":
                    x.p[name] = None if rng.random() < 0.4 else np.array([rng.uniform(-10, 10) for _ in range(n)])
                else:
                    x.p[name] = np.array([rng.randint(-1000, 1000) for _ in range(n)])
            done.append(t.__name__ + "." + name + ":" + variant)
    return done


def mut_str(o, r, rng):
    done = []
    byType = objects_by_type(r)
    for t in pick_types(byType, rng, 6):
        names = candidate_params(byType[t], "str")
        for name in rng.sample(names, min(2, len(names))):
            for x in byType[t]:
                if rng.random() < 0.8:
                    x.p[name] = "".join(rng.choice("abcXYZ 019_-./") for _ in range(rng.randint(0, 12)))
            done.append(t.__name__ + "." + name)
    return done


def mut_none(o, r, rng):
    done = []
    byType = objects_by_type(r)
    for t in pick_types(byType, rng, 4):
        names = candidate_params(byType[t], "none")
        for name in rng.sample(names, min(2, len(names))):
            frac = rng.choice([0.3, 0.6])
            hit = 0
            for x in byType[t]:
                if rng.random() < frac and hit < len(byType[t]) - 1:  # never the whole column, see mut_none_all
                    x.p[name] = None
                    hit += 1
                elif rng.random() < 0.5:
                    x.p[name] = rng.uniform(-5, 5)
            done.append(t.__name__ + "." + name + ":%d" % hit)
    return done


def components(r):
    return [c for c in r.iterChildren(deep=True) if isinstance(c, Component)]


def mut_composition(o, r, rng):
    comps = [c for c in components(r) if c.getNumberDensities()]
    done = []
    for c in rng.sample(comps, min(max(3, len(comps) // 10), len(comps), 60)):
        nd = c.getNumberDensities()
        nuc = rng.choice(sorted(nd))
        c.setNumberDensity(nuc, nd[nuc] * rng.uniform(0.2, 3.0) + rng.choice([0.0, 1e-9]))
        if rng.random() < 0.3:
            c.setNumberDensity(rng.choice(["U235", "FE56", "NA23", "B10"]), rng.uniform(1e-8, 1e-3))
        done.append(int(c.p.serialNum))
    return ["n=%d" % len(done)]


def mut_temperature(o, r, rng):
    comps = components(r)
    n = 0
    for c in rng.sample(comps, min(max(3, len(comps) // 10), len(comps), 60)):
        c.setTemperature(float(c.temperatureInC) + rng.uniform(-20.0, 60.0))
        n += 1
    return ["n=%d" % n]


def mut_dimension(o, r, rng):
    comps = components(r)
    n = 0
    for c in rng.sample(comps, min(max(3, len(comps) // 20), len(comps), 30)):
        dims = [d for d in c.DIMENSION_NAMES if d not in ("mult", "modArea") and _isnum(param_value(c, d)[1]) and param_value(c, d)[1] > 0 and not isinstance(param_value(c, d)[1], tuple)]
        if not dims:
            continue
        d = rng.choice(sorted(dims))
        c.setDimension(d, c.getDimension(d, cold=True) * rng.uniform(0.999, 1.001), cold=True)
        n += 1
    return ["n=%d" % n]


def mut_freecoord(o, r, rng):
    """Give components that sit at free coordinates (not on a lattice position) other coordinates."""
    comps = [c for c in components(r) if type(c.spatialLocator) is grids.CoordinateLocation]
    if not comps:
        return None
    n = 0
    for c in rng.sample(comps, min(max(2, len(comps) // 20), len(comps), 30)):
        c.spatialLocator = grids.CoordinateLocation(round(rng.uniform(-3, 3), 3), round(rng.uniform(-3, 3), 3), rng.choice([0.0, 0.5]), c.spatialLocator.grid)
        n += 1
    return ["n=%d" % n]


def mut_swap(o, r, rng):
    asms = list(r.core)
    if len(asms) < 2:
        return None
    a1, a2 = rng.sample(asms, 2)
    l1, l2 = a1.spatialLocator, a2.spatialLocator
    a1.moveTo(l2)
    a2.moveTo(l1)
    return [a1.name, a2.name]


def mut_rotate(o, r, rng):
    from armi.reactor.assemblies import HexAssembly

    asms = [a for a in r.core if isinstance(a, HexAssembly)]
    if not asms:
        return None
    done = []
    for a in rng.sample(asms, min(3, len(asms))):
        steps = rng.randint(1, 5)
        a.rotate(steps * math.pi / 3.0)
        done.append("%s:%d" % (a.name, steps))
    return done


def mut_discharge(o, r, rng):
    sfp = None
    try:
        sfp = r.excore["sfp"]
    except Exception:
        pass
    asms = list(r.core)
    if sfp is None or len(asms) < 2:
        return None
    a = rng.choice(asms)
    r.core.removeAssembly(a, discharge=True)
    if a.parent is None and sfp.spatialGrid is not None:
        sfp.add(a)  # the case does not track discharged assemblies: put it into the pool by hand
    return [a.name + ("@sfp" if a.parent is sfp else "@gone")]


def mut_fullcore(o, r, rng):
    if "third" not in str(r.core.symmetry) or not isinstance(r.core.spatialGrid, grids.HexGrid) or len(r.core) > 40:
        return None
    r.core.growToFullCore(o.cs)
    return ["n=%d" % len(r.core)]


MUTATIONS = {
    "scalar": mut_scalar, "array": mut_array, "str": mut_str, "none": mut_none, "composition": mut_composition,
    "temperature": mut_temperature, "dimension": mut_dimension, "swap": mut_swap, "rotate": mut_rotate,
    "discharge": mut_discharge, "fullcore": mut_fullcore, "freecoord": mut_freecoord,
}
WEIGHTS = {"scalar": 3, "array": 3, "str": 2, "none": 2, "composition": 2, "temperature": 2, "dimension": 1, "swap": 2, "rotate": 2, "discharge": 1, "fullcore": 1, "freecoord": 1}


# ----------------------------------------------------------------------------------------------------------------
# reactors
# ----------------------------------------------------------------------------------------------------------------
def _load(fn, rings=None):
    o, r = loadTestReactor(TEST_ROOT, inputFileName=fn)
    if rings:
        reduceTestReactorRings(r, o.cs, maxNumRings=rings)
    runLog.setVerbosity("error")
    return o, r


REACTORS = {
    # name: (loader, small?)
    "smallest-hex-full": (lambda: _load("smallestTestReactor/armiRunSmallest.yaml"), True),
    "godiva-thetaRZ": (lambda: _load("godiva/godiva.armi.unittest.yaml"), True),
    "c5g7-cartesian-pins": (lambda: _load("c5g7/c5g7-settings.yaml"), True),
    "hex-third-3rings": (lambda: _load("armiRun.yaml", rings=3), True),
    "zppr-cartesian": (lambda: _load("zpprTest.yaml"), True),
    "hex-third-full": (lambda: _load("armiRun.yaml"), False),
    "cartesian-ref": (lambda: _load("refTestCartesian.yaml"), False),
    "anl-afci-177-hex": (lambda: _load("anl-afci-177/anl-afci-177.yaml"), False),
    "hex-detailedAxial": (lambda: _load("detailedAxialExpansion/armiRun.yaml"), False),
}
QUICK = ["smallest-hex-full", "godiva-thetaRZ", "c5g7-cartesian-pins", "hex-third-3rings"]


AGG = {}  # (violation id, clause, key) -> {"states": n, "objects": n, "first": {...}}


def report(D, clausePrefix, tag, what):
    """Collect differences; one violation per (id, clause, key) over the whole run (first state + counts)."""
    for (clause, key), (count, first) in D.d.items():
        if clausePrefix in ("db.double-load", "db.resave"):
            vid = clausePrefix + "." + clause.split(".")[0]  # e.g. db.resave.locator, db.double-load.param-differs
        elif clause == "param-differs":
            vid = "db.param-differs." + key.split(".", 1)[1]  # one id per parameter name
        else:
            vid = "db." + clause
        a = AGG.setdefault(vid, {"what": what + ": " + clause, "keys": {}, "objects": 0, "state": tag, "key": key, "first": first, "statesSeen": set()})
        a["statesSeen"].add(repr(tag))
        a["objects"] += count
        a["keys"][clause + ":" + key] = a["keys"].get(clause + ":" + key, 0) + count


def flush_report():
    """One violation per id: first failing state (replayable) + which classes/parameters and how many objects."""
    _flush_whole_state()
    for vid, (what, inp, n) in _FIRST.items():
        if isinstance(inp, dict):
            inp = dict(inp, occurrences=n, id=vid, seed=B.seed, tier=B.tier)
        if len(B.violations) < 20:
            _rawViolation(vid, what, inp)
        elif len(B.violations) < 80:
            # already one entry per id: keep them all, a known class must not push a new one out of the report
            B.violations.append({"id": vid, "what": what, "input": inp})


def _flush_whole_state():
    for vid, a in AGG.items():
        keys = dict(sorted(a["keys"].items(), key=lambda kv: -kv[1])[:12])
        B.violation(vid, a["what"], {"state": a["state"], "key": a["key"], "first": a["first"], "states": len(a["statesSeen"]), "objects": a["objects"], "keys": keys})


def physics(pairs, tag):
    D = Diffs()
    for x, y in pairs:
        compare_physics(x, y, D)
    report(D, "db", tag, "original vs loaded")


def physically_valid(r):
    """The property is about reactor states: components must not overlap (derived shapes have a volume)."""
    try:
        for c in r.iterChildren(deep=True):
            if isinstance(c, Component):
                c.getVolume()
        return True
    except Exception:
        return False


def roundtrip_state(o, r, tag, workdir, counters, probe=None):
    """Write r, load twice, re-save the loaded one, load again; compare everything.

    ``probe``: name of an edge-value probe - single load, and write/load failures get the probe's own id.
    """
    sfx = "." + probe if probe else ""
    r.p.cycle, r.p.timeNode = int(r.p.cycle), int(r.p.timeNode)
    cyc, node = r.p.cycle, r.p.timeNode
    # the database is named after the case (DatabaseInterface default), each file in its own directory, so that
    # "the same settings" (case title included) are what the load sees
    d1 = os.path.join(workdir, "w%d" % counters["files"])
    d2 = os.path.join(workdir, "w%d_resave" % counters["files"])
    os.makedirs(d1)
    os.makedirs(d2)
    f1 = f2 = o.cs.caseTitle + ".h5"
    counters["files"] += 1
    os.chdir(d1)
    # kernels on this very state
    kernel_layout(r, tag)
    for x in [r] + list(r.iterChildren(deep=True)):
        if x.spatialGrid is not None:
            kernel_grid_reduce(x.spatialGrid, tag)
    try:
        dbi = DatabaseInterface(r, o.cs)
        dbi.initDB(fName=f1)
        db = dbi.database
        try:
            db.writeToDB(r)
        finally:
            db.close(True)
    except Exception as e:
        B.violation("db.write-error" + sfx, "writeToDB raised " + repr(e)[:300], {"state": tag, "trace": traceback.format_exc()[-600:]})
        return
    try:
        with Database(f1, "r") as db:
            kernel_layout_readback(db, r, cyc, node, tag)
            r2 = db.load(cyc, node)
            r3 = None if probe else db.load(cyc, node)
    except Exception as e:
        B.violation("db.load-error" + sfx, "load raised " + repr(e)[:300], {"state": tag, "trace": traceback.format_exc()[-600:]})
        return
    runLog.setVerbosity("error")
    pairs = []
    D = compare_trees(r, r2, pairs=pairs)
    counters["nodes"] += D.nodes
    counters["params"] += D.params
    counters["nontrivialParams"] += D.nontrivialParams
    report(D, "db", tag, "original vs loaded")
    if probe:
        physics(pairs, tag)
        os.chdir(workdir)
        shutil.rmtree(d1, ignore_errors=True)
        shutil.rmtree(d2, ignore_errors=True)
        return
    D2 = compare_trees(r2, r3)
    report(D2, "db.double-load", tag, "two loads of the same snapshot differ")
    # save the loaded reactor to a new file and load again
    try:
        cs2 = o.cs
        os.chdir(d2)
        dbi = DatabaseInterface(r2, cs2)
        dbi.initDB(fName=f2)
        db = dbi.database
        try:
            db.writeToDB(r2)
        finally:
            db.close(True)
        with Database(f2, "r") as db:
            r4 = db.load(cyc, node)
    except Exception as e:
        B.violation("db.resave.error", "saving/loading the loaded reactor raised " + repr(e)[:300], {"state": tag, "trace": traceback.format_exc()[-600:]})
        physics(pairs, tag)
        return
    runLog.setVerbosity("error")
    D3 = compare_trees(r2, r4)
    report(D3, "db.resave", tag, "loaded vs (loaded -> saved -> loaded)")
    physics(pairs, tag)
    os.chdir(workdir)
    for d in (d1, d2):
        shutil.rmtree(d, ignore_errors=True)


# ----------------------------------------------------------------------------------------------------------------
# edge-value probes: one deterministic assignment each, on a column with several objects (blocks of the theta-RZ case)
# ----------------------------------------------------------------------------------------------------------------
def _pick(blocks, kind):
    names = candidate_params(blocks, kind)
    if not names:
        raise LookupError(kind)
    return names[0]


def probe_all_none(blocks):
    n = _pick(blocks, "none")
    for b in blocks:
        b.p[n] = None
    return n


def probe_nan_and_none(blocks):
    n = _pick(blocks, "none")
    for i, b in enumerate(blocks):
        b.p[n] = [float("nan"), None, 1.5][i % 3]
    return n


def probe_nan_only(blocks):
    n = _pick(blocks, "scalar")
    for i, b in enumerate(blocks):
        b.p[n] = [float("nan"), float("inf"), -0.0, 1.5][i % 4]
    return n


def probe_jagged_with_empty(blocks):
    n = _pick(blocks, "array")
    for i, b in enumerate(blocks):
        b.p[n] = [np.array([]), np.array([1.0, 2.0]), np.array([3.0])][i % 3]
    return n


def probe_str_non_ascii(blocks):
    n = _pick(blocks, "str")
    for b in blocks:
        b.p[n] = "f\u00fcel"
    return n


def probe_str_column_with_none(blocks):
    n = _pick(blocks, "str")
    for i, b in enumerate(blocks):
        b.p[n] = None if i % 2 else "x"
    return n


def probe_array_with_none_element(blocks):
    n = _pick(blocks, "array")
    for i, b in enumerate(blocks):
        b.p[n] = np.array([1.0, None, 3.0], dtype=object) if i % 2 else np.array([1.0, 2.0, 3.0])
    return n


def probe_plain_shapes(blocks):
    """Shapes that must simply survive: int, bool, int/float mix, tuple, 2-D jagged, strings with blanks / empty."""
    ni, nb, ns = _pick(blocks, "int"), _pick(blocks, "bool"), _pick(blocks, "str")
    na = candidate_params(blocks, "array")[:2]
    nf = candidate_params(blocks, "scalar")[:1]
    for i, b in enumerate(blocks):
        b.p[ni] = i - 3
        b.p[nb] = bool(i % 2)
        b.p[ns] = ["", " lead", "trail ", "a b"][i % 4]
        b.p[na[0]] = np.ones((2, 1 + i % 3)) * i
        b.p[na[1]] = (1.0 * i, 2.0)
        b.p[nf[0]] = i if i % 2 else i + 0.5
    return [ni, nb, ns] + na + nf


def probe_array_memory_layouts(blocks):
    """Array values that are NOT C-contiguous in memory (a transposed view such as fluxByGroupAndPin.T, a Fortran-ordered
    array, a strided / reversed view): what is stored and loaded is the LOGICAL array.  One parameter is ragged over
    the blocks (different shapes: the jagged path), the other has one shape for all blocks (the plain dataset path)."""
    na = candidate_params(blocks, "array")[:2]
    if len(na) < 2:
        raise LookupError("needs two array parameters")
    for i, b in enumerate(blocks):
        rows, cols = 2 + i % 2, 3 + i % 3
        table = np.arange(1.0, rows * cols + 1.0).reshape(cols, rows) + 100.0 * i
        big = np.arange(1.0, 4 * 6 + 1.0).reshape(4, 6) + 1000.0 * i
        ragged = [table.T, np.asfortranarray(table.T.copy()), big[1::2, ::2], table.T[::-1, ::-1]][i % 4]
        assert not ragged.flags["C_CONTIGUOUS"]
        b.p[na[0]] = ragged
        b.p[na[1]] = [np.asfortranarray(np.arange(6.0).reshape(2, 3) + i), (np.arange(6.0).reshape(3, 2) + i).T][i % 2]
    return na


PROBES = {
    "array-memory-layouts": probe_array_memory_layouts,
    "all-none-column": probe_all_none, "nan-and-none-column": probe_nan_and_none, "nan-inf-negzero": probe_nan_only,
    "jagged-with-empty": probe_jagged_with_empty, "str-non-ascii": probe_str_non_ascii,
    "str-column-with-none": probe_str_column_with_none, "array-with-none-element": probe_array_with_none_element,
    "plain-shapes": probe_plain_shapes,
}
PROBE_REACTOR = "godiva-thetaRZ"


def run_probe(pname, workdir, counters):
    o, r = REACTORS[PROBE_REACTOR][0]()
    blocks = [b for b in preorder(r)[0] if isinstance(b, Block)]
    tag = ["probe", pname, 0, [PROBE_REACTOR]]
    try:
        what = PROBES[pname](blocks)
    except LookupError:
        counters["mutations_skipped"] += 1
        return
    B.case(("probe", pname), {"probe": pname, "reactor": PROBE_REACTOR, "parameter": what})
    roundtrip_state(o, r, tag, workdir, counters, probe=pname)
    counters["states"] += 1
    counters["probes"] = counters.get("probes", 0) + 1


def run_chain(name, chainSeed, kmax, workdir, counters, onlyK=None):
    loader, _small = REACTORS[name]
    rng = random.Random("%s/%s/%s" % (B.seed, name, chainSeed))
    o, r = loader()
    applied = []
    for k in range(kmax + 1):
        if k > 0:
            # stratified: the slot (reactor, chain, k) fixes the first kind tried, so that a tier covers every kind;
            # every second slot and every fallback is a weighted random draw
            kinds = sorted(MUTATIONS)
            slot = list(REACTORS).index(name) * 5 + chainSeed * 3 + (k - 1)
            names = [m for m in MUTATIONS for _ in range(WEIGHTS[m])]
            for _try in range(8):
                m = kinds[slot % len(kinds)] if _try == 0 and (chainSeed + k) % 3 != 0 else rng.choice(names)
                try:
                    res = MUTATIONS[m](o, r, rng)
                except NotImplementedError:
                    res = None
                except Exception as e:
                    # the model itself refused the change half way: the state is not trustworthy, drop the chain
                    counters["chains_aborted"].append([name, chainSeed, k, m, repr(e)[:120]])
                    return
                if res is not None:
                    break
                counters["mutations_skipped"] += 1
            else:
                m, res = "noop", []
            applied.append(m)
            counters["mutations"][m] = counters["mutations"].get(m, 0) + 1
        if onlyK is not None and k != onlyK:
            continue
        if k > 0 and not physically_valid(r):
            # the mutation made components overlap (negative derived volume): not a reactor state, stop this chain
            counters["states_skipped_invalid"] += kmax + 1 - k
            break
        tag = [name, chainSeed, k, list(applied)]
        B.case((name, chainSeed, k, tuple(applied)), {"reactor": name, "chain": chainSeed, "k": k, "mutations": list(applied)})
        t0 = time.time()
        roundtrip_state(o, r, tag, workdir, counters)
        counters["states"] += 1
        counters["time_by_reactor"][name] = round(counters["time_by_reactor"].get(name, 0.0) + time.time() - t0, 2)


def main():
    counters = {"files": 0, "nodes": 0, "params": 0, "nontrivialParams": 0, "states": 0, "mutations": {}, "mutations_skipped": 0, "time_by_reactor": {}, "states_skipped_invalid": 0, "chains_aborted": []}
    cwd = os.getcwd()
    with tempfile.TemporaryDirectory(prefix="c04_") as workdir:
        os.chdir(workdir)
        try:
            if B.replay is not None:
                # input of a recorded violation: {"state": [reactor|"probe", chain|probe name, k, ...], "id", "seed", "tier"}
                rp = B.replay if isinstance(B.replay, dict) else {"state": B.replay}
                if "seed" in rp:
                    B.seed = int(rp["seed"])
                    B.rng = random.Random(B.seed)
                B.tier = rp.get("tier", B.tier)
                st = rp.get("state")
                if st and st[0] == "probe":
                    run_probe(st[1], workdir, counters)
                elif st:
                    run_chain(st[0], st[1], max(st[2], 0), workdir, counters, onlyK=st[2])
                else:  # a kernel case: the kernels are cheap, run them again as recorded
                    kernel_locations(3000 if B.thorough() else 300)
                    kernel_random_trees(2000 if B.thorough() else 200)
                os.chdir(cwd)
                flush_report()
                sys.stdout.flush()
                os.dup2(_REAL_STDOUT, 1)
                import json

                found = [v for v in B.violations if rp.get("id") in (None, v["id"])]
                print(json.dumps({"result": "fail" if found else "pass", "violations": found}, default=str))
                return
            kernel_locations(3000 if B.thorough() else 300)
            kernel_random_trees(2000 if B.thorough() else 200)
            if B.thorough():
                plan = [(n, 10 if small else 2) for n, (_l, small) in REACTORS.items()]
            else:
                plan = [(n, 1 if n == "hex-third-3rings" else 2) for n in QUICK]
            for pname in PROBES:
                try:
                    run_probe(pname, workdir, counters)
                except Exception as e:
                    B.violation("harness.error", "probe raised " + repr(e)[:300], {"state": ["probe", pname], "trace": traceback.format_exc()[-800:]})
            for name, chains in plan:
                for chainSeed in range(chains):
                    try:
                        run_chain(name, chainSeed, 3, workdir, counters)
                    except Exception as e:
                        B.violation("harness.error", "chain raised " + repr(e)[:300], {"state": [name, chainSeed], "trace": traceback.format_exc()[-800:]})
        finally:
            os.chdir(cwd)
    B.extra["states_roundtripped"] = counters["states"]
    B.extra["edge_value_probes"] = counters.get("probes", 0)
    B.extra["objects_compared"] = counters["nodes"]
    B.extra["parameter_values_compared"] = counters["params"]
    B.extra["parameter_values_nondefault"] = counters["nontrivialParams"]
    B.extra["mutations_applied"] = counters["mutations"]
    B.extra["mutations_skipped_not_applicable"] = counters["mutations_skipped"]
    B.extra["states_skipped_overlapping_components"] = counters["states_skipped_invalid"]
    B.extra["chains_aborted_mutation_raised"] = counters["chains_aborted"]
    B.extra["distinct_grids_rebuilt"] = len(_gridsSeen)
    B.extra["grid_classes_and_symmetries"] = sorted(_gridClasses)
    B.extra["locator_kinds_compared"] = LOCATOR_KINDS
    B.extra["seconds_by_reactor"] = counters["time_by_reactor"]
    B.extra["geomType_spelling_normalised_by_rebuild"] = sorted(SPELLING)
    flush_report()
    sys.stdout.flush()
    os.dup2(_REAL_STDOUT, 1)
    B.finish(exhaustive=False)


main()
