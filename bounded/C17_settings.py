"""C17 bounded tier: case settings survive a write/read cycle and reject what they cannot hold.

Executable contract on the REAL settings machinery (armi.settings.Settings, Setting, SettingsWriter, SettingsReader,
SettingRenamer, the XS / tight-coupling / cycles schemas); nothing of armi is copied or re-implemented here.

Clauses (ids are stable):

1. round trip   every setting of ``Settings()`` (enumerated completely and cross-checked against a walk over the framework
                definitions and every registered plugin) x values generated from its schema / options / default type
                x styles {short, medium, full}: ``Settings().loadFromString(text written by cs.writeToYamlStream)`` gives an
                equal value for EVERY setting; defaults stay default; the key set of the written text (parsed independently
                with ruamel's safe loader) is exactly {non-default} (short), {non-default} + {set by user} (medium), all (full).
                Plus seeded random subsets of several settings changed at once, and the file API
                (writeToYamlFile / Settings(path) / medium ``fromFile``) in a temporary directory.
2. rejection    near-miss invalid values are refused with an error on ``cs[name] = bad``, ``setting.setValue(bad)``,
                ``setting.value = bad`` and when read from text, and the previous (non-default) value stays in place.
3. renames      every (old name -> new name) registered in ``Setting.oldNames``: text using the old name loads and the value
                lands on the new name; an expired rename is refused (synthetic setting, real reader).
4. copies       ``modified(newSettings=...)``, ``duplicate()``, ``copy.deepcopy``, ``copy.copy`` and a pickle round trip give
                equal values and assignments to the copy do not show in the original and vice versa.

Violation ids: enumeration.incomplete, default.fresh-not-default, assign.valid-refused, assign.value-differs,
roundtrip.{write-raises, write-mutates-source, text-not-yaml, duplicate-key, read-raises, default-unreadable, file-read-raises,
written-key-not-recognised, value-differs, other-setting-changed, unicode-linebreak-differs}, versions.armi-stamped,
short.{omits-nondefault, writes-default, writes-unknown-key}, medium.{omits-nondefault, omits-user-set, writes-unlisted-default},
full.omits-setting, reject.{accepted-invalid, value-changed},
rename.{map-wrong, raises, lost, wrong-target, expired-accepted}, copy.{raises, value-differs, aliasing, assign-lost, modified-value-wrong}.
Two input classes have an id of their own (fixed a priori; one record each, for the smallest input, emitted first):
``versions.armi-stamped`` - the writer puts {armi: <running version>} into `versions`; used ONLY when the held and the written/read
value differ in nothing but the key 'armi' and that key holds the running version (smallest input: default Settings(), short style);
``roundtrip.unicode-linebreak-differs`` - a string holding U+0085/U+2028/U+2029; used ONLY when held and read-back value are equal
once every run of those characters and white space is replaced by one blank (smallest input: comment = U+0085, short style).
Any other difference on the same inputs gets the general ids, so these two cannot mask them.  At most 2 records per other id and
20 in total are emitted (all are counted in ``violation_counts``); records are clipped to ~4 KB.
Option lists declared WITHOUT enforcedOptions=True are suggestions (the schema is the arbiter): unlisted strings are valid values for
those settings (round-tripped like any other) and their near-miss option values are counted in
``skipped_non_enforced_option_values`` instead of being part of the rejection clause; enforced option lists are checked in full.  When the reader refuses the written text, the settings whose own block is refused are reported and the
remaining text is still read and compared, so that one unreadable setting does not hide the others.

Validity oracle.  A value is *valid* for a setting iff the setting's own schema admits it (the quantifier: "values admitted by
each setting's schema"); the schema is probed by calling it.  The value the setting must then hold is what the schema returns
(voluptuous ``Coerce`` is the documented way ARMI enforces the type, e.g. a tuple given to a list setting is held as a list;
this is the only list/tuple interchange tolerated, and it happens before the write).  Values are generated in the YAML-native
domain (None/bool/int/float/str/list/dict) because the medium named by the property is a settings *file*.
A value is *invalid* iff (a) the schema refuses it, or (b) it contradicts what the setting declares independently of the
schema object: a constraint stated in the setting's description/definition (hand-written table below), a non-numeric value for
a numeric setting, a scalar for a list/dict setting, or a value outside the setting's option list.

Equality.  Deep ``==`` (NaN equals NaN; XSModelingOptions compared attribute by attribute since the class has no __eq__).
A read-back value that is ``==`` but of another Python type (1 vs 1.0, True vs 1) is not a violation; it is counted in
``type_only_differences``.  A changed value is never tolerated.

Tolerated and counted instead of failed (``B.extra``): values of another type that the schema coerces into the setting's type
(``coerced_admitted``).  Two side channels of ``loadFromString`` are kept inside their documented domain because the load
itself interprets them: ``verbosity``/``branchVerbosity`` take their listed options, ``moduleVerbosity`` maps names to level
names / numeric strings.
"""
import sys, os

_REAL_STDOUT, _REAL_STDERR = sys.stdout, sys.stderr
_DEVNULL = open(os.devnull, "w")
sys.stdout = sys.stderr = _DEVNULL  # armi's runLog binds to the streams present at import; keep stdout for the JSON line

sys.path.insert(0, os.path.dirname(os.path.abspath(__file__)))
import collections
import copy
import datetime
import io
import json
import math
import pickle
import re
import tempfile
import traceback

from common import Bounded, armi_ready

armi_ready()
from ruamel.yaml import YAML
from armi import getApp
from armi.settings import Settings
from armi.settings.setting import Setting
from armi.settings import settingsIO, fwSettings
from armi.physics.neutronics.crossSectionSettings import XSModelingOptions

B = Bounded(
    "every setting of Settings() (complete enumeration, cross-checked against framework + plugin definitions) x values probed "
    "against its schema (options: all; numbers: ladder of boundary values the schema admits; strings: plain/empty/unicode/"
    "colon/YAML-special; lists: empty/singleton/many/mixed; bools: both; nested crossSectionControl, cycles, "
    "tightCouplingSettings) x styles short/medium/full; seeded subsets changed at once; file API; near-miss invalid values "
    "(assign 3 ways + read); every registered rename; 5 copy methods. non-trivial = distinct (clause, setting, value, style)",
    "values per setting: quick <= 6, thorough <= 30 (option lists always complete, up to 11); subsets: quick 30, thorough 400 (x3 styles); file-API cases: quick 8, "
    "thorough 40 (x3 styles); invalid values per setting: quick <= 8, thorough <= 24",
)
THOROUGH = B.thorough()
NVAL = 30 if THOROUGH else 6
NBAD = 24 if THOROUGH else 8
NSUBSETS = 400 if THOROUGH else 30
NFILE = 40 if THOROUGH else 8
STYLES = ("short", "medium", "full")

# ---------------------------------------------------------------------------------------------------------------------
# violations: at most 2 reproductions per id are forwarded (Bounded keeps 20 in total); all are counted
# ---------------------------------------------------------------------------------------------------------------------
VCOUNT = collections.Counter()
VSETTINGS = collections.defaultdict(set)


def jsonable(v):
    if isinstance(v, XSModelingOptions):
        return {k: jsonable(x) for k, x in v}
    if isinstance(v, dict):
        return {str(k) if not isinstance(k, (str, int, float, bool)) and k is not None else k: jsonable(x) for k, x in v.items()}
    if isinstance(v, (list, tuple)):
        return [jsonable(x) for x in v]
    if isinstance(v, bool) or v is None:
        return v
    if isinstance(v, int):
        return int(v)
    if isinstance(v, float):
        return float(v)
    if isinstance(v, str):
        return str(v)
    return repr(v)


KNOWN_CLASS_IDS = ("versions.armi-stamped", "roundtrip.unicode-linebreak-differs")  # one record each: the smallest input, emitted first


def shrink(inp, limit=4000):
    """Keep a violation record small: long change lists are cut down to the offending setting, long strings are clipped."""
    inp = jsonable(inp)
    if len(json.dumps(inp, default=str)) <= limit:
        return inp

    def clip(v, n):
        if isinstance(v, str):
            return v if len(v) <= n else v[:n] + "...<%d chars>" % len(v)
        if isinstance(v, list):
            return [clip(x, n) for x in v[:12]] + (["...<%d items>" % len(v)] if len(v) > 12 else [])
        if isinstance(v, dict):
            return {k: clip(x, n) for k, x in list(v.items())[:30]}
        return v

    if isinstance(inp, dict) and isinstance(inp.get("changes"), list) and len(inp["changes"]) > 4:
        focus = inp.get("setting") or inp.get("omitted") or inp.get("written")
        inp = dict(inp, changes_total=len(inp["changes"]), changes=[c for c in inp["changes"] if c and c[0] == focus][:1])
    for n in (300, 80, 20):
        out = clip(inp, n)
        if len(json.dumps(out, default=str)) <= limit:
            return out
    return {"clipped": json.dumps(out, default=str)[:limit]}


def V(vid, what, inp, setting=None):
    VCOUNT[vid] += 1
    if setting is not None:
        VSETTINGS[vid].add(setting)
    if VCOUNT[vid] <= (1 if vid in KNOWN_CLASS_IDS else 2):
        B.violation(vid, what, shrink(inp))
    return False


def check(cond, vid, what, inp, setting=None):
    if not cond:
        V(vid, what, inp, setting)
    return bool(cond)


# ---------------------------------------------------------------------------------------------------------------------
# equality / canonical forms
# ---------------------------------------------------------------------------------------------------------------------
def deq(a, b):
    """Deep ==, NaN equal to NaN, XSModelingOptions by attributes."""
    if isinstance(a, XSModelingOptions) or isinstance(b, XSModelingOptions):
        return isinstance(a, XSModelingOptions) and isinstance(b, XSModelingOptions) and deq(dict(iter(a)), dict(iter(b)))
    if isinstance(a, float) and isinstance(b, float) and math.isnan(a) and math.isnan(b):
        return True
    if isinstance(a, dict) and isinstance(b, dict):
        return set(a.keys()) == set(b.keys()) and all(deq(a[k], b[k]) for k in a)
    if isinstance(a, list) and isinstance(b, list) or isinstance(a, tuple) and isinstance(b, tuple):
        return len(a) == len(b) and all(deq(x, y) for x, y in zip(a, b))
    try:
        return bool(a == b)
    except Exception:
        return False


def norm(v):
    """Typed canonical form (hashable): used to dedupe generated values and to notice type-only differences."""
    if isinstance(v, XSModelingOptions):
        return ("xs", norm(dict(iter(v))))
    if isinstance(v, bool):
        return ("b", bool(v))
    if isinstance(v, int):
        return ("i", int(v))
    if isinstance(v, float):
        return ("f", "nan" if math.isnan(v) else repr(float(v) + 0.0))
    if isinstance(v, str):
        return ("s", str(v))
    if v is None:
        return ("n",)
    if isinstance(v, list):
        return ("l", tuple(norm(x) for x in v))
    if isinstance(v, tuple):
        return ("t", tuple(norm(x) for x in v))
    if isinstance(v, dict):
        return ("d", tuple(sorted(((norm(k), norm(x)) for k, x in v.items()), key=repr)))
    return ("o", type(v).__name__, repr(v))


def has_unicode_linebreak(v):
    if isinstance(v, str):
        return any(c in v for c in "\x85\u2028\u2029")
    if isinstance(v, dict):
        return any(has_unicode_linebreak(k) or has_unicode_linebreak(x) for k, x in v.items())
    if isinstance(v, (list, tuple)):
        return any(has_unicode_linebreak(x) for x in v)
    return False


def stamp_only(held, now):
    """True when ``now`` is ``held`` with nothing but the running armi version put under the key 'armi'."""
    strip = lambda d: {k: x for k, x in d.items() if k != "armi"}
    return isinstance(held, dict) and isinstance(now, dict) and deq(strip(held), strip(now)) and now.get("armi") == RUNNING_VERSION


def linebreak_explains(held, readBack):
    """True when the two values differ only where ``held`` has U+0085/U+2028/U+2029 (each read as some white space)."""
    def flat(v):
        if isinstance(v, str):
            return re.sub("[\x85\u2028\u2029\\s]+", " ", v)
        if isinstance(v, dict):
            return {flat(k): flat(x) for k, x in v.items()}
        if isinstance(v, (list, tuple)):
            return [flat(x) for x in v]
        return v
    return has_unicode_linebreak(held) and deq(flat(held), flat(readBack))


def values_of(cs):
    """name -> deep copy of the value held (read off the Setting objects: cs[name] refuses the simple-cycle names when
    ``cycles`` is set, which is access policy, not the value)."""
    return {n: copy.deepcopy(s.value) for n, s in cs.items()}


def diff(vals_a, vals_b):
    """Names whose values differ (deep ==), and names that are == but of another type."""
    changed, typed = [], []
    for n in vals_a:
        if n not in vals_b or not deq(vals_a[n], vals_b[n]):
            changed.append(n)
        elif norm(vals_a[n]) != norm(vals_b[n]):
            typed.append(n)
    changed += [n for n in vals_b if n not in vals_a]
    return changed, typed


# ---------------------------------------------------------------------------------------------------------------------
# enumeration of the settings (complete) and cross-check
# ---------------------------------------------------------------------------------------------------------------------
CS0 = Settings()
DEFS = dict(CS0.items())  # name -> Setting (definition, schema, default, options, oldNames)
NAMES = sorted(DEFS)
DEFAULT_VALS = {n: copy.deepcopy(s.default) for n, s in DEFS.items()}

independent = {s.name for s in fwSettings.getFrameworkSettings()}
pluginsWalked = 0
for plugin in getApp().pluginManager.get_plugins():
    pluginsWalked += 1
    if hasattr(plugin, "defineSettings"):
        for item in plugin.defineSettings() or []:
            if isinstance(item, Setting):
                independent.add(item.name)
import armi as _armi

from armi.meta import __version__ as RUNNING_VERSION

B.extra["armi_tree"] = os.path.dirname(os.path.dirname(os.path.abspath(_armi.__file__)))
B.extra["settings_enumerated"] = len(NAMES)
B.extra["plugins_walked"] = pluginsWalked
B.extra["settings_enumeration_complete"] = independent == set(NAMES)
check(independent == set(NAMES), "enumeration.incomplete", "Settings() does not hold exactly the settings defined by the framework and its plugins",
      {"missing": sorted(independent - set(NAMES)), "extra": sorted(set(NAMES) - independent)})
chg, _ = diff(values_of(CS0), DEFAULT_VALS)
check(not chg, "default.fresh-not-default", "a fresh Settings() holds a non-default value", chg)

VERBOSITY_LIKE = {"verbosity", "branchVerbosity"}


def probe(name, v):
    """(admitted?, value the setting must hold) according to the setting's own schema."""
    try:
        return True, DEFS[name].schema(copy.deepcopy(v))
    except Exception as e:  # voluptuous Invalid, TypeError, ValueError: anything raised is a refusal
        return False, e


# ---------------------------------------------------------------------------------------------------------------------
# value generation
# ---------------------------------------------------------------------------------------------------------------------
INT_LADDER = [0, 1, -1, 2 ** 63, 10 ** 6, "12", 7, 2, 10, 100, 2 ** 31, 10 ** 30, -2, -273, -274, -(10 ** 9), 3.0, True]
FLOAT_LADDER = [0.0, 1e22, 5e-324, -273.15, 1.0000000000000002, 1.0 / 3.0, 1e-05, 1.7976931348623157e308, -1.0, 1.0, 0.5, 1.5, 1e-300, 1e-15,
                0.1, 0.999999999999, 100.0, 1e5, -273.0, -1e-300, -0.5, -1e9, -1e300, 2, 10 ** 20, "1e5", "0.25",
                float("inf"), float("-inf"), float("nan")]
STR_FIXED = ["", "a", "héllo wörld ✓", "key: value"]
STR_SPECIAL = ["yes", "no", "on", "off", "true", "False", "null", "~", "1e5", "007", "0x1F", "1_000", "1.0", ".5", "-1", "+3", "12:30:45",
               "2020-01-01", "2001-12-14t21:59:43.10-05:00", " leading", "trailing ", "two  spaces", "line1\nline2", "line1\n\nline3\n",
               "#hash", " #hash", "a #b", "- dash", "-", "?", "? q", ": c", "a:b", "a: ", "[a, b]", "{a: b}", "'single'", '"double"', "it's",
               "@at", "%pct", "*star", "&anch", "!tag", "|", ">", "|-", ">+", "<<", "=", "\ttab", "a\tb", "C:\\dir\\f.yaml", "/abs/path/f.yaml",
               "~/home", "$ENV", "100%", "é", "日本語", "😀", "x" * 300, "word " * 60, ",", "[]", "{}", "''", '""', "\\n", "NaN", ".inf", ".nan",
               "-.inf", "0o17", "0b11", "1e", "e5", "1.2.3", "null ", "Null", "NULL", "TRUE", "y", "n", "Y", "N", "None", "---", "...", "%YAML 1.1"]
STR_EXOTIC = ["a\rb", "\x07bell", "nel\x85x", "ls\u2028x", "\ufeffbom", "del\x7f", "nul\x00x", "\u00a0nbsp", "  ", "\n", " \n "]
LIST_FIXED = [[], ["a"], [1, 2, 3]]
LIST_POOL = [[1], [0], [-1], [10, 20, 30, 40], list(range(1, 41)), [1.5], [0.1, 0.25], [1e-05, 1e22, 1.0], ["a", "b c", "d: e"],
             ["yes", "no", "null", "1e5", "007", ""], ["100", "150", "9R"], [100, 150.5, "9R"], ["3", "R4"], [True, False], [None],
             [[1, 2], [3, 4]], [["A1", 1.5], ["B2", "x"]], [{"a": 1}], ["é✓ 日本"], [""], ["x"] * 120, ["GRID_PLATE", "fuel", "control rod"],
             ["zone1: 001-001, 002-001", "zone2: 003-002"], [1, "a", 2.5, True, None, [1], {"k": "v"}], ("a", "b"), ["x" * 200],
             [5, 10], [300, 600, 900], [1e-3, 0.5, 1.0], [0.0], ["line1\nline2"], [" padded "], ["#c", "- d", "? e"], [2 ** 40]]
DICT_POOL = [{"myApp": "1.2.3"}, {"a": "1.0", "b": "x: y", "c d": "é✓", "e": ""}, {"p": {"q": [1, 2], "r": {"s": None}}},
             {"k": 1, "f": 1.5, "t": True, "n": None, "s": "yes"}, {"key%02d" % i: "v%d" % i for i in range(30)}, {1: "int key", "2": "str key"},
             {"armi": "9.9.9", "other": "1"}, {"yes": "no"}, {"": "empty key"}]
MODULE_VERBOSITY = [{"c17.fake.a": "debug"}, {"c17.fake.a": "info", "c17.fake.b": "error"}, {"c17.fake.c": "10"},
                    {"c17.fake.d": "warning", "c17.fake.e": "extra", "c17.fake.f": "important"}]
TIGHT = [{"globalFlux": {"parameter": "keff", "convergence": 1e-05}},
         {"globalFlux": {"parameter": "power", "convergence": 1e-4}, "thermalHydraulics": {"parameter": "peakFuelTemperature", "convergence": 1}},
         {"a b": {"parameter": "x: y", "convergence": "1e-3"}}, {"f%d" % i: {"parameter": "p%d" % i, "convergence": 10.0 ** -i} for i in range(12)},
         {"globalFlux": {"parameter": "", "convergence": 0}}, {"yes": {"parameter": "no", "convergence": 1e300}}]
CYCLES = [
    [{"name": "dog", "cumulative days": [1, 2, 3], "power fractions": [0.1, 0.2, 0.3], "availability factor": 0.1}],
    [{"cycle length": 10, "burn steps": 5, "power fractions": [0.2, 0.2, 0.2, 0.2, 0], "availability factor": 0.5}],
    [{"name": "ferret", "step days": [3, "R4"], "power fractions": [0.3, "R4"]}],
    [{"name": "dog", "cumulative days": [1, 2, 3], "power fractions": [0.1, 0.2, 0.3], "availability factor": 0.1},
     {"cycle length": 10, "burn steps": 5, "power fractions": [0.2, 0.2, 0.2, 0.2, 0], "availability factor": 0.5},
     {"name": "ferret", "step days": [3, "R4"], "power fractions": [0.3, "R4"]}],
    [{"cumulative days": [0.5, 1.25, 1e3]}],
    [{"name": "yes", "step days": ["1.5", "10R"], "availability factor": 1}],
    [{"name": "c: 1", "cycle length": 0, "burn steps": 0}],
    [{"name": "é", "cycle length": 365.242199}],
    [{"burn steps": 3, "availability factor": 0.0, "power fractions": []}],
    [{"name": "cy%02d" % i, "cycle length": 100.0 + i, "burn steps": i % 4, "availability factor": i / 24.0} for i in range(24)],
    [{"step days": []}],
    [{"name": "", "cumulative days": [7]}],
]
XS_OPTS = {  # option -> values (valid according to crossSectionSettings' documented types)
    "blockRepresentation": ["Median", "Average", "FluxWeightedAverage", "ComponentAverage1DSlab", "ComponentAverage1DCylinder"],
    "driverID": ["", "AA", "Z"], "criticalBuckling": [True, False], "nuclideReactionDriver": ["U235", "PU239"],
    "validBlockTypes": [["fuel"], [], ["fuel", "control rod", "a: b"]], "useHomogenizedBlockComposition": [True, False],
    "externalDriver": [True, False], "numInternalRings": [0, 1, 7], "numExternalRings": [1, 2], "mergeIntoClad": [["gap"], [], ["gap1", "gap2"]],
    "mergeIntoFuel": [[], ["bond"]], "fluxFileLocation": ["rzmflxYA", "/abs/dir/flux file"], "meshSubdivisionsPerCm": [1.0, 0.5, 10],
    "xsExecuteExclusive": [True, False], "xsPriority": [5, 0.5, 1e3], "xsMaxAtomNumber": [89, 100], "minDriverDensity": [0.0, 1e-15, 0.001],
    "averageByComponent": [True, False], "ductHeterogeneous": [True, False], "traceIsotopeThreshold": [0.0, 1e-12], "xsTempIsotope": ["U238", "PU239", ""],
}
XS_GEOMS = ["0D", "1D slab", "1D cylinder", "2D hex"]
XS_IDS = ["AA", "AB", "BA", "ZZ", "Y", "N", "NO", "ON", "10", "1", "a", "Aa", "é", "A:", "#A", "- ", "~", "0x", "1e", "é✓"] + [chr(65 + i) + "C" for i in range(26)]


def xs_entry(rng, geom=None, nopts=None):
    e = {}
    if geom == "file":
        e["xsFileLocation"] = rng.choice([["ISOAA"], ["/abs/dir/ISOAA", "rel dir/ISOBA"]])
        if rng.random() < 0.5:
            e["blockRepresentation"] = rng.choice(XS_OPTS["blockRepresentation"])
        return e
    e["geometry"] = geom or rng.choice(XS_GEOMS)
    keys = sorted(XS_OPTS)
    for k in rng.sample(keys, rng.randint(0, len(keys)) if nopts is None else nopts):
        e[k] = copy.deepcopy(rng.choice(XS_OPTS[k]))
    return e


def xs_values(rng):
    vals = [{"AA": {"geometry": "0D"}}, {"BA": {"geometry": "1D slab", "meshSubdivisionsPerCm": 1.5, "blockRepresentation": "ComponentAverage1DSlab"}},
            {"CA": {"geometry": "1D cylinder", "mergeIntoClad": ["gap"], "mergeIntoFuel": [], "numInternalRings": 1, "numExternalRings": 2,
                    "useHomogenizedBlockComposition": False, "driverID": "AA", "ductHeterogeneous": True, "traceIsotopeThreshold": 1e-12},
             "AA": {"geometry": "0D", "criticalBuckling": True, "validBlockTypes": ["fuel"], "blockRepresentation": "Median"}},
            {"DA": {"geometry": "2D hex", "externalDriver": True, "nuclideReactionDriver": "U235", "numExternalRings": 1, "criticalBuckling": False},
             "EA": {"xsFileLocation": ["/abs/dir/ISOEA", "rel dir/ISOEB"]}, "Y": {"geometry": "0D", "fluxFileLocation": "rzmflxYA", "xsPriority": 0.5}},
            {"A": {"geometry": "0D", "xsMaxAtomNumber": "89", "numInternalRings": "2"}},  # strings the per-option Coerce turns into numbers
            {xid: xs_entry(rng, XS_GEOMS[i % 4]) for i, xid in enumerate(XS_IDS[:20])}]
    # every option value once, spread over geometries
    allOpts = [(k, v) for k in sorted(XS_OPTS) for v in XS_OPTS[k]]
    for start in range(0, len(allOpts), 26):
        val = {}
        for j, (k, v) in enumerate(allOpts[start:start + 26]):
            val[XS_IDS[20 + j]] = {"geometry": XS_GEOMS[(start + j) % 4], k: copy.deepcopy(v)}
        vals.append(val)
    while len(vals) < 40:
        ids = rng.sample(XS_IDS, rng.randint(1, 8))
        vals.append({xid: xs_entry(rng, rng.choice(XS_GEOMS + ["file"])) for xid in ids})
    return vals


def seeded_tail(rng, fixed, pool, n):
    pool = list(pool)
    rng.shuffle(pool)
    return list(fixed) + pool[: max(0, n - len(fixed))] if not THOROUGH else list(fixed) + pool


def raw_candidates(name, rng):
    s = DEFS[name]
    d = s.default
    if name == "crossSectionControl":
        return xs_values(rng)
    if name == "tightCouplingSettings":
        return TIGHT
    if name == "cycles":
        return CYCLES
    if name == "moduleVerbosity":
        return MODULE_VERBOSITY
    if s.options:
        out = list(s.options)
        if not s.enforcedOptions and name not in VERBOSITY_LIKE:
            # a list declared without enforcedOptions is a suggestion: the schema (Coerce(str)) is the arbiter, so unlisted
            # strings are valid values and must survive as well
            out += ["Not An Option: 1"] + (["", "yes", "007"] if THOROUGH else [])
        return out
    if isinstance(d, bool):
        return [not d, d]
    if isinstance(d, int):
        return [d + 1, d - 1] + INT_LADDER
    if isinstance(d, float):
        return [d * 2 if d else 2.5, -d if d else -2.5] + FLOAT_LADDER
    if isinstance(d, str):
        return seeded_tail(rng, STR_FIXED, STR_SPECIAL + (STR_EXOTIC if THOROUGH else []), NVAL)
    if isinstance(d, list):
        return seeded_tail(rng, LIST_FIXED, LIST_POOL + [None], 10 * NVAL)  # the schema filter below thins this out
    if isinstance(d, dict):
        return DICT_POOL
    if d is None:
        return [None] + FLOAT_LADDER + [[], [0.1], [0.0, 0.5, 1.0], [1e-05, 0.25], [3, 2.5], [0.00021, 0.0014, 0.0013, 0.0026, 0.0008, 0.0002]]
    return []


CANDIDATES = {}  # name -> list of (raw value, value the setting must hold), admitted by the schema, distinct, capped
SCHEMA_REFUSED = collections.defaultdict(list)  # name -> generated values the schema refuses (re-used by the rejection clause)
for name in NAMES:
    seen, out = set(), []
    for v in raw_candidates(name, B.rng):
        ok, w = probe(name, v)
        if not ok:
            SCHEMA_REFUSED[name].append(v)
            continue
        key = norm(w)
        if key in seen:
            continue
        seen.add(key)
        out.append((v, w))
    CANDIDATES[name] = out if DEFS[name].options else out[:NVAL]  # option lists are always enumerated completely
B.extra["values_generated"] = sum(len(v) for v in CANDIDATES.values())
B.extra["settings_without_nondefault_value"] = [n for n in NAMES if not any(not deq(w, DEFAULT_VALS[n]) for _, w in CANDIDATES[n])]

# ---------------------------------------------------------------------------------------------------------------------
# clause 1: write / read
# ---------------------------------------------------------------------------------------------------------------------
SAFE = YAML(typ="safe")
TOPKEY = re.compile(r"^  (?![ \-#])(.+?):(?: |$)")
BLOCK_STATUS = {}  # text of one setting's block as written -> None (reads fine) | repr of the error raised when read alone
TYPE_ONLY = collections.Counter()
STAMP = {"seen": 0}


def written_text(cs, style, setByUser):
    stream = io.StringIO()
    cs.writeToYamlStream(stream, style, list(setByUser))
    return stream.getvalue()


def blocks_of(text):
    """Split the writer's text into one block of lines per setting (the writer indents mappings by 2, sequences by 4)."""
    lines = text.splitlines(keepends=True)
    if not lines or lines[0].strip() != "settings:":
        return None
    blocks, cur = collections.OrderedDict(), None
    for line in lines[1:]:
        m = TOPKEY.match(line)
        if m:
            cur = m.group(1).strip("'\"")
            if cur in blocks:
                return None
            blocks[cur] = [line]
        elif cur is None:
            return None
        else:
            blocks[cur].append(line)
    return blocks


def load_isolating(text, desc):
    """cs2 = Settings().loadFromString(text).  When the load raises, find the settings whose own written block is refused
    when read alone, report each (once per id, all counted), and read the rest, so one unreadable setting does not hide the others."""
    blocks = blocks_of(text)
    dropped = []
    vals = desc["_vals"]
    desc = {k: v for k, v in desc.items() if k != "_vals"}
    if blocks is not None:
        for k in list(blocks):
            if BLOCK_STATUS.get("".join(blocks[k])) is not None:
                dropped.append(k)
    attempt = text if not dropped else "settings:\n" + "".join("".join(b) for k, b in blocks.items() if k not in dropped)
    for _round in range(2):
        cs2 = Settings()
        try:
            reader = cs2.loadFromString(attempt)
            break
        except Exception as e:
            err = "%s: %s" % (type(e).__name__, str(e)[:200])
            if blocks is None or _round == 1:
                V("roundtrip.read-raises", "the text written by the writer is refused by the reader", dict(desc, error=err))
                return None, None, dropped
            for k, b in blocks.items():
                t = "".join(b)
                if k in dropped or t in BLOCK_STATUS:
                    continue
                try:
                    Settings().loadFromString("settings:\n" + t)
                    BLOCK_STATUS[t] = None
                except Exception as e2:
                    BLOCK_STATUS[t] = "%s: %s" % (type(e2).__name__, str(e2)[:200])
            dropped = [k for k, b in blocks.items() if BLOCK_STATUS.get("".join(b)) is not None]
            if not dropped:
                V("roundtrip.read-raises", "the text written by the writer is refused by the reader", dict(desc, error=err))
                return None, None, dropped
            attempt = "settings:\n" + "".join("".join(b) for k, b in blocks.items() if k not in dropped)
    for k in dropped:
        t = "".join(blocks[k])
        atDefault = k in DEFAULT_VALS and deq(vals.get(k), DEFAULT_VALS[k])
        V("roundtrip.default-unreadable" if atDefault else "roundtrip.read-raises",
          "a setting %s, as written by the writer, is refused by the reader" % ("left at its default" if atDefault else "holding a value its schema admits"),
          {"setting": k, "written": t, "style": desc["style"], "error": BLOCK_STATUS[t], "changes": desc["changes"]}, k)
    return cs2, reader, dropped


def roundtrip(changes, style, setByUser=(), viaFile=None, label="roundtrip"):
    """changes: list of (name, raw value).  Returns True when no clause failed."""
    ok = True
    desc = {"clause": "roundtrip", "changes": [[n, jsonable(v)] for n, v in changes], "style": style, "setByUser": list(setByUser)}
    cs = Settings()
    expected = copy.deepcopy(DEFAULT_VALS)
    for n, v in changes:
        admitted, w = probe(n, v)
        if not admitted:
            B.extra["skipped_not_admitted"] = B.extra.get("skipped_not_admitted", 0) + 1
            return True
        try:
            cs[n] = copy.deepcopy(v)
        except Exception as e:
            return V("assign.valid-refused", "a value the schema admits is refused on assignment", dict(desc, setting=n, error=repr(e)[:200]), n)
        expected[n] = w
    before = values_of(cs)
    chg, _ = diff(expected, before)
    ok &= check(not chg, "assign.value-differs", "after cs[name] = v the settings do not hold schema(v) / other settings moved", dict(desc, differing=chg), chg[0] if chg else None)
    # ---- write with the real writer
    try:
        if viaFile:
            path = os.path.join(viaFile, "out_%s.yaml" % style)
            if style == "medium":
                userPath = os.path.join(viaFile, "user.yaml")
                cs.writeToYamlFile(path, style=style, fromFile=userPath)
            else:
                cs.writeToYamlFile(path, style=style)
            with open(path) as f:
                text = f.read()
        else:
            text = written_text(cs, style, setByUser)
    except Exception as e:
        return V("roundtrip.write-raises", "the writer raises on valid settings", dict(desc, error="%s: %s" % (type(e).__name__, str(e)[:200])))
    after = values_of(cs)
    chg, _ = diff(before, after)
    stampOnly = chg == ["versions"] and stamp_only(before["versions"], after["versions"])
    if chg and stampOnly:
        STAMP["seen"] += 1
        ok &= V("versions.armi-stamped", "writing puts the running armi version into the source object's `versions` setting", dict(desc, before=before["versions"], after=after["versions"]), "versions")
    else:
        ok &= check(not chg, "roundtrip.write-mutates-source", "writing the settings changed the values held by the source object", dict(desc, differing=chg), chg[0] if chg else None)
    # ---- key set, parsed independently
    try:
        doc = SAFE.load(text)
        keys = [str(k) for k in doc["settings"].keys()]
    except Exception as e:
        return V("roundtrip.text-not-yaml", "the written text is not YAML with a settings: mapping", dict(desc, error=repr(e)[:200], text=text[:400]))
    ok &= check(len(keys) == len(set(keys)), "roundtrip.duplicate-key", "a setting is written twice", desc)
    keys = set(keys)
    nondefault = {n for n in NAMES if not deq(before[n], DEFAULT_VALS[n])}
    if style == "short":
        want = set(nondefault)
    elif style == "medium":
        want = nondefault | (set(setByUser) & set(NAMES))
    else:
        want = set(NAMES)
    missing, extra = want - keys, keys - want
    if "versions" in extra and stamp_only(before["versions"], doc["settings"]["versions"]):  # the writer always emits versions: {armi: <running version>}
        extra.discard("versions")
        STAMP["seen"] += 1
        ok &= V("versions.armi-stamped", "`versions` is written (with the running armi version) although it is at its default", dict(desc, written=jsonable(doc["settings"]["versions"])), "versions")
    for n in sorted(missing):
        vid = {"short": "short.omits-nondefault", "medium": "medium.omits-nondefault" if n in nondefault else "medium.omits-user-set", "full": "full.omits-setting"}[style]
        ok &= V(vid, "the %s style leaves out a setting it must write" % style, dict(desc, omitted=n, held=before[n]), n)
    for n in sorted(extra):
        vid = "%s.writes-unknown-key" % style if n not in DEFS else {"short": "short.writes-default", "medium": "medium.writes-unlisted-default"}.get(style, "full.extra")
        ok &= V(vid, "the %s style writes a key it must omit" % style, dict(desc, written=n), n)
    # ---- read with the real reader
    desc2 = dict(desc, _vals=before)
    if viaFile:
        try:
            cs2 = Settings(path)
            reader, dropped = None, []
        except Exception as e:
            cs2, reader, dropped = load_isolating(text, desc2)
            if cs2 is not None and not dropped:
                ok &= V("roundtrip.file-read-raises", "Settings(path) raises although loadFromString of the same text works", dict(desc, error=repr(e)[:200]))
    else:
        cs2, reader, dropped = load_isolating(text, desc2)
    if cs2 is None:
        return False
    if dropped:
        ok = False
    if reader is not None:
        ok &= check(not reader.invalidSettings, "roundtrip.written-key-not-recognised", "the reader does not recognise a key the writer wrote", dict(desc, keys=sorted(reader.invalidSettings)))
    got = values_of(cs2)
    changedNames = {n for n, _ in changes}
    chg, typed = diff(before, got)
    for n in chg:
        if n in dropped:
            continue  # already reported as unreadable
        if n == "versions" and stamp_only(before[n], got[n]):
            STAMP["seen"] += 1
            ok &= V("versions.armi-stamped", "`versions` reads back with the running armi version stamped over what was held", dict(desc, held=before[n], readBack=got[n]), n)
            continue
        if n in changedNames and linebreak_explains(before[n], got[n]):
            # input class fixed a priori: strings holding U+0085 / U+2028 / U+2029 (line breaks to some YAML versions)
            ok &= V("roundtrip.unicode-linebreak-differs", "a string holding a Unicode line-break character reads back changed", dict(desc, setting=n, held=before[n], readBack=got[n]), n)
        elif n in changedNames:
            ok &= V("roundtrip.value-differs", "a changed setting reads back with another value", dict(desc, setting=n, held=before[n], readBack=got[n]), n)
        else:
            ok &= V("roundtrip.other-setting-changed", "a setting that was not touched reads back with another value", dict(desc, setting=n, held=before[n], readBack=got[n]), n)
    for n in typed:
        TYPE_ONLY[n] += 1
        B.extra.setdefault("type_only_examples", [])
        if len(B.extra["type_only_examples"]) < 5:
            B.extra["type_only_examples"].append({"setting": n, "held": repr(before[n])[:80], "readBack": repr(got[n])[:80], "style": style})
    return bool(ok)


def other_defaults(rng, exclude, k):
    return rng.sample([n for n in NAMES if n not in exclude], k)


def clause_roundtrip():
    # defaults in every style
    for style in STYLES:
        B.case(("roundtrip", "<defaults>", style), {"clause": "roundtrip", "changes": [], "style": style})
        roundtrip([], style, setByUser=other_defaults(B.rng, (), 3) if style == "medium" else ())
    # the smallest input of the unicode line-break class, always first and the same in both tiers
    B.case(("roundtrip", "comment", norm("\x85"), "short"), {"setting": "comment", "value": "\x85", "style": "short"})
    roundtrip([("comment", "\x85")], "short")
    # every setting x value x style
    perSetting = {}
    for name in NAMES:
        perSetting[name] = len(CANDIDATES[name])
        for i, (v, w) in enumerate(CANDIDATES[name]):
            for style in STYLES:
                setBy = ([name] if i % 2 == 0 else []) + other_defaults(B.rng, (name,), 2) if style == "medium" else ()
                B.case(("roundtrip", name, norm(w), style), {"setting": name, "value": jsonable(v), "style": style}, nontrivial=not deq(w, DEFAULT_VALS[name]))
                roundtrip([(name, v)], style, setBy)
    B.extra["values_per_setting_min_max"] = [min(perSetting.values()), max(perSetting.values())]
    # seeded subsets of several settings changed at once
    sizes = [2, 3, 5, 8, 13, 21, 34, 55, 89, len(NAMES)]
    for i in range(NSUBSETS):
        k = sizes[i % len(sizes)]
        names = B.rng.sample(NAMES, k)
        changes = [(n, B.rng.choice(CANDIDATES[n])[0]) for n in names if CANDIDATES[n]]
        for style in STYLES:
            setBy = B.rng.sample(NAMES, 5) if style == "medium" else ()
            B.case(("subset", i, style), {"subset": [n for n, _ in changes][:6], "size": len(changes), "style": style})
            roundtrip(changes, style, setBy)
    # the file API: writeToYamlFile / Settings(path); medium derives the user-set names from a user file
    for i in range(NFILE):
        names = [n for n in B.rng.sample(NAMES, B.rng.choice([1, 2, 4, 9])) if n != "userPlugins"]
        changes = [(n, B.rng.choice(CANDIDATES[n])[0]) for n in names if CANDIDATES[n]]
        userNames = [n for n in B.rng.sample(NAMES, 4) if n != "userPlugins"]
        with tempfile.TemporaryDirectory() as td:
            with open(os.path.join(td, "user.yaml"), "w") as f:
                SAFE.dump({"settings": {n: jsonable(DEFS[n].dump()) for n in userNames}}, f)
            for style in STYLES:
                B.case(("file", i, style), {"file": [n for n, _ in changes], "style": style})
                roundtrip(changes, style, userNames if style == "medium" else (), viaFile=td)


# ---------------------------------------------------------------------------------------------------------------------
# clause 2: rejection
# ---------------------------------------------------------------------------------------------------------------------
# constraints stated by the settings' own descriptions / definitions, written down by hand (independent of probing)
DECLARED_INVALID = {
    "nTasks": [0, -1], "nCycles": [0, -3], "power": [-1.0], "powerDensity": [-0.5], "availabilityFactor": [-0.1],
    "lowPowerRegionFraction": [-0.01, 1.01], "Tin": [-300.0], "Tout": [-273.16], "burnSteps": [-1], "startCycle": [-1], "startNode": [-1],
    "skipCycles": [-1], "buGroups": [[0], [10, -5], [10, "x"]], "tempGroups": [[0], [-300]], "axialMeshRefinementFactor": [0, -2],
    "minMeshSizeRatio": [0.0, -1], "cycleLength": [0.0, -5], "acceptableBlockAreaError": [0.0, -1e-5], "uniformMeshMinimumSize": [0.0, -1.0],
    "beta": [1.5, [0.1, -0.2], [0.1, 1.2], "abc", -0.001], "decayConstants": [-1.0, [1.0, -2.0], "abc"], "targetK": [-1.0], "burnupPeakingFactor": [-1],
    "detailAssemNums": [["a"], [1.5], 7],
    "cycles": [[{"name": "c", "cumulative days": [3, 2, 1]}], [{"name": "c", "cumulative days": [1, 1]}], [{"step days": [1], "cycle length": 5}],
               [{"name": "x"}], [{"availability factor": 1.5, "cycle length": 1}], [{"availability factor": -0.1, "cycle length": 1}],
               [{"bogus": 1, "cycle length": 1}], [{"cycle length": -1}], [{"burn steps": -1}], [{"name": 5, "cycle length": 1}],
               [{"cumulative days": ["a"]}], {"cycle length": 1}, "abc", [["cycle length", 1]], [{"cumulative days": [1], "burn steps": 2}]],
    "crossSectionControl": [{"AAA": {"geometry": "0D"}}, {"": {"geometry": "0D"}}, {"AA": {"geometry": "3D"}}, {"AA": {"geometry": "0d"}},
                            {"AA": {"geometry": "0D", "blockRepresentation": "Bogus"}}, {"AA": {"geometry": "0D", "criticalBuckling": "yes"}},
                            {"AA": {"bogusKey": 1, "geometry": "0D"}}, {"AA": {"driverID": "AB"}}, "notadict", ["AA"], 5,
                            {"AA": {"geometry": "0D", "numInternalRings": "two"}}, {"AA": {"geometry": "0D", "validBlockTypes": "fuel"}},
                            {"AA": {"geometry": "0D", "meshSubdivisionsPerCm": [1.0]}}, {"AA": {"geometry": "0D", "xsFileLocation": "ISOAA"}},
                            {"AA": ["geometry", "0D"]}],
    "tightCouplingSettings": [{"globalFlux": {"parameter": "keff"}}, {"globalFlux": {"convergence": 1e-5}}, {"globalFlux": {"parameter": "keff", "convergence": "abc"}},
                              {"gf": {"parameter": "keff", "convergence": 1e-5, "extra": 1}}, {"gf": {"parameter": 5, "convergence": 1e-5}}, "abc", 5, ["globalFlux"],
                              {"gf": ["keff", 1e-5]}],
}
TYPE_MISMATCH_POOL = ["abc", "", "1.5x", 5, -1, 2.7, [1, 2], [], ["a"], {"a": 1}, {}, None, True]
B.extra["coerced_admitted"] = 0
B.extra["skipped_non_enforced_option_values"] = 0
COERCED_KINDS = collections.Counter()


def near_miss_options(s):
    out = ["NotAnOption"]
    for o in s.options[:2]:
        if isinstance(o, str) and o:
            out += [o.swapcase(), o + " ", o[:-1], o + "x"]
    if "" not in s.options:
        out.append("")
    return [x for x in dict.fromkeys(out) if x not in s.options]


def invalid_values(name):
    """[(bad value, why it is invalid, violation id when accepted)], near misses first."""
    s = DEFS[name]
    d = s.default
    out = []
    for bad in DECLARED_INVALID.get(name, []):
        out.append((bad, "declared", "reject.accepted-invalid"))
    if s.options and s.enforcedOptions:
        for bad in near_miss_options(s):
            out.append((bad, "unlisted-option", "reject.accepted-invalid"))
    elif s.options:  # not enforced: a suggestion list, the schema is the arbiter; not part of the rejection clause
        B.extra["skipped_non_enforced_option_values"] += len(near_miss_options(s))
    if isinstance(d, bool):
        pass  # every value has a truth value: nothing is declared invalid for a bool
    elif isinstance(d, (int, float)):
        for bad in ["abc", "", "1.5x", [1, 2], {"a": 1}]:
            out.append((bad, "not-a-number", "reject.accepted-invalid"))
    elif isinstance(d, list):
        for bad in [5, 2.5, True]:
            out.append((bad, "scalar-for-list", "reject.accepted-invalid"))
    elif isinstance(d, dict) and name not in DECLARED_INVALID:
        for bad in [5, "abc", [1, 2]]:
            out.append((bad, "not-a-mapping", "reject.accepted-invalid"))
    for bad in SCHEMA_REFUSED.get(name, []) + TYPE_MISMATCH_POOL:
        admitted, _ = probe(name, bad)
        if not admitted:
            out.append((bad, "schema-refuses", "reject.accepted-invalid"))
        elif d is not None and not isinstance(bad, type(d)) and not any(norm(bad) == norm(b) for b, _, _ in out):
            B.extra["coerced_admitted"] += 1
            COERCED_KINDS["%s<-%s" % (type(d).__name__, type(bad).__name__)] += 1
    seen, uniq = set(), []
    for bad, why, vid in out:
        k = norm(bad)
        if k not in seen:
            seen.add(k)
            uniq.append((bad, why, vid))
    return uniq[:NBAD]


def yaml_text(mapping):
    stream = io.StringIO()
    SAFE.dump({"settings": mapping}, stream)
    return stream.getvalue()


def reject(name, bad, why="replay", vid="reject.accepted-invalid"):
    ok = True
    desc = {"clause": "reject", "setting": name, "value": jsonable(bad), "why": why}
    prevs = [v for v, w in CANDIDATES[name] if not deq(w, DEFAULT_VALS[name])] or [v for v, w in CANDIDATES[name]]
    routes = [("cs[name]=", lambda cs, x: cs.__setitem__(name, x)),
              ("setValue", lambda cs, x: dict(cs.items())[name].setValue(x)),
              ("value=", lambda cs, x: setattr(dict(cs.items())[name], "value", x)),
              ("modified", lambda cs, x: cs.modified(newSettings={name: x})),
              ("read", lambda cs, x: cs.loadFromString(yaml_text({name: jsonable(x)})))]
    for route, act in routes:
        if route == "read" and norm(jsonable(bad)) != norm(bad):
            continue  # not expressible in a settings file as is (e.g. a tuple reads as a list, which may be valid)
        cs = Settings()
        if prevs:
            cs[name] = copy.deepcopy(prevs[0])
        before = values_of(cs)
        try:
            act(cs, copy.deepcopy(bad))
            raised = None
        except Exception as e:
            raised = e
        ok &= check(raised is not None, vid, "an invalid value is accepted without an error (%s)" % why, dict(desc, route=route, nowHolds=dict(cs.items())[name].value), name)
        chg, _ = diff(before, values_of(cs))
        if raised is not None:
            ok &= check(not chg, "reject.value-changed", "a refused value did not leave the previous value in place", dict(desc, route=route, previous=before[name], nowHolds=dict(cs.items())[name].value, differing=chg), name)
    return bool(ok)


def clause_reject():
    nbad = {}
    for name in NAMES:
        bads = invalid_values(name)
        nbad[name] = len(bads)
        for bad, why, vid in bads:
            B.case(("reject", name, norm(bad)), {"reject": name, "value": jsonable(bad), "why": why})
            reject(name, bad, why, vid)
    B.extra["invalid_values_tried"] = sum(nbad.values())
    B.extra["settings_without_invalid_value"] = [n for n in NAMES if not nbad[n]]
    B.extra["coerced_kinds"] = dict(COERCED_KINDS)


# ---------------------------------------------------------------------------------------------------------------------
# clause 3: renames
# ---------------------------------------------------------------------------------------------------------------------
def rename_case(old, new, expiry):
    ok = True
    today = datetime.date.today()
    expired = expiry is not None and expiry <= today
    cands = [(v, w) for v, w in CANDIDATES.get(new, []) if not deq(w, DEFAULT_VALS[new])]
    if not cands:
        B.extra["renames_skipped_no_value"] = B.extra.get("renames_skipped_no_value", 0) + 1
        return True
    v, w = cands[0]
    desc = {"clause": "rename", "old": old, "new": new, "expiry": str(expiry), "value": jsonable(v)}
    renamer = settingsIO.SettingRenamer(dict(Settings().items()))
    got = renamer.renameSetting(old)
    ok &= check(got == ((old, False) if expired else (new, True)), "rename.map-wrong", "SettingRenamer does not map the old name as registered", dict(desc, got=list(got)), new)
    cs = Settings()
    try:
        reader = cs.loadFromString(yaml_text({old: jsonable(v)}))
    except Exception as e:
        return V("rename.raises", "text using an old setting name is refused", dict(desc, error=repr(e)[:200]), new)
    vals = values_of(cs)
    if expired:
        ok &= check(deq(vals[new], DEFAULT_VALS[new]) and old in reader.invalidSettings, "rename.expired-accepted", "an expired rename was applied", desc, new)
        return bool(ok)
    ok &= check(deq(vals[new], w), "rename.lost", "a value given under a registered old name does not land on the new name", dict(desc, nowHolds=vals[new], invalidSettings=sorted(reader.invalidSettings)), new)
    moved = [n for n in diff(DEFAULT_VALS, vals)[0] if n != new]
    ok &= check(not moved, "rename.wrong-target", "a value given under an old name changed another setting", dict(desc, changed=moved), new)
    return bool(ok)


def clause_rename():
    registered = [(old, n, exp) for n in NAMES for old, exp in DEFS[n].oldNames]
    B.extra["renames_registered"] = len(registered)
    for old, new, exp in registered:
        B.case(("rename", old, new), {"rename": old, "to": new})
        rename_case(old, new, exp)
    # expiry handling as coded, on synthetic settings hung into a real Settings object and read by the real reader
    today = datetime.date.today()
    synth = [("c17Expired", "c17ExpiredOld", datetime.date(2000, 1, 1), False), ("c17Today", "c17TodayOld", today, False),
             ("c17Future", "c17FutureOld", today + datetime.timedelta(days=400), True), ("c17Never", "c17NeverOld", None, True)]
    base = Settings().modified(newSettings={n: Setting(n, default=1, description="C17 synthetic", oldNames=[(old, exp)]) for n, old, exp, _ in synth})
    for n, old, exp, active in synth:
        B.case(("rename-synthetic", n), {"rename": old, "to": n, "expiry": str(exp)})
        desc = {"clause": "rename-synthetic", "old": old, "new": n, "expiry": str(exp)}
        cs = base.duplicate()
        got = settingsIO.SettingRenamer(dict(cs.items())).renameSetting(old)
        check(got == ((n, True) if active else (old, False)), "rename.map-wrong", "SettingRenamer does not honour the expiry date", dict(desc, got=list(got)))
        try:
            reader = cs.loadFromString(yaml_text({old: 5}))
        except Exception as e:
            V("rename.raises", "text using an old setting name is refused", dict(desc, error=repr(e)[:200]))
            continue
        if active:
            check(cs[n] == 5, "rename.lost", "a value given under a registered old name does not land on the new name", dict(desc, nowHolds=cs[n]), n)
        else:
            check(cs[n] == 1 and old in reader.invalidSettings, "rename.expired-accepted", "an expired rename was applied", dict(desc, nowHolds=cs[n]), n)


# ---------------------------------------------------------------------------------------------------------------------
# clause 4: copies
# ---------------------------------------------------------------------------------------------------------------------
COPY_METHODS = [("duplicate", lambda cs: cs.duplicate()), ("modified", lambda cs: cs.modified()), ("modified-title", lambda cs: cs.modified(caseTitle="c17copy")),
                ("deepcopy", lambda cs: copy.deepcopy(cs)), ("pickle", lambda cs: pickle.loads(pickle.dumps(cs))), ("copy", lambda cs: copy.copy(cs))]


def two_values(name, rng):
    """Two admitted values with different held values, when the setting has them."""
    c = [(v, w) for v, w in CANDIDATES[name]]
    if len(c) < 2:
        return None
    (v1, w1), (v2, w2) = rng.sample(c, 2)
    return (v1, w1), (v2, w2)


def clause_copy():
    rng = B.rng
    nBases = 6 if THOROUGH else 2
    for b in range(nBases):
        base = Settings()
        assign2 = {}
        for n in NAMES:
            tv = two_values(n, rng)
            if tv is None:
                continue
            if rng.random() < 0.6 or n in ("crossSectionControl", "cycles", "tightCouplingSettings", "versions", "copyFilesFrom"):
                base[n] = copy.deepcopy(tv[0][0])
            assign2[n] = tv[1] if not deq(tv[1][1], dict(base.items())[n].value) else tv[0]
        baseVals = values_of(base)
        for mname, make in COPY_METHODS:
            desc = {"clause": "copy", "method": mname, "base": b}
            B.case(("copy", mname, b), desc)
            try:
                c = make(base)
            except Exception as e:
                V("copy.raises", "copying a settings object raises", dict(desc, error=repr(e)[:200]))
                continue
            chg, _ = diff(baseVals, values_of(c))
            check(not chg, "copy.value-differs", "a copy holds other values than the original", dict(desc, differing=chg[:5], held=baseVals.get(chg[0]) if chg else None, copyHolds=values_of(c).get(chg[0]) if chg else None), chg[0] if chg else None)
            check(not diff(baseVals, values_of(base))[0], "copy.aliasing", "making a copy changed the original", desc)
            # assign every setting on the copy: the original must not move
            for n, (v2, w2) in assign2.items():
                c[n] = copy.deepcopy(v2)
            chg, _ = diff(baseVals, values_of(base))
            check(not chg, "copy.aliasing", "assigning on the copy changed the original", dict(desc, direction="copy->original", differing=chg[:5]), chg[0] if chg else None)
            wrong = [n for n, (v2, w2) in assign2.items() if not deq(dict(c.items())[n].value, w2)]
            check(not wrong, "copy.assign-lost", "an assignment on the copy did not take", dict(desc, differing=wrong[:5]))
            # and the other way round on a fresh copy
            c2 = make(base)
            orig = copy.deepcopy(base)  # a stand-in original we may modify
            c3 = make(orig)
            c3Vals = values_of(c3)
            for n, (v2, w2) in assign2.items():
                orig[n] = copy.deepcopy(v2)
            chg, _ = diff(c3Vals, values_of(c3))
            check(not chg, "copy.aliasing", "assigning on the original changed the copy", dict(desc, direction="original->copy", differing=chg[:5]), chg[0] if chg else None)
            # in-place edits of mutable values (deep methods only; copy.copy is Python's shallow copy and shares them by definition)
            edited = []
            for n, s in c2.items():
                val = s.value
                if isinstance(val, list):
                    val.append("c17-edit")
                    edited.append(n)
                elif isinstance(val, dict):
                    for sub in val.values():
                        if isinstance(sub, XSModelingOptions):
                            sub.driverID = "c17"
                        elif isinstance(sub, dict):
                            sub["c17-edit"] = 1
                    val["zz"] = {"parameter": "c17", "convergence": 1.0}
                    edited.append(n)
            chg, _ = diff(baseVals, values_of(base))
            if mname == "copy":
                B.extra["shallow_copy_shares_mutable_values"] = bool(chg)
                for n in chg:  # put the base back for the next round
                    dict(base.items())[n]._value = copy.deepcopy(baseVals[n])
            else:
                check(not chg, "copy.aliasing", "editing a mutable value of the copy in place changed the original", dict(desc, direction="copy->original in place", differing=chg[:5]), chg[0] if chg else None)
    # modified(newSettings={name: v}) for EVERY setting: the copy holds schema(v), the original keeps its value, all others equal
    for name in NAMES:
        tv = two_values(name, rng)
        if tv is None:
            B.extra["copy_settings_skipped_single_value"] = B.extra.get("copy_settings_skipped_single_value", 0) + 1
            continue
        (v1, w1), (v2, w2) = tv
        desc = {"clause": "copy-modified", "setting": name, "original": jsonable(v1), "new": jsonable(v2)}
        B.case(("copy-modified", name), desc)
        base = Settings()
        base[name] = copy.deepcopy(v1)
        baseVals = values_of(base)
        asObject = rng.random() < 0.15
        if asObject:
            so = base.getSetting(name)
            so.setValue(copy.deepcopy(v2))
            c = base.modified(newSettings={name: so})
        else:
            c = base.modified(newSettings={name: copy.deepcopy(v2)})
        chg, _ = diff(baseVals, values_of(base))
        check(not chg, "copy.aliasing", "modified(newSettings=...) changed the original", dict(desc, differing=chg[:5], nowHolds=dict(base.items())[name].value), name)
        cv = values_of(c)
        check(deq(cv[name], w2), "copy.modified-value-wrong", "modified(newSettings=...) does not hold the new value", dict(desc, copyHolds=cv[name]), name)
        others = [n for n in diff(baseVals, cv)[0] if n != name]
        check(not others, "copy.value-differs", "modified(newSettings=...) changed a setting that was not named", dict(desc, differing=others[:5]), others[0] if others else None)
        c[name] = copy.deepcopy(v1)
        base[name] = copy.deepcopy(v2)
        check(deq(dict(c.items())[name].value, w1) and deq(dict(base.items())[name].value, w2), "copy.aliasing", "original and modified copy do not hold their own values", desc, name)


# ---------------------------------------------------------------------------------------------------------------------
def replay(inp):
    c = inp.get("clause")
    if c == "roundtrip":
        ok = roundtrip([(n, v) for n, v in inp.get("changes", [])], inp.get("style", "short"), inp.get("setByUser", ()))
    elif c == "reject":
        ok = reject(inp["setting"], inp["value"])
    elif c == "rename":
        exp = None if inp.get("expiry") in (None, "None") else datetime.date.fromisoformat(inp["expiry"])
        ok = rename_case(inp["old"], inp["new"], exp)
    else:
        ok = None
    sys.stdout = _REAL_STDOUT
    print(json.dumps({"result": "pass" if ok else ("fail" if ok is not None else "unsupported"), "violations": B.violations}, default=str))


def main():
    if B.replay is not None:
        return replay(B.replay)
    t = {}
    import time
    cwd = os.getcwd()
    with tempfile.TemporaryDirectory() as scratch:
        os.chdir(scratch)
        try:
            for cname, fn in (("roundtrip", clause_roundtrip), ("reject", clause_reject), ("rename", clause_rename), ("copy", clause_copy)):
                t0 = time.time()
                fn()
                t[cname] = round(time.time() - t0, 1)
        finally:
            os.chdir(cwd)
    B.extra["clause_wall_s"] = t
    B.extra["violation_counts"] = dict(VCOUNT)
    B.extra["violating_settings"] = {k: sorted(v)[:40] for k, v in VSETTINGS.items()}
    B.extra["type_only_differences"] = dict(TYPE_ONLY)
    B.extra["unreadable_blocks"] = sorted({t.split(":")[0].strip() for t, st in BLOCK_STATUS.items() if st is not None})
    sys.stdout = _REAL_STDOUT
    # exhaustive only over the set of settings (and of registered renames); values are bounded
    B.finish(exhaustive=False)


try:
    main()
except BaseException:
    sys.stdout, sys.stderr = _REAL_STDOUT, _REAL_STDERR
    traceback.print_exc()
    raise
