"""C14 bounded tier: fuel shuffling conserves the inventory and keeps the core's lookups truthful.

Executable contract around the REAL FuelHandler.swapAssemblies / swapCascade / dischargeSwap and
Core.add / Core.removeAssembly on the armi test cores (smallest test reactor extended to 7 one-block
assemblies, and the default 1/3-core hex test reactor, both with their spent-fuel pool), for seeded
operation sequences under every (stationary-flag setting, trackAssems, pool present) configuration.

The oracle is an independent MODEL of the statement (never the code's own tables):
  core:   location (i, j) -> assembly object        pool: set of assembly objects      gone: removed for good
  blocks: assembly -> ordered list of block objects; blocks designated stationary belong to the core
          LOCATION (they stay at (location, elevation index) and exchange assemblies), all others travel
  fingerprint(block) = height, component dimensions, number densities (must never change)
After EACH operation the real reactor is compared with the model:
  inventory.*   children of the core / pool are exactly the model's sets, by identity, none twice, none lost
  placement.*   every assembly sits at the model's location (locator of the core grid), one per location
  lookups.*     childrenByLocator == model; assembliesByName/blocksByName (+ public getters) find every present
                assembly/block under its current name and never return a removed one    (F6.* = tracked, no pool)
  contents.*    block order / parent / elevation index per model; fingerprints unchanged
  refused.*     a swap / discharge-swap of assemblies whose stationary layouts differ raises and nothing moved
  bookkeeping.* numMoves (+1 per move unless the assembly is labelled DATABASE), lastLocationLabel untouched by
                moves, FuelHandler.outage() move list = (old label, new label) once per moved assembly
  edge.*        single probes: add at an occupied location, swap of an assembly with itself, cascade that meets
                a stationary mismatch after its first swap  (must be refused / no-ops and leave the state intact)
Bound: sequences of <= 5 (quick) / <= 8 (thorough) operations; plus sweeps over ALL pairs of locations.
"""
import json
import os
import pickle
import random
import sys
import tempfile

sys.path.insert(0, os.path.dirname(os.path.abspath(__file__)))
from common import Bounded, armi_ready

armi_ready()
from armi import runLog
from armi.physics.fuelCycle.fuelHandlers import FuelHandler
from armi.reactor.assemblies import Assembly
from armi.reactor.flags import Flags
from armi.testing import loadTestReactor

B = Bounded(
    "seeded sequences of swapAssemblies / swapCascade / dischargeSwap(fresh|pool) / Core.add(fresh|re-add) / "
    "Core.removeAssembly(discharge T/F) on the extended smallest test core (7 assemblies) and the hex test core (73), "
    "x stationaryBlockFlags setting x trackAssems x pool present; all-pairs swap sweeps; 3 edge probes; "
    "distinct = (config, operation prefix)",
    "ops per sequence <= 5 quick / <= 8 thorough; sequences: quick 40 small + 36 hex (+6 refusal probes), thorough 600 small + 500 hex; "
    "all-pairs sweeps: small core always (21 pairs x 4 configs), hex core thorough only (2628 pairs, GRID_PLATE stationary)",
)
THOROUGH = B.thorough()

# common.Bounded keeps the first 20 violations; keep at most 2 per id so that known findings cannot crowd out new ones
_COUNTS = {}
_raw_violation = B.violation


def _violation(vid, what, inp):
    _COUNTS[vid] = _COUNTS.get(vid, 0) + 1
    if _COUNTS[vid] <= 2:
        _raw_violation(vid, what, inp)


B.violation = _violation
MAXOPS = 8 if THOROUGH else 5

SMALL_FLAGS = [[], ["FUEL"]]
HEX_FLAGS = [[], ["GRID_PLATE"], ["GRID_PLATE", "PLENUM"], ["PLENUM"], ["DUCT"], ["FUEL"], ["GRID_PLATE", "FUEL"], ["CONTROL"]]

_BASES = {}
STATS = {
    "ops": {},
    "refusals_expected": 0,
    "stationary_exchanges": 0,
    "to_pool": 0,
    "gone": 0,
    "from_pool": 0,
    "sequences": 0,
    "F6_scenarios": 0,
    "stale_old_name_keys_seen": 0,
    "refused_ops_left_in_fh_moved": 0,
    "pair_sweep_pairs": 0,
}


def quiet():
    runLog.setVerbosity("error")


def base(reactor, flags):
    """Pickled (o, r) of a freshly loaded test reactor with the stationary-flag setting under test (loaded once each)."""
    key = (reactor, tuple(flags))
    if key not in _BASES:
        custom = {"trackAssems": True, "stationaryBlockFlags": list(flags), "verbosity": "error"}
        if reactor == "small":
            o, r = loadTestReactor(inputFileName="smallestTestReactor/armiRunSmallest.yaml", customSettings=custom)
            quiet()
            g = r.core.spatialGrid
            for ij in [(1, 0), (0, 1), (-1, 1), (-1, 0), (0, -1), (1, -1)]:
                r.core.add(r.core.createAssemblyOfType("igniter fuel"), g[ij[0], ij[1], 0])
            for _ in range(2):
                r.excore["sfp"].add(r.core.createAssemblyOfType("igniter fuel"))
        else:
            o, r = loadTestReactor(customSettings=custom)
            quiet()
        _BASES[key] = (pickle.dumps((o, r), protocol=2), o.cs.modified(newSettings={"trackAssems": False}))
    return _BASES[key]


def fresh(reactor, flags, track, pool):
    pickled, cs_untracked = base(reactor, flags)
    o, r = pickle.loads(pickled)
    o.reattach(r, o.cs if track else cs_untracked)
    quiet()
    if not track:
        r.core.setOptionsFromCs(o.cs)  # the `trackAssems` setting reaches the core through this public hook
    if not pool:
        sfp = r.excore.pop("sfp")
        r.remove(sfp)
    # the unpickled core rebuilt its tables before it had a parent; rebuild them as loadTestReactor does
    r.core.regenAssemblyLists()
    return o, r


def ij_of(a):
    return tuple(int(x) for x in a.spatialLocator.getCompleteIndices()[:2])


def fingerprint(b):
    comps = []
    for c in b:
        dims = tuple((d, repr(c.getDimension(d))) for d in c.DIMENSION_NAMES)
        nd = tuple(sorted((k, float(v)) for k, v in c.getNumberDensities().items()))
        comps.append((c.name, type(c).__name__, dims, nd))
    return (float(b.getHeight()), tuple(comps))


class Recorder(FuelHandler):
    """The real FuelHandler; chooseSwaps runs the scripted sequence so that outage() bookkeeping is exercised too."""

    script = None

    def chooseSwaps(self, shuffleFactors=None):
        self.script(self)


class Ctx:
    def __init__(self, reactor, flags, track, pool, o, r):
        self.reactor, self.flags, self.track, self.pool = reactor, list(flags), track, pool
        self.o, self.r, self.core = o, r, r.core
        self.sfp = r.excore.get("sfp")
        self.flagvals = [Flags.fromString(f) for f in flags]
        self.keep = []  # keeps every assembly alive so ids stay unique
        self.m_core = {}  # (i,j) -> assembly
        self.m_pool = []
        self.m_gone = []
        self.m_blocks = {}
        self.m_fp = {}
        self.m_freshstat = set()  # stationary blocks a never-registered fresh assembly handed to the assembly it replaced
        self.m_moves = {}  # id(a) -> [lo, hi] expected numMoves
        self.m_label0 = {}
        self.touched = []  # assemblies moved by successful FuelHandler operations
        self.touched_refused = []
        self.ops = []
        self.failed = False
        for a in self.core:
            self.m_core[ij_of(a)] = a
            self.register(a)
        if self.sfp is not None:
            for a in self.sfp:
                self.m_pool.append(a)
                self.register(a)

    def desc(self):
        return {"reactor": self.reactor, "flags": self.flags, "track": self.track, "pool": self.pool}

    def register(self, a):
        self.keep.append(a)
        self.m_blocks[id(a)] = list(a)
        for b in a:
            self.m_fp[id(b)] = fingerprint(b)
        nm = float(a.p.numMoves or 0.0)
        self.m_moves[id(a)] = [nm, nm]
        self.m_label0[id(a)] = a.lastLocationLabel

    def designated(self, b):
        return any(b.hasFlags(f) for f in self.flagvals)

    def stat_idx(self, a):
        return [k for k, b in enumerate(self.m_blocks[id(a)]) if self.designated(b)]

    def label(self, ij):
        return self.core.spatialGrid.getLabel(ij)

    def loc_of(self, a):
        for ij, x in self.m_core.items():
            if x is a:
                return ij
        return None

    def bump(self, a, lo=1, hi=None):
        if self.m_label0[id(a)] == Assembly.DATABASE:
            return
        hi = lo if hi is None else hi
        self.m_moves[id(a)][0] += lo
        self.m_moves[id(a)][1] += hi

    def exchange(self, a1, a2):
        b1, b2 = self.m_blocks[id(a1)], self.m_blocks[id(a2)]
        for k in self.stat_idx(a1):
            b1[k], b2[k] = b2[k], b1[k]
            STATS["stationary_exchanges"] += 1

    def leaves_core(self, a, discharge):
        ij = self.loc_of(a)
        del self.m_core[ij]
        if discharge and self.track and self.sfp is not None:
            self.m_pool.append(a)
            STATS["to_pool"] += 1
        else:
            self.m_gone.append(a)
            STATS["gone"] += 1
            if discharge and self.track and self.sfp is None:
                STATS["F6_scenarios"] += 1
        return ij


# ----------------------------------------------------------------------------------------------- verification
def verify(cx, prefix=""):
    """Compare the real reactor with the model; returns True when everything agrees."""
    core, sfp = cx.core, cx.sfp
    inp = dict(cx.desc(), ops=list(cx.ops))
    ok = [True]

    def chk(cond, vid, what, detail=None):
        if not cond:
            ok[0] = False
            cx.failed = True
            d = dict(inp)
            if detail is not None:
                d["detail"] = detail
            B.violation(prefix + vid, what, d)
        return cond

    kids = list(core)
    kid_ids = [id(a) for a in kids]
    want = {id(a): a for a in cx.m_core.values()}
    chk(len(set(kid_ids)) == len(kid_ids), "inventory.core-duplicate", "an assembly is listed twice among the core's children")
    lost = [a.getName() for i, a in want.items() if i not in kid_ids]
    extra = [a.getName() for a in kids if id(a) not in want]
    chk(not lost, "inventory.core-lost", "an assembly the operations left in the core is not a child of the core", lost)
    chk(not extra, "inventory.core-extra", "the core lists an assembly that should not be (or no longer be) in it", extra)
    pool_now = list(sfp) if sfp is not None else []
    pool_ids = [id(a) for a in pool_now]
    wantp = {id(a): a for a in cx.m_pool}
    if sfp is not None:
        chk(len(set(pool_ids)) == len(pool_ids), "inventory.pool-duplicate", "an assembly is listed twice in the pool")
        chk(not [1 for i in wantp if i not in pool_ids], "inventory.pool-lost", "a discharged (tracked) or stored assembly is not in the pool",
            [a.getName() for i, a in wantp.items() if i not in pool_ids])
        chk(not [1 for a in pool_now if id(a) not in wantp], "inventory.pool-extra", "the pool holds an assembly that was not sent there",
            [a.getName() for a in pool_now if id(a) not in wantp])
    chk(not (set(kid_ids) & set(pool_ids)), "inventory.in-core-and-pool", "an assembly is in the core and in the pool at once")
    for a in cx.m_gone:
        chk(a.parent is None, "inventory.removed-still-attached", "a removed assembly still has a parent", a.getName())

    # placement
    seen = {}
    for a in kids:
        try:
            seen.setdefault(ij_of(a), []).append(a.getName())
        except Exception as e:  # noqa: BLE001
            chk(False, "placement.no-location", "a core child has no usable location", [a.getName(), repr(e)])
    chk(all(len(v) == 1 for v in seen.values()), "placement.two-at-one-location", "a core location holds more than one assembly",
        {str(k): v for k, v in seen.items() if len(v) > 1})
    for ij, a in cx.m_core.items():
        loc = a.spatialLocator
        good = a.parent is core and getattr(loc, "grid", None) is core.spatialGrid and ij_of(a) == ij and int(loc.getCompleteIndices()[2]) == 0
        chk(good, "placement.wrong-location", "an assembly does not sit (with a locator of the core grid) where the operation put it",
            [a.getName(), list(ij), repr(loc)])
        if good:
            chk(a.getLocation() == cx.label(ij), "placement.location-label", "getLocation() differs from the label of its location", [a.getName(), a.getLocation()])
    if sfp is not None:
        plocs = []
        for a in cx.m_pool:
            good = a.parent is sfp and getattr(a.spatialLocator, "grid", None) is sfp.spatialGrid
            chk(good, "placement.pool", "a pool assembly is not attached to the pool grid", a.getName())
            chk(a.getLocation() == Assembly.SPENT_FUEL_POOL, "placement.pool-label", "pool assembly's location label is not SFP", a.getName())
            plocs.append(tuple(int(x) for x in a.spatialLocator.getCompleteIndices()))
        chk(len(set(plocs)) == len(plocs), "placement.pool-two-at-one-location", "two pool assemblies share a pool location")

    # lookups: by location
    cbl = core.childrenByLocator
    wantkeys = {core.spatialGrid[ij[0], ij[1], 0]: a for ij, a in cx.m_core.items()}
    chk(set(cbl.keys()) == set(wantkeys.keys()), "lookups.childrenByLocator.keys", "childrenByLocator does not list exactly the occupied locations",
        {"extra": [repr(k) for k in set(cbl) - set(wantkeys)], "missing": [repr(k) for k in set(wantkeys) - set(cbl)]})
    chk(all(cbl.get(k) is a for k, a in wantkeys.items()), "lookups.childrenByLocator.value", "childrenByLocator maps a location to the wrong assembly",
        [a.getName() for k, a in wantkeys.items() if cbl.get(k) is not a])
    # lookups: by name
    present = list(cx.m_core.values()) + list(cx.m_pool)
    names = [a.getName() for a in present]
    chk(len(set(names)) == len(names), "lookups.name-collision", "two present assemblies share a name")
    f6 = "F6." if (cx.track and cx.sfp is None) else ""
    abn, bbn = core.assembliesByName, core.blocksByName
    bad_a, bad_ag, bad_b, bad_bg, fs_b = [], [], [], [], []
    for a in present:
        n = a.getName()
        if abn.get(n) is not a:
            bad_a.append(n)
        try:
            if core.getAssemblyByName(n) is not a:
                bad_ag.append(n)
        except Exception:  # noqa: BLE001
            bad_ag.append(n)
        for b in cx.m_blocks[id(a)]:
            bn = b.getName()
            sink = fs_b if id(b) in cx.m_freshstat else None
            if bbn.get(bn) is not b:
                (bad_b if sink is None else sink).append(bn)
            try:
                if core.getBlockByName(bn) is not b:
                    (bad_bg if sink is None else sink).append(bn)
            except Exception:  # noqa: BLE001
                (bad_bg if sink is None else sink).append(bn)
    chk(not bad_a, "lookups.assembliesByName.missing", "assembliesByName does not find a present assembly under its current name", bad_a[:6])
    chk(not bad_ag, "lookups.getAssemblyByName.missing", "getAssemblyByName does not find a present assembly under its current name", bad_ag[:6])
    chk(not bad_b, "lookups.blocksByName.missing", "blocksByName does not find a present block under its current name", bad_b[:6])
    chk(not bad_bg, "lookups.getBlockByName.missing", "getBlockByName does not find a present block under its current name", bad_bg[:6])
    chk(not fs_b, "lookups.blocksByName.missing-fresh-stationary-block",
        "dischargeSwap(fresh, outgoing) with stationary blocks: the fresh assembly's stationary block now sits in the tracked (pool) assembly but no block lookup finds it",
        sorted(set(fs_b))[:6])
    gone_a = {id(a) for a in cx.m_gone}
    gone_b = {id(b) for a in cx.m_gone for b in cx.m_blocks[id(a)]}
    stale_a = [n for n, a in abn.items() if id(a) in gone_a and a.getName() == n]
    stale_b = [n for n, b in bbn.items() if id(b) in gone_b and b.getName() == n]
    old_a = [n for n, a in abn.items() if id(a) in gone_a and a.getName() != n]
    old_b = [n for n, b in bbn.items() if id(b) in gone_b and b.getName() != n]
    chk(not stale_a, f6 + "lookups.assembliesByName.stale", "assembliesByName still returns an assembly that was removed for good", stale_a[:6])
    chk(not stale_b, f6 + "lookups.blocksByName.stale", "blocksByName still returns a block of an assembly that was removed for good", stale_b[:6])
    chk(not old_a, "lookups.assembliesByName.stale-under-old-name", "assembliesByName still returns, under a former name, an assembly that was removed for good", old_a[:6])
    chk(not old_b, "lookups.blocksByName.stale-under-old-name",
        "blocksByName still returns, under the name it had before its new assembly was renumbered, a (stationary) block of an assembly that was removed for good", old_b[:6])
    STATS["stale_old_name_keys_seen"] += sum(1 for n, b in bbn.items() if b.getName() != n and id(b) not in gone_b)

    # contents
    for a in present + list(cx.m_gone):
        wantb = cx.m_blocks[id(a)]
        nowb = list(a)
        if [id(b) for b in nowb] != [id(b) for b in wantb]:
            same_set = sorted(id(b) for b in nowb) == sorted(id(b) for b in wantb)
            chk(False, "contents.block-order" if same_set else "contents.block-membership",
                "block order changed" if same_set else "an assembly holds other blocks than its own travelling blocks plus the stationary blocks of its location",
                [a.getName(), [b.getName() for b in nowb], [b.getName() for b in wantb]])
            continue
        for k, b in enumerate(nowb):
            chk(b.parent is a, "contents.block-parent", "a block's parent is not the assembly that lists it", [a.getName(), b.getName()])
            chk(int(b.spatialLocator.k) == k, "contents.block-elevation-index", "a block's elevation index differs from its position in the assembly",
                [a.getName(), b.getName(), int(b.spatialLocator.k), k])
            was, now = cx.m_fp[id(b)], fingerprint(b)
            if was != now:
                if was[0] != now[0]:
                    chk(False, "contents.height", "a block height changed", [b.getName(), was[0], now[0]])
                elif [c[:3] for c in was[1]] != [c[:3] for c in now[1]]:
                    chk(False, "contents.dimensions", "component dimensions changed", b.getName())
                else:
                    chk(False, "contents.number-densities", "number densities changed", b.getName())

    # bookkeeping
    for a in present + list(cx.m_gone):
        lo, hi = cx.m_moves[id(a)]
        nm = float(a.p.numMoves or 0.0)
        chk(lo <= nm <= hi, "bookkeeping.numMoves", "numMoves is not +1 per move of a non-DATABASE assembly (and unchanged for all others)",
            [a.getName(), nm, lo, hi])
        chk(a.lastLocationLabel == cx.m_label0[id(a)], "bookkeeping.lastLocationLabel", "a move changed lastLocationLabel",
            [a.getName(), a.lastLocationLabel, cx.m_label0[id(a)]])
    return ok[0]


# ----------------------------------------------------------------------------------------------- operations
def op_count(kind):
    STATS["ops"][kind] = STATS["ops"].get(kind, 0) + 1


def run_op(cx, fh, kind, call, expect_refusal, apply_model, touched):
    """Perform one real operation, update the model, verify.  Returns False when the sequence must stop."""
    op_count(kind)
    inp = dict(cx.desc(), ops=list(cx.ops))
    B.case((cx.reactor, tuple(cx.flags), cx.track, cx.pool, json.dumps(cx.ops)), sample=inp if len(cx.ops) == 3 else None)
    try:
        call()
        raised = None
    except Exception as e:  # noqa: BLE001
        raised = e
    if expect_refusal:
        STATS["refusals_expected"] += 1
        if raised is None:
            cx.failed = True
            B.violation("refused.not-refused", "assemblies with different stationary-block layouts were exchanged without an error", inp)
            return False
        for a in touched:
            if a in fh.moved and a not in cx.touched:
                STATS["refused_ops_left_in_fh_moved"] += 1
                cx.touched_refused.append(a)
        return verify(cx, "refused.")
    if raised is not None:
        cx.failed = True
        B.violation("op.unexpected-error." + kind.split(":")[0], "a legal operation raised %s: %s" % (type(raised).__name__, str(raised)[:120]), inp)
        return False
    apply_model()
    for a in touched:
        if a not in cx.touched:
            cx.touched.append(a)
    good = verify(cx)
    for a in touched:
        if sum(1 for x in fh.moved if x is a) != 1:
            cx.failed = good = False
            B.violation("bookkeeping.moved-list", "an assembly handled by the fuel handler is not exactly once in its moved list", dict(inp, detail=a.getName()))
    return good


def free_locations(cx, rng, n=1):
    core = cx.core
    g = core.spatialGrid
    rings = core.numRings + 1
    out = []
    for i in range(-rings, rings + 1):
        for j in range(-rings, rings + 1):
            if (i, j) in cx.m_core:
                continue
            if max(abs(i), abs(j), abs(i + j)) >= rings:
                continue
            if g.locatorInDomain(g[i, j, 0], symmetryOverlap=False):
                out.append((i, j))
    rng.shuffle(out)
    return out[:n]


def new_assembly(cx, rng, like=None):
    types = sorted(cx.r.blueprints.assemblies.keys())
    if like is not None and rng.random() < 0.7:
        t = like.getType()
        if t not in types:
            t = rng.choice(types)
    else:
        t = rng.choice(types)
    a = cx.core.createAssemblyOfType(t)
    cx.register(a)
    return a


def do_swap(cx, fh, a1, a2):
    l1, l2 = cx.loc_of(a1), cx.loc_of(a2)
    cx.ops.append(["swap", cx.label(l1), cx.label(l2)])
    refuse = cx.stat_idx(a1) != cx.stat_idx(a2)

    def model():
        cx.exchange(a1, a2)
        cx.m_core[l1], cx.m_core[l2] = a2, a1
        cx.bump(a1)
        cx.bump(a2)

    return run_op(cx, fh, "swap", lambda: fh.swapAssemblies(a1, a2), refuse, model, [a1, a2])


def do_cascade(cx, fh, chain, with_none_at=None):
    locs = [cx.loc_of(a) for a in chain]
    arg = list(chain)
    if with_none_at is not None:
        arg.insert(with_none_at, None)
    cx.ops.append(["cascade"] + [None if a is None else cx.label(cx.loc_of(a)) for a in arg])

    def model():
        stat = [[cx.m_blocks[id(a)][k] for k in cx.stat_idx(a)] for a in chain]
        idx = cx.stat_idx(chain[0])
        n = len(chain)
        # [goingOut, inter1, ..., goingIn] -> positions [inter1, ..., goingIn, goingOut]
        for p in range(n):
            newcomer = chain[(p + 1) % n]
            cx.m_core[locs[p]] = newcomer
            for k, blk in zip(idx, stat[p]):
                cx.m_blocks[id(newcomer)][k] = blk
        if idx:
            STATS["stationary_exchanges"] += n - 1
        cx.bump(chain[0], 1, n - 1)
        for a in chain[1:]:
            cx.bump(a)

    return run_op(cx, fh, "cascade:%d" % len(chain), lambda: fh.swapCascade(arg), False, model, list(chain))


def do_dswap(cx, fh, incoming, outgoing, src):
    lo = cx.loc_of(outgoing)
    cx.ops.append(["dischargeSwap", src, incoming.getType(), cx.label(lo)])
    refuse = cx.stat_idx(incoming) != cx.stat_idx(outgoing)

    def model():
        if src == "fresh":
            cx.m_freshstat.update(id(cx.m_blocks[id(incoming)][k]) for k in cx.stat_idx(incoming))
        cx.exchange(incoming, outgoing)
        cx.leaves_core(outgoing, True)
        if src == "pool":
            cx.m_pool.remove(incoming)
            STATS["from_pool"] += 1
        cx.m_core[lo] = incoming
        cx.bump(incoming)

    return run_op(cx, fh, "dischargeSwap:" + src, lambda: fh.dischargeSwap(incoming, outgoing), refuse, model, [incoming, outgoing])


def do_add(cx, fh, a, ij, src):
    cx.ops.append(["add", src, a.getType(), cx.label(ij)])

    def model():
        if src == "re-add":
            cx.m_gone.remove(a)
        cx.m_core[ij] = a
        cx.bump(a)

    return run_op(cx, fh, "add:" + src, lambda: cx.core.add(a, cx.core.spatialGrid[ij[0], ij[1], 0]), False, model, [])


def do_remove(cx, fh, a, discharge):
    cx.ops.append(["remove", cx.label(cx.loc_of(a)), discharge])
    return run_op(cx, fh, "remove:discharge=%s" % discharge, lambda: cx.core.removeAssembly(a, discharge=discharge), False,
                  lambda: cx.leaves_core(a, discharge), [])


def random_op(cx, fh, rng):
    inside = [cx.m_core[k] for k in sorted(cx.m_core)]
    kinds = ["swap"] * 4 + ["cascade"] * 2 + ["dswap_fresh"] * 2 + ["add"] + ["remove_d", "remove_p"]
    if cx.m_pool:
        kinds += ["dswap_pool"] * 2
    if any(True for a in cx.m_gone):
        kinds += ["readd"]
    kind = rng.choice(kinds)
    if len(inside) < 4 and kind.startswith("remove"):
        kind = "add"
    if kind == "swap":
        a1, a2 = rng.sample(inside, 2)
        return do_swap(cx, fh, a1, a2)
    if kind == "cascade":
        a0 = rng.choice(inside)
        peers = [a for a in inside if a is not a0 and cx.stat_idx(a) == cx.stat_idx(a0)]
        n = min(len(peers), rng.choice([1, 2, 2, 3, 3, 4]))
        if n == 0:
            return True
        chain = [a0] + rng.sample(peers, n)
        none_at = rng.randrange(1, len(chain) + 1) if rng.random() < 0.15 else None
        return do_cascade(cx, fh, chain, none_at)
    if kind == "dswap_fresh":
        out = rng.choice(inside)
        return do_dswap(cx, fh, new_assembly(cx, rng, like=out), out, "fresh")
    if kind == "dswap_pool":
        return do_dswap(cx, fh, rng.choice(cx.m_pool), rng.choice(inside), "pool")
    if kind == "add":
        spots = free_locations(cx, rng)
        if not spots:
            return True
        return do_add(cx, fh, new_assembly(cx, rng), spots[0], "fresh")
    if kind == "readd":
        spots = free_locations(cx, rng)
        if not spots:
            return True
        return do_add(cx, fh, rng.choice(cx.m_gone), spots[0], "re-add")
    return do_remove(cx, fh, rng.choice(inside), kind == "remove_d")


def start(reactor, flags, track, pool, rng, database_labels=True):
    o, r = fresh(reactor, flags, track, pool)
    r.p.cycle = 1
    r.core.locateAllAssemblies()  # what the fuel-handler interface does before an outage
    if database_labels and rng.random() < 0.25:
        for a in rng.sample(list(r.core), 2):
            a.lastLocationLabel = Assembly.DATABASE
    cx = Ctx(reactor, flags, track, pool, o, r)
    return cx, Recorder(o)


def finish_outage(cx, fh, script):
    """Run the scripted sequence inside the real FuelHandler.outage() and check the documented move list."""
    fh.script = script
    try:
        fh.outage()
    except Exception as e:  # noqa: BLE001
        B.violation("bookkeeping.outage-error", "FuelHandler.outage() raised %s: %s" % (type(e).__name__, str(e)[:120]), dict(cx.desc(), ops=list(cx.ops)))
        return
    if cx.failed:
        return  # already reported; the move list of a broken state says nothing more
    inp = dict(cx.desc(), ops=list(cx.ops))
    moves = cx.core.moves.get(cx.r.p.cycle, [])
    by_name = {}
    for old, new, _enrich, _typ, name in moves:
        by_name.setdefault(name, []).append((old, new))
    allowed = {a.getName() for a in cx.touched} | {a.getName() for a in cx.touched_refused}
    B.check(set(by_name) <= allowed, "bookkeeping.move-list.extra", "the outage move list names an assembly the fuel handler never handled", dict(inp, detail=sorted(set(by_name) - allowed)))
    gone = {id(a) for a in cx.m_gone}
    for a in cx.touched:
        ent = by_name.get(a.getName(), [])
        if not B.check(len(ent) == 1, "bookkeeping.move-list.once", "a moved assembly is not exactly once in the outage move list", dict(inp, detail=[a.getName(), ent])):
            continue
        old, new = ent[0]
        B.check(old == cx.m_label0[id(a)], "bookkeeping.move-list.old-location", "old location in the move list is not where the assembly was before the outage",
                dict(inp, detail=[a.getName(), old, cx.m_label0[id(a)]]))
        if id(a) in gone:
            continue
        ij = cx.loc_of(a)
        wantnew = cx.label(ij) if ij is not None else Assembly.SPENT_FUEL_POOL
        B.check(new == wantnew, "bookkeeping.move-list.new-location", "new location in the move list is not where the assembly is now", dict(inp, detail=[a.getName(), new, wantnew]))
    n = cx.core.p.numMoves / cx.core.powerMultiplier
    B.check(len(cx.touched) <= n <= len(cx.touched) + len(cx.touched_refused), "bookkeeping.core-numMoves",
            "core.p.numMoves is not (number of handled assemblies) x power multiplier", dict(inp, detail=[n, len(cx.touched), len(cx.touched_refused)]))


def sequence(reactor, flags, track, pool, seq_seed, nops):
    rng = random.Random(seq_seed)
    cx, fh = start(reactor, flags, track, pool, rng)
    cx.ops.append(["seq_seed", seq_seed, nops])
    STATS["sequences"] += 1

    def script(handler):
        for _ in range(nops):
            if not random_op(cx, handler, rng):
                break

    finish_outage(cx, fh, script)


def pair_sweep(reactor, flags, track, pool, seed, chunk):
    """Every unordered pair of occupied locations is swapped once (histories of `chunk` swaps from a fresh core)."""
    rng = random.Random(seed)
    cx, fh = start(reactor, flags, track, pool, rng, database_labels=False)
    locs = sorted(cx.m_core)
    pairs = [(p, q) for i, p in enumerate(locs) for q in locs[i + 1:]]
    rng.shuffle(pairs)
    for s in range(0, len(pairs), chunk):
        if s:
            cx, fh = start(reactor, flags, track, pool, rng, database_labels=False)
        cx.ops.append(["pair-sweep", seed, s])
        part = pairs[s:s + chunk]

        def script(handler, part=part, cx=cx):
            for p, q in part:
                STATS["pair_sweep_pairs"] += 1
                if not do_swap(cx, handler, cx.m_core[p], cx.m_core[q]):
                    break

        finish_outage(cx, fh, script)


# ----------------------------------------------------------------------------------------------- edge probes
def edge_probes():
    rng = random.Random(B.seed)
    # 1. Core.add at an occupied location: documented precondition "must be unoccupied" -> refused, state intact
    cx, fh = start("hex", ["GRID_PLATE"], True, True, rng, database_labels=False)
    a = new_assembly(cx, rng)
    ij = sorted(cx.m_core)[5]
    cx.ops.append(["add-at-occupied", a.getType(), cx.label(ij)])
    B.case(("edge", "add-occupied"))
    op_count("edge:add-occupied")
    try:
        cx.core.add(a, cx.core.spatialGrid[ij[0], ij[1], 0])
        B.violation("edge.add-occupied.not-refused", "adding an assembly at an occupied location was accepted", dict(cx.desc(), ops=cx.ops))
    except Exception as e:  # noqa: BLE001
        B.check(isinstance(e, ValueError), "edge.add-occupied.error-type", "refusal of an occupied location is not the documented ValueError but %s" % type(e).__name__, dict(cx.desc(), ops=cx.ops))
    verify(cx, "edge.add-occupied.")
    # 2. swapping an assembly with itself (a cascade with a repeated entry does exactly this) must change nothing
    cx, fh = start("hex", ["GRID_PLATE"], True, True, rng, database_labels=False)
    a = cx.m_core[sorted(cx.m_core)[3]]
    cx.ops.append(["swap-with-itself", cx.label(cx.loc_of(a))])
    B.case(("edge", "swap-self"))
    op_count("edge:swap-self")
    try:
        fh.swapAssemblies(a, a)
        cx.bump(a, 0, 2)
    except Exception:  # noqa: BLE001
        pass
    verify(cx, "edge.swap-self.")
    # 3. a cascade that meets a stationary-layout mismatch only at its second swap: error, and nothing has moved
    cx, fh = start("hex", ["GRID_PLATE", "PLENUM"], True, True, rng, database_labels=False)
    inside = [cx.m_core[k] for k in sorted(cx.m_core)]
    a0 = inside[2]
    same = [x for x in inside if x is not a0 and cx.stat_idx(x) == cx.stat_idx(a0)]
    other = [x for x in inside if cx.stat_idx(x) != cx.stat_idx(a0)]
    B.case(("edge", "cascade-mismatch"))
    op_count("edge:cascade-mismatch")
    if same and other:
        chain = [a0, same[0], other[0]]
        cx.ops.append(["cascade-with-late-mismatch"] + [cx.label(cx.loc_of(x)) for x in chain])
        try:
            fh.swapCascade(chain)
            B.violation("edge.cascade-mismatch.not-refused", "cascade through assemblies with different stationary layouts was accepted", dict(cx.desc(), ops=cx.ops))
        except Exception:  # noqa: BLE001
            pass
        verify(cx, "edge.cascade-mismatch.")


def refusal_probes():
    """Stationary layouts that differ in POSITION (same count) and in COUNT: swap and both discharge-swap kinds are refused."""
    rng = random.Random(B.seed + 1)
    for flags in (["PLENUM"], ["GRID_PLATE", "PLENUM"], ["DUCT"]):
        for track in (True, False):
            cx, fh = start("hex", flags, track, True, rng, database_labels=False)
            cx.ops.append(["refusal-probe"])
            inside = [cx.m_core[k] for k in sorted(cx.m_core)]
            a0 = rng.choice(inside)
            diff = [x for x in inside if cx.stat_idx(x) != cx.stat_idx(a0)]
            same = [x for x in inside if x is not a0 and cx.stat_idx(x) == cx.stat_idx(a0)]

            def script(handler, cx=cx, a0=a0, diff=diff, same=same):
                good = True
                if diff:
                    x = rng.choice(diff)
                    good = do_swap(cx, handler, a0, x) and do_swap(cx, handler, x, a0)
                    for t in sorted(cx.r.blueprints.assemblies.keys()):
                        if not good:
                            break
                        new = cx.core.createAssemblyOfType(t)
                        cx.register(new)
                        if cx.stat_idx(new) != cx.stat_idx(a0):
                            good = do_dswap(cx, handler, new, a0, "fresh")
                            break
                    for p in cx.m_pool:
                        if good and cx.stat_idx(p) != cx.stat_idx(x):
                            good = do_dswap(cx, handler, p, x, "pool")
                            break
                if good and same:
                    do_swap(cx, handler, a0, same[0])  # and the core is still operable afterwards

            finish_outage(cx, fh, script)


class muted:
    """armi prints its event banners to fd 1 at every verbosity; keep stdout for the result line."""

    def __enter__(self):
        sys.stdout.flush()
        self.saved = os.dup(1)
        null = os.open(os.devnull, os.O_WRONLY)
        os.dup2(null, 1)
        os.close(null)

    def __exit__(self, *exc):
        sys.stdout.flush()
        os.dup2(self.saved, 1)
        os.close(self.saved)
        return False


# ----------------------------------------------------------------------------------------------- main
def configs(reactor):
    flagsets = SMALL_FLAGS if reactor == "small" else HEX_FLAGS
    out = []
    for fl in flagsets:
        for track in (True, False):
            for pool in (True, False):
                out.append((fl, track, pool))
    return out


def main():
    if B.replay is not None:
        rp = B.replay
        seed = nops = None
        for op in rp.get("ops", []):
            if op and op[0] == "seq_seed":
                seed, nops = op[1], op[2]
        seed = rp.get("seq_seed", seed)
        nops = rp.get("nops", nops)
        if seed is None:
            print(json.dumps({"result": "error", "why": "replay needs ops[0] == ['seq_seed', seed, nops] (random sequences only)"}))
            return
        with muted():
            sequence(rp["reactor"], rp["flags"], rp["track"], rp["pool"], seed, nops)
        print(json.dumps({"result": "fail" if B.violations else "pass", "violations": B.violations}, default=str))
        return

    with muted():
        campaign()
    B.extra.update(STATS)
    B.extra["violation_counts"] = _COUNTS
    B.extra["configs"] = {"small": len(configs("small")), "hex": len(configs("hex"))}
    B.finish(exhaustive=False)


def campaign():
    n_small = 600 if THOROUGH else 40
    n_hex = 500 if THOROUGH else 36
    small_cfg, hex_cfg = configs("small"), configs("hex")
    # all pairs of locations
    for fl in SMALL_FLAGS:
        for track in (True, False):
            pair_sweep("small", fl, track, True, B.rng.randrange(1 << 30), 7)
    if THOROUGH:
        pair_sweep("hex", ["GRID_PLATE"], True, True, B.rng.randrange(1 << 30), 24)
    edge_probes()
    refusal_probes()
    # random sequences, configurations visited round-robin so that every one is hit
    for n in range(n_small):
        fl, track, pool = small_cfg[n % len(small_cfg)]
        sequence("small", fl, track, pool, B.rng.randrange(1 << 30), B.rng.randint(2, MAXOPS))
    for n in range(n_hex):
        fl, track, pool = hex_cfg[n % len(hex_cfg)]
        sequence("hex", fl, track, pool, B.rng.randrange(1 << 30), B.rng.randint(2, MAXOPS))


if __name__ == "__main__":
    here = os.getcwd()
    with tempfile.TemporaryDirectory() as tmp:
        os.chdir(tmp)
        try:
            main()
        finally:
            os.chdir(here)
