"""C13 bounded tier: third-core -> full-core conversion, its undo, and the edge-assembly round trip, on the REAL converters.

Executable contract of property C13 wrapped around
    ThirdCoreHexToFullCoreChanger.convert / restorePreviousGeometry
    EdgeAssemblyChanger.addEdgeAssemblies / removeEdgeAssemblies / scaleParamsRelatedToSymmetry
(armi/reactor/converters/geometryConverters.py, imported from the tree under test; nothing is re-implemented).

A *case* is a JSON-able descriptor
    {"rings": n, "holes": [[i,j],...], "pseed": s, "flags": "fresh"|"cleared", "ops": "CRAX...", "reseed": [op indices], "track": bool}
= the default hex third-core test reactor cut down to n rings, the listed cells removed (assembly map with holes), block
parameters / compositions seeded from pseed, assembly tracking off or on (track: reactor loaded with cs trackAssems=True and its spent
fuel pool present; restore / remove-edge purge with Core.removeAssembly(a, discharge=False), whose name-table clean-up must hold in
both modes), then the operations applied in order with ONE changer object of each kind
(C convert, R restorePreviousGeometry, A addEdgeAssemblies, X removeEdgeAssemblies, Y = solver-like half-hex rewrite of
the symmetry-line blocks + scaleParamsRelatedToSymmetry + removeEdgeAssemblies).  After every operation the clauses of
the state the statement prescribes are checked against the snapshot of the third-core model ("third-core values").

What "three times the third-core values (the centre assembly counting once)" is compared with
---------------------------------------------------------------------------------------------
In a third-core model HexBlock.getSymmetryFactor() is 3 for the centre cell, so Block.getVolume(), Component.getMass()
(volume / symmetry factor) and, by convention, every VOLUME_INTEGRATED block parameter of the centre assembly carry one
third of the whole-hexagon value; all other cells carry whole values.  The third-core values are therefore simply what the
real armi API reports on the model before the conversion: core.getMasses()[nuc] / core.getMass(nuc) / core.getVolume() and
the plain sum over blocks of b.p[name] for every VOLUME_INTEGRATED parameter name.  The contract is
    value(full model) == 3 * value(third model)             (rel 1e-9, scaled by the sum of magnitudes)
which holds iff every non-centre cell is there three times with equal content and the centre once with whole-hexagon
values (symmetry factor 1, parameters x3) - exactly "the centre assembly counting once".  For counts, where no symmetry
factor applies:  n_full == 3*(n_third - c) + c,  c = 1 iff the centre cell is occupied.
If the conversion starts from a model that carries edge assemblies, the third-core values are those of the same model
without them (the statement's round-trip clause says that model is the same state; convert removes them first).

Violation ids (stable; one per clause)
    full.symmetry  full.cells  full.count  full.originals-untouched  full.independent-copy  full.copy-equals-source  full.rotated
    full.names-unique  full.volume-x3  full.mass-x3  full.integrated-x3  full.lookups  full.exception
    restore.symmetry  restore.same-assemblies  restore.params  restore.lookups  restore.mass-volume  restore.exception
    edge.symmetry  edge.same-assemblies  edge.params  edge.lookups  edge.mass-volume  edge.exception         (A then X)
    edge.lookups-added  edge.names-unique                                                                   (while edge assemblies are present)
    edge.scale-undone.{symmetry,same-assemblies,params,list-param,flux,lookups,mass-volume}                 (A, half-hex values, scale, X)
Circumstance suffixes (features of the input, appended so that a known finding cannot mask the clause in general):
    full.integrated-x3.flags-cleared.centre-first-in-order   the SINCE_LAST_GEOMETRY_TRANSFORMATION assignment flag was reset earlier
                                       (explicitly or by an addEdgeAssemblies call) AND the centre assembly is the first assembly in
                                       location order (k, j, i) at convert time (2-ring core, or no cell with j < 0 such as (2,-1))
    full.integrated-x3.flags-cleared.centre-not-first        same flag history, centre not first (or absent)
    full.integrated-x3.reused-changer  not the first conversion by this changer object AND every failing parameter name was written for
                                       the first time ever after that first conversion; any other failure under a reused changer gets
                                       the flags-cleared.* or the plain id
    restore.<clause>.centre-only       the third-core model consists of the centre assembly only
    restore.<clause>.no-centre         the third-core model has no centre assembly
    restore.same-assemblies.edge-present   edge assemblies were present before convert and are not back after restore

Bound: see B.bound.  Everything outside (quarter cores, cartesian, non-default test reactor) is not covered.
"""
import copy
import math
import os
import random
import sys
import tempfile
import time
import traceback
import json

sys.path.insert(0, os.path.dirname(os.path.abspath(__file__)))
from common import Bounded, armi_ready

armi_ready()
import numpy as np
from armi import runLog
from armi.reactor import geometry, parameters
from armi.reactor.parameters import ParamLocation, SINCE_LAST_GEOMETRY_TRANSFORMATION
from armi.reactor.converters import geometryConverters as gc
from armi.reactor.tests.test_reactors import loadTestReactor, reduceTestReactorRings

B = Bounded(
    rule="case = (ring count n of the default hex third-core test reactor, hole pattern from 8 seeded strategies incl. centre / "
    "symmetry-line / edge-detection-cell / all-negative-j / sparse holes, seeded block-parameter (volume-integrated and not; scalar, "
    "array, list, None) + composition + temperature state, assignment-flag history fresh|cleared, assembly tracking off|on (cs trackAssems, "
    "spent fuel pool present; both modes in every scenario family), operation word over {C convert, "
    "R restore, A add-edge, X remove-edge, Y half-hex rewrite+scale+remove-edge} applied with one changer object of each kind, optional "
    "re-seed of parameters between two operations); every clause of the statement is evaluated after every operation; "
    "distinct = (rings, holes, pseed, flags, ops, track); non-trivial = at least one operation changes the assembly set",
    bound="quick: rings 1-5 with holes (27 single-clause cases CR / AX / AY) + one 9-ring CR; on a 3-ring core all 20 words of length <= 2 "
    "over {C,R,A,X}, 7+7 seeded words of length 3 and 4, 4 removing words repeated in the other tracking mode, 7 named words on 2-4 rings; "
    "tracking alternates within each (family, ring count), tracked cases on rings 2-4. thorough: rings 1-9 (about 250 single-clause "
    "cases over all hole strategies and both flag histories), all 340 words of length <= 4 on 3 rings with tracking alternating and the 84 words of length <= 3 in both modes, all 84 words "
    "of length <= 3 on 2 rings, 80 seeded 4-letter words incl. Y on 4-5 rings with holes.  Only the default test reactor's assembly designs; hex third-core only",
)
RTOL = 1e-9
CACHE = {"volume"}  # Component.p.volume is the getVolume() cache (None = not computed), not model state
IDENT = {"assemNum", "serialNum"}  # identity of an object: differs between a copy and its source by definition
UNSET = "<unset>"
CENTRE = (0, 0)
counts = {}
KIND_CHANGES = [0]
B.extra["violation_counts"] = counts
B.extra["skipped"] = 0
B.extra["states_checked"] = {"full": 0, "third": 0, "third+edge": 0}
B.extra["rings_covered"] = []
B.extra["modes"] = {"tracked": 0, "untracked": 0}
B.extra["families_by_mode"] = {}
B.extra["strategies_hit"] = []


def rot(c, k):
    """Cell c rotated k times by 120 degrees counter-clockwise about the centre: (i,j) -> (-i-j,i) -> (j,-i-j)."""
    i, j = c
    for _ in range(k % 3):
        i, j = -i - j, i
    return (i, j)


def cell_of(a):
    idx = a.spatialLocator.getCompleteIndices()
    return (int(idx[0]), int(idx[1]))


def on_lower_line(c):  # theta = 0 symmetry line of the third-core view (grid-independent statement of it)
    return c[0] > 0 and c[0] == -2 * c[1]


# --------------------------------------------------------------------------------------------- value comparison
def isnum(x):
    return isinstance(x, (int, float, np.integer, np.floating)) and not isinstance(x, (bool, np.bool_))


def eqv(x, y, factor=1.0, rtol=0.0):
    """y == factor * x; exact unless rtol given (then relative, no absolute slack)."""
    if x is None or y is None or isinstance(x, str) or isinstance(y, str):
        return x is y or (isinstance(x, str) and isinstance(y, str) and x == y)
    if isnum(x) and isnum(y):
        fx = float(x) * factor
        fy = float(y)
        if math.isnan(fx) or math.isnan(fy):
            return math.isnan(fx) and math.isnan(fy)
        return fx == fy if rtol == 0.0 else abs(fx - fy) <= rtol * max(abs(fx), abs(fy))
    if isinstance(x, np.ndarray) or isinstance(y, np.ndarray):
        if isinstance(x, (list, tuple)) or isinstance(y, (list, tuple)):  # same numbers in another container: equal value; noted, not a violation
            KIND_CHANGES[0] += 1
            try:
                x, y = np.asarray(x, dtype=float), np.asarray(y, dtype=float)
            except Exception:
                return False
        if not (isinstance(x, np.ndarray) and isinstance(y, np.ndarray)) or x.shape != y.shape:
            return False
        if x.dtype.kind in "fiu" and y.dtype.kind in "fiu":
            fx = x.astype(float) * factor
            fy = y.astype(float)
            if rtol == 0.0:
                return bool(np.array_equal(fx, fy, equal_nan=True))
            return bool(np.all((np.abs(fx - fy) <= rtol * np.maximum(np.abs(fx), np.abs(fy))) | (np.isnan(fx) & np.isnan(fy))))
        return bool(np.array_equal(x, y))
    if isinstance(x, (list, tuple)) and isinstance(y, (list, tuple)):
        return type(x) is type(y) and len(x) == len(y) and all(eqv(u, v, factor, rtol) for u, v in zip(x, y))
    if isinstance(x, dict) and isinstance(y, dict):
        return set(x) == set(y) and all(eqv(x[k], y[k], factor, rtol) for k in x)
    try:
        r = x == y
        return bool(r) if not isinstance(r, np.ndarray) else bool(r.all())
    except Exception:
        return repr(x) == repr(y)


def pvals(p):
    out = {}
    for pd in p.paramDefs:
        try:
            v = p[pd.name]
        except Exception:
            v = UNSET
        if isinstance(v, np.ndarray):
            v = v.copy()
        elif isinstance(v, tuple) and len(v) == 2 and hasattr(v[0], "getDimension"):
            v = ("<linked dimension>", v[0].name, v[1])  # (component, key): resolved by name; object identity is checked separately
        elif isinstance(v, (list, dict, set)):
            v = copy.deepcopy(v)
        out[pd.name] = v
    return out


def brief(v):
    if isinstance(v, np.ndarray):
        return "ndarray%s %s" % (v.shape, np.array2string(v.ravel()[:4], precision=12))
    s = repr(v)
    return s if len(s) < 90 else s[:90] + "..."


def pdiff(before, p, factorNames=(), factor=1.0, rtolNames=(), skip=()):
    """Names whose value now differs from the recorded one (factor / tolerance only on the given names)."""
    bad = []
    for name, old in before.items():
        if name in skip:
            continue
        try:
            new = p[name]
        except Exception:
            new = UNSET
        if isinstance(new, tuple) and len(new) == 2 and hasattr(new[0], "getDimension"):
            new = ("<linked dimension>", new[0].name, new[1])
        f = factor if name in factorNames else 1.0
        t = RTOL if (name in factorNames or name in rtolNames) else 0.0
        if not eqv(old, new, f, t):
            bad.append([name, brief(old), brief(new)])
    return bad


# --------------------------------------------------------------------------------------------- snapshots and measures
def snap(core):
    s = {"sym": str(core.symmetry), "full": bool(core.isFullCore), "assems": {}, "byid": {}}
    children = list(core)
    for a in children:
        rec = {"obj": a, "cell": cell_of(a), "name": a.getName(), "loc": a.spatialLocator, "p": pvals(a.p), "symf": a.getSymmetryFactor(), "blocks": []}
        for b in a:
            brec = {"obj": b, "name": b.getName(), "p": pvals(b.p), "k": tuple(int(x) for x in b.spatialLocator.indices), "h": b.getHeight(), "vol": b.getVolume(), "area": b.getArea(), "comps": []}
            for c in b:
                brec["comps"].append({"obj": c, "name": c.name, "p": pvals(c.p), "T": c.temperatureInC, "mat": c.material})
            rec["blocks"].append(brec)
        s["assems"][rec["cell"]] = rec
        s["byid"][id(a)] = rec
    s["n_children"] = len(children)
    s["cbl"] = {tuple(int(x) for x in loc.indices): a for loc, a in core.childrenByLocator.items()}
    s["abn"] = dict(core.assembliesByName)
    s["bbn"] = dict(core.blocksByName)
    kids = {id(a) for a in children}
    kidb = {id(b) for a in children for b in a}
    s["abn_extra"] = {k: v for k, v in s["abn"].items() if id(v) not in kids}  # blueprint / pool entries, not core children
    s["bbn_extra"] = {k: v for k, v in s["bbn"].items() if id(v) not in kidb}
    return s


VI_NAMES = None
VI_SCALAR = VI_ARRAY = None
VI_LIST = ["reactionRates"]


def vi_names(core):
    global VI_NAMES, VI_SCALAR, VI_ARRAY
    if VI_NAMES is None:
        b = core.getFirstBlock()
        defs = list(b.p.paramDefs.atLocation(ParamLocation.VOLUME_INTEGRATED))
        VI_NAMES = [pd.name for pd in defs]
        VI_SCALAR = [pd.name for pd in defs if isnum(pd.default)]
        VI_ARRAY = [n for n in ("mgFlux", "adjMgFlux", "lastMgFlux", "mgFluxGamma", "mgFluxSK") if n in VI_NAMES]
    return VI_NAMES


def measure(core, nucSample):
    m = {"n": len(core), "nb": sum(len(a) for a in core), "vol": core.getVolume(), "mass": dict(core.getMasses()), "masstot": core.getMass(),
         "massN": {n: core.getMass(n) for n in nucSample}, "vi": {}, "vi_skipped": []}
    for name in vi_names(core):
        tot = mag = None
        ok = True
        for b in core.iterBlocks():
            v = b.p[name]
            if v is None:
                continue
            if isinstance(v, (str, dict)):
                ok = False
                break
            arr = np.asarray(v, dtype=float)
            if tot is None:
                tot, mag = arr.copy(), np.abs(arr)
            elif arr.shape != tot.shape:
                ok = False
                break
            else:
                tot = tot + arr
                mag = mag + np.abs(arr)
        if not ok:
            m["vi_skipped"].append(name)
        elif tot is not None:
            m["vi"][name] = (tot, mag)
    return m


def times3(third, full):
    """full == 3*third within RTOL of the magnitude sum."""
    t, tm = third
    f, fm = full
    t, tm, f, fm = (np.asarray(x, dtype=float) for x in (t, tm, f, fm))
    if t.shape != f.shape:
        return False
    return bool(np.all(np.abs(f - 3.0 * t) <= RTOL * np.maximum(3.0 * tm, fm)))


# --------------------------------------------------------------------------------------------- reactors and seeding
BASES = {}
FLAGS0 = {}


def clone(r):
    """copy.deepcopy(reactor), with the spent fuel pool registered again: ExcoreCollection.__deepcopy__ copies the attributes of the
    collection but not its dictionary items, so the copy's r.excore would not know the (copied) pool that is among the reactor's children."""
    from armi.reactor.spentFuelPool import SpentFuelPool

    r2 = copy.deepcopy(r)
    for ch in r2.getChildren():
        if isinstance(ch, SpentFuelPool) and r2.excore.get("sfp") is None:
            r2.excore["sfp"] = ch
    return r2


def fresh(rings, track=False):
    """A private copy of the n-ring third-core test reactor; track=True: loaded with cs trackAssems=True (spent fuel pool present)."""
    if (9, track) not in BASES:
        o, r = loadTestReactor(customSettings={"trackAssems": True}) if track else loadTestReactor()
        if not FLAGS0:
            FLAGS0.update({pd: pd.assigned for pd in parameters.ALL_DEFINITIONS})
        BASES[(9, track)] = (o, r)
    if (rings, track) not in BASES:
        o, r9 = BASES[(9, track)]
        r = clone(r9)
        # cutting the test reactor down is set-up, not the scenario: purge the outer rings (instead of piling ~70 assemblies into the
        # pool, which every later deepcopy would drag along); the pool keeps its initial content and tracking is on again afterwards
        r.core._trackAssems = False
        reduceTestReactorRings(r, o.cs, max(rings, 2))
        if rings == 1:
            for a in [a for a in r.core if cell_of(a) != CENTRE]:
                r.core.removeAssembly(a, discharge=False)
        sfp = r.excore.get("sfp")
        if sfp is not None and len(sfp) > 4:  # a pool with a few assemblies is enough; name tables rebuilt by armi's own regeneration
            for a in list(sfp)[4:]:
                sfp.remove(a)
            r.core.regenAssemblyLists()
        r.core._trackAssems = track
        BASES[(rings, track)] = (o, r)
    o, r = BASES[(rings, track)]
    r2 = clone(r)
    for pd, v in FLAGS0.items():  # assignment flags are process-global: give every case the post-load history
        pd.assigned = v
    return o, r2


NONVI_SCALARS = ["percentBu", "flux", "fluxPeak", "pdens", "buRate", "fastFluence", "residence", "THcoolantOutletT", "THcoolantInletT", "fluxAdj",
                 "fluxGamma", "percentBuPeak", "dpaPeak"]
SIX = ["cornerFastFlux", "pointsCornerDpa", "pointsEdgeDpa", "pointsEdgeFastFluxFr"]


def seed_state(core, rng, light=False, avoid=()):
    """Arbitrary block parameters (integrated / not, scalar / array / list / None) and compositions, from rng."""
    vi_names(core)
    have = set(core.getFirstBlock().p.paramDefs.names)
    G = rng.choice([1, 3, 33])
    scal = rng.sample(VI_SCALAR, rng.randint(2, min(9, len(VI_SCALAR))))
    if rng.random() < 0.7 and "power" not in scal:
        scal.append("power")
    if avoid:  # a re-seed always writes at least one volume-integrated name the previous state did not write
        other = [n for n in VI_SCALAR if n not in avoid]
        if other and not any(n in other for n in scal):
            scal.append(rng.choice(other))
    arrs = rng.sample(VI_ARRAY, rng.randint(0, len(VI_ARRAY)))
    lists = VI_LIST if rng.random() < 0.5 else []
    nonvi = [n for n in rng.sample(NONVI_SCALARS, 5) if n in have]
    six = [n for n in SIX if n in have and rng.random() < 0.6]
    cfg = {"G": G, "vi_scalar": scal, "vi_array": arrs, "vi_list": list(lists), "nonvi": nonvi, "six": six, "none": [], "comp": 0, "temp": 0}
    for b in core.iterBlocks():
        for n in scal:
            u = rng.random()
            b.p[n] = None if u < 0.04 else 0.0 if u < 0.10 else rng.uniform(-5.0, 5.0) if u < 0.3 else rng.uniform(1e3, 1e8)
        for n in arrs:
            b.p[n] = None if rng.random() < 0.1 else np.array([rng.uniform(0.0, 1e15) for _ in range(G)])
        for n in lists:
            b.p[n] = None if rng.random() < 0.1 else [rng.uniform(0.0, 1e12) for _ in range(4)]
        for n in nonvi:
            b.p[n] = rng.uniform(0.0, 900.0)
        for n in six:
            b.p[n] = [rng.uniform(1.0, 2.0) for _ in range(6)]
        if "pinMgFluxes" in have and rng.random() < 0.3:
            b.p.pinMgFluxes = np.array([[rng.uniform(0, 1e14) for _ in range(G)] for _ in range(3)])
        if "detailedNDens" in have and rng.random() < 0.3:
            b.p.detailedNDens = np.array([rng.uniform(0, 1e-2) for _ in range(5)])
        if "percentBuByPin" in have and rng.random() < 0.2:
            b.p.percentBuByPin = None
    comps = [c for b in core.iterBlocks() for c in b if len(c.getNuclides()) > 0]
    for c in rng.sample(comps, min(len(comps), 6)):
        nd = {k: v for k, v in c.getNumberDensities().items() if v > 0}
        if nd:
            nuc = rng.choice(sorted(nd))
            c.setNumberDensity(nuc, nd[nuc] * rng.choice([0.0, 0.5, 1.7]))
            cfg["comp"] += 1
    if not light:
        for c in rng.sample(comps, min(len(comps), 2)):
            try:
                c.setTemperature(c.temperatureInC + rng.uniform(5.0, 60.0))
                cfg["temp"] += 1
            except Exception:
                pass
    return cfg


HOLE_STRATEGIES = ["none", "random", "centre", "lower-line", "detect-cell", "negative-j", "centre-plus-one", "sparse"]


def make_holes(cells, strategy, rng):
    cells = sorted(cells)
    nonc = [c for c in cells if c != CENTRE]
    if strategy == "none":
        return []
    if strategy == "random":
        h = [c for c in cells if rng.random() < 0.25]
    elif strategy == "centre":
        h = [CENTRE] + [c for c in nonc if rng.random() < 0.1]
    elif strategy == "lower-line":
        h = [c for c in cells if on_lower_line(c)]
    elif strategy == "detect-cell":  # the cell whose 120-degree image getSymmetryFactor probes to detect edge assemblies
        h = [c for c in cells if c == (2, -1)]
    elif strategy == "negative-j":  # makes the centre assembly the first in location order
        h = [c for c in cells if c[1] < 0]
    elif strategy == "centre-plus-one":
        keep = {CENTRE, rng.choice(nonc)} if nonc else {CENTRE}
        h = [c for c in cells if c not in keep]
    else:  # sparse
        h = [c for c in cells if rng.random() < 0.6]
    if len(h) >= len(cells):
        h = h[:-1]
    return [list(c) for c in h]


# --------------------------------------------------------------------------------------------- the contract
class Case:
    def __init__(self, desc):
        self.desc = desc
        self.fired = []
        # circumstances (features of the input, not diagnoses) appended to an id so that a known finding stays narrow
        self.circ = {"restore": ""}
        self.copies = []  # (assembly, name, block names) of every assembly seen in the core that is not one of the model's own
        self.nConv, self.flagsCleared, self.centreFirst, self.written0, self.writtenLater = 0, False, False, set(), set()

    def V(self, vid, what, detail=None):
        if vid.startswith("restore.") and vid != "restore.same-assemblies.edge-present":
            vid += self.circ["restore"]
        if vid not in self.fired:
            counts[vid] = counts.get(vid, 0) + 1  # number of cases in which the id fired
        if vid not in self.fired:
            self.fired.append(vid)
            if counts[vid] == 1 or B.replay is not None:  # Bounded keeps 20 reports: one (the first = smallest) input per id, totals in violation_counts
                B.violation(vid, what, {"case": self.desc, "detail": detail})

    def check(self, cond, vid, what, detail=None):
        if not cond:
            self.V(vid, what, detail)
        return cond

    # ---- lookups list exactly the assemblies / blocks present (plus the non-core entries that were there before)
    def lookups_truthful(self, core, S0, vid):
        kids = list(core)
        bad = []
        cbl = core.childrenByLocator
        if len(cbl) != len(kids):
            bad.append(["childrenByLocator size", len(cbl), len(kids)])
        for loc, a in cbl.items():
            if a.parent is not core or a.spatialLocator is not loc or loc.grid is not core.spatialGrid:
                bad.append(["childrenByLocator stale entry", str(loc), a.getName()])
        names = {}
        bnames = {}
        for a in kids:
            if cbl.get(a.spatialLocator) is not a:
                bad.append(["childrenByLocator misses", a.getName(), list(cell_of(a))])
            if core.assembliesByName.get(a.getName()) is not a:
                bad.append(["assembliesByName misses", a.getName()])
            try:
                if core.getAssemblyWithStringLocation(a.getLocation()) is not a:
                    bad.append(["getAssemblyWithStringLocation", a.getLocation(), a.getName()])
            except Exception as e:
                bad.append(["getAssemblyWithStringLocation raised", a.getLocation(), repr(e)])
            names[a.getName()] = a
            for b in a:
                if core.blocksByName.get(b.getName()) is not b:
                    bad.append(["blocksByName misses", b.getName()])
                bnames[b.getName()] = b
        for table, present, extra, label in ((core.assembliesByName, names, S0["abn_extra"], "assembliesByName"), (core.blocksByName, bnames, S0["bbn_extra"], "blocksByName")):
            for k, v in table.items():
                if present.get(k) is v or (k not in present and extra.get(k) is v):
                    continue
                bad.append([label + " lists an object that is not present", k])
            for k, v in extra.items():
                if k not in present and table.get(k) is not v:
                    bad.append([label + " lost a non-core entry", k])
        if vid is None:
            return bad
        self.check(not bad, vid, "location / name lookups do not list exactly the assemblies and blocks present", bad[:6])

    # ---- the core is (again) the recorded third-core state
    def same_state(self, core, S, M, prefix, nucSample, tolBlocks=None, fluxTol=False):
        B.extra["states_checked"]["third+edge" if S.get("edge") else "third"] += 1
        self.check(str(core.symmetry) == S["sym"] and bool(core.isFullCore) == S["full"], prefix + ".symmetry", "core symmetry differs from the previous state", [S["sym"], str(core.symmetry)])
        bad = []
        now = {}
        for a in core:
            now.setdefault(cell_of(a), []).append(a)
        for c, rec in S["assems"].items():
            got = now.get(c, [])
            a = rec["obj"]
            if len(got) != 1 or got[0] is not a:
                bad.append(["cell does not hold its previous assembly", list(c), rec["name"], [g.getName() for g in got]])
            elif a.parent is not core or a.spatialLocator is not rec["loc"] or a.spatialLocator.grid is not core.spatialGrid:
                bad.append(["assembly detached or relocated", list(c), rec["name"]])
            elif [id(b) for b in a] != [id(br["obj"]) for br in rec["blocks"]] or any([id(x) for x in br["obj"]] != [id(cr["obj"]) for cr in br["comps"]] for br in rec["blocks"]):
                bad.append(["assembly does not hold its previous blocks / components", list(c), rec["name"]])
        for c in now:
            if c not in S["assems"]:
                bad.append(["cell occupied that was empty before", list(c), [g.getName() for g in now[c]]])
        self.check(not bad, prefix + ".same-assemblies", "not the same assembly objects at the same places as before", bad[:6])
        # parameters
        pbad, fbad, lbad0 = [], [], []
        tolBlocks = dict(tolBlocks or {})
        if CENTRE in S["assems"]:  # x3 then /3 on the centre's volume-integrated values: equal within 1e-9 relative
            for br in S["assems"][CENTRE]["blocks"]:
                tolBlocks.setdefault(id(br["obj"]), set(vi_names(core)))
        for c, rec in S["assems"].items():
            a = rec["obj"]
            if a.parent is not core:
                continue
            if a.getName() != rec["name"]:
                pbad.append(["assembly renamed", rec["name"], a.getName()])
            d = pdiff(rec["p"], a.p)
            if d:
                pbad.append(["assembly", rec["name"], d[:3]])
            for br in rec["blocks"]:
                b = br["obj"]
                tol = tolBlocks.get(id(b), ())
                d = pdiff(br["p"], b.p, rtolNames=tol, skip=("flux", "fluxAdj", "fluxGamma") + tuple(VI_LIST) if fluxTol and tol else ())
                if fluxTol and tol:
                    ld = pdiff({k: br["p"][k] for k in VI_LIST if k in br["p"]}, b.p, rtolNames=VI_LIST)
                    if ld:
                        lbad0.append(["block", br["name"], ld[:2]])
                    fd = pdiff({k: br["p"][k] for k in ("flux", "fluxAdj", "fluxGamma") if k in br["p"]}, b.p, rtolNames=("flux", "fluxAdj", "fluxGamma"))
                    if fd:
                        fbad.append(["block", br["name"], fd[:3]])
                if d:
                    pbad.append(["block", br["name"], list(c), d[:3]])
                if b.getName() != br["name"] or b.getHeight() != br["h"] or tuple(int(x) for x in b.spatialLocator.indices) != br["k"]:
                    pbad.append(["block name/height/axial place", br["name"], b.getName()])
                for cr in br["comps"]:
                    comp = cr["obj"]
                    d = pdiff(cr["p"], comp.p, skip=CACHE)
                    if d or comp.temperatureInC != cr["T"] or comp.material is not cr["mat"]:
                        pbad.append(["component", br["name"], cr["name"], d[:3]])
        self.check(not pbad, prefix + ".params", "parameters of the previous assemblies / blocks / components differ", pbad[:5])
        if fluxTol:
            self.check(not lbad0, prefix + ".list-param", "a list-valued volume-integrated parameter is not back to its previous value after scaling + removal", lbad0[:3])
            self.check(not fbad, prefix + ".flux", "scalar flux recomputed by the symmetry scaling differs from the previous state", fbad[:4])
        # lookups resolve exactly as before
        lbad = []
        cbl = {tuple(int(x) for x in loc.indices): a for loc, a in core.childrenByLocator.items()}
        for label, old, new in (("childrenByLocator", S["cbl"], cbl), ("assembliesByName", S["abn"], core.assembliesByName), ("blocksByName", S["bbn"], core.blocksByName)):
            for k in old:
                if k not in new:
                    lbad.append([label, "key lost", list(k) if isinstance(k, tuple) else k])
                elif new[k] is not old[k]:
                    lbad.append([label, "key resolves to another object", list(k) if isinstance(k, tuple) else k])
            for k in new:
                if k not in old:
                    lbad.append([label, "stale / new key", list(k) if isinstance(k, tuple) else k])
        for a, aname, bnames in self.copies:  # copies that were added and are removed again must not be resolvable any more
            if a.parent is core:
                continue
            for table, getter, names, label in ((core.assembliesByName, core.getAssemblyByName, [aname], "assembliesByName"), (core.blocksByName, core.getBlockByName, bnames, "blocksByName")):
                for nm in names:
                    if nm in table and nm not in S[("abn" if label == "assembliesByName" else "bbn")]:
                        lbad.append([label, "stale name of a removed copy", nm])
                    try:
                        got = getter(nm)
                    except KeyError:
                        continue
                    if got is a or any(got is b for b in a):
                        lbad.append([label, "getter resolves a removed copy", nm])
        self.check(not lbad, prefix + ".lookups", "location / name lookups do not resolve exactly as before", lbad[:6])
        self.lookups_truthful(core, S, prefix + ".lookups")
        # derived state: symmetry factors, volumes, masses (stale caches would show here)
        mbad = []
        for c, rec in S["assems"].items():
            a = rec["obj"]
            if a.parent is core and a.getSymmetryFactor() != rec["symf"]:
                mbad.append(["symmetry factor", rec["name"], rec["symf"], a.getSymmetryFactor()])
            for br in rec["blocks"]:  # cached areas / volumes of the cut assemblies must be current again
                if a.parent is core and not (eqv(br["area"], br["obj"].getArea(), rtol=RTOL) and eqv(br["vol"], br["obj"].getVolume(), rtol=RTOL)):
                    mbad.append(["block area / volume", br["name"], [br["area"], br["vol"]], [br["obj"].getArea(), br["obj"].getVolume()]])
        if not bad and not pbad and not S.get("edge"):
            m = measure(core, nucSample)
            if not eqv(M["vol"], m["vol"], rtol=RTOL):
                mbad.append(["volume", M["vol"], m["vol"]])
            if not eqv(M["masstot"], m["masstot"], rtol=RTOL):
                mbad.append(["mass", M["masstot"], m["masstot"]])
            for n, v in M["mass"].items():
                if not eqv(v, m["mass"].get(n), rtol=RTOL):
                    mbad.append(["mass", n, v, m["mass"].get(n)])
        self.check(not mbad, prefix + ".mass-volume", "symmetry factors / volume / nuclide masses differ from the previous state", mbad[:5])

    # ---- the core is the full-core image of the recorded third-core state
    def full_state(self, core, S0, M0, srcCells, nucSample, cfg):
        B.extra["states_checked"]["full"] += 1
        full = geometry.SymmetryType(geometry.DomainType.FULL_CORE, geometry.BoundaryType.NO_SYMMETRY)
        self.check(core.isFullCore and core.symmetry == full, "full.symmetry", "core is not full-core / no-symmetry after convert", str(core.symmetry))
        now = {}
        for a in core:
            now.setdefault(cell_of(a), []).append(a)
        expected = {rot(c, k) for c in srcCells for k in (0, 1, 2)}
        dup = [list(c) for c, v in now.items() if len(v) > 1]
        self.check(set(now) == expected and not dup, "full.cells", "occupied cells are not exactly the 120/240-degree orbit of the third-core cells, each once",
                   {"missing": sorted(map(list, expected - set(now)))[:6], "unexpected": sorted(map(list, set(now) - expected))[:6], "twice": dup[:6]})
        c0 = 1 if CENTRE in S0["assems"] else 0
        nb0 = sum(len(r["blocks"]) for r in S0["assems"].values())
        nbc = len(S0["assems"][CENTRE]["blocks"]) if c0 else 0
        self.check(len(core) == 3 * (M0["n"] - c0) + c0 and sum(len(a) for a in core) == 3 * (nb0 - nbc) + nbc, "full.count",
                   "assembly / block count is not three times the third-core count with the centre once", [M0["n"], len(core)])
        # sources stay, untouched (centre: volume-integrated x3)
        vi = set(vi_names(core))
        obad, cbad, ibad, rbad, zbad = [], [], [], [], []
        grid = core.spatialGrid
        for c, rec in S0["assems"].items():
            a = rec["obj"]
            if now.get(c) != [a] or a.spatialLocator is not rec["loc"]:
                obad.append(["source assembly not at its place", list(c), rec["name"]])
                continue
            if [id(b) for b in a] != [id(br["obj"]) for br in rec["blocks"]]:
                obad.append(["source assembly lost its blocks", rec["name"]])
                continue
            d = pdiff(rec["p"], a.p)
            if d or a.getName() != rec["name"]:
                obad.append(["source assembly params", rec["name"], d[:3]])
            for br in rec["blocks"]:
                d = pdiff(br["p"], br["obj"].p, factorNames=vi if c == CENTRE else (), factor=3.0)
                if d:
                    (zbad if c == CENTRE and all(x[0] in vi for x in d) else obad).append(["centre block" if c == CENTRE else "block", br["name"], list(c), d])
                for cr in br["comps"]:
                    d = pdiff(cr["p"], cr["obj"].p, skip=CACHE)
                    if d or cr["obj"].temperatureInC != cr["T"]:
                        obad.append(["component", br["name"], cr["name"], d[:3]])
            if c == CENTRE:
                continue
            # the two copies
            srcIds = self.object_ids(a)
            x0, y0 = grid.getCoordinates((c[0], c[1], 0))[:2]
            for k in (1, 2):
                got = now.get(rot(c, k), [])
                if len(got) != 1:
                    continue  # reported by full.cells
                n = got[0]
                if n is a or id(n) in S0["byid"]:
                    ibad.append(["cell holds a source assembly, not a copy", list(rot(c, k)), n.getName()])
                    continue
                shared = srcIds & self.object_ids(n)
                if shared or n.parent is not core or any(b.parent is not n for b in n):
                    ibad.append(["copy shares objects with its source", rec["name"], n.getName(), len(shared)])
                if type(n) is not type(a) or len(n) != len(a):
                    cbad.append(["copy has another type / block count", rec["name"], n.getName()])
                    continue
                # rotated into place: position and orientation by k*120 degrees, corner/edge values shifted by 2k
                ang = 2.0 * math.pi * k / 3.0
                x1, y1 = n.spatialLocator.getGlobalCoordinates()[:2]
                xr, yr = x0 * math.cos(ang) - y0 * math.sin(ang), x0 * math.sin(ang) + y0 * math.cos(ang)
                if math.hypot(x1 - xr, y1 - yr) > 1e-7 * max(1.0, math.hypot(x0, y0)):
                    rbad.append(["copy not at the rotated position", rec["name"], k, [x1, y1], [xr, yr]])
                for br, bn in zip(rec["blocks"], n):
                    o0 = np.asarray(br["p"]["orientation"], dtype=float)
                    o1 = np.asarray(bn.p.orientation, dtype=float)
                    if abs(((o1[2] - o0[2] - 120.0 * k + 180.0) % 360.0) - 180.0) > 1e-9 or o1[0] != o0[0] or o1[1] != o0[1]:
                        rbad.append(["orientation not source + k*120", br["name"], k, o0.tolist(), o1.tolist()])
                    for nm in cfg["six"]:
                        old = br["p"][nm]
                        exp = [old[(q - 2 * k) % 6] for q in range(6)]
                        if list(bn.p[nm]) != exp:
                            rbad.append(["corner/edge values not rotated by 2k places", br["name"], nm, k])
                    # equal content
                    skip = IDENT | {"orientation", "displacementX", "displacementY"} | set(SIX) | {pd.name for pd in bn.p.paramDefs if pd.location is not None and (pd.location & (ParamLocation.CORNERS | ParamLocation.EDGES))}
                    d = pdiff(br["p"], bn.p, skip=skip)
                    if d or bn.getHeight() != br["h"]:
                        cbad.append(["copy block differs from source", br["name"], bn.getName(), d[:3]])
                    for cr, cn in zip(br["comps"], bn):
                        d = pdiff(cr["p"], cn.p, skip=CACHE | IDENT)
                        if d or cn.temperatureInC != cr["T"] or cn.name != cr["name"]:
                            cbad.append(["copy component differs from source", br["name"], cr["name"], d[:3]])
        self.check(not obad, "full.originals-untouched", "convert changed a source assembly (other than the centre's volume-integrated values)", obad[:5])
        self.check(not ibad, "full.independent-copy", "a new assembly is not an independent copy of its source", ibad[:5])
        self.check(not rbad, "full.rotated", "a new assembly is not rotated into place (k*120 degrees for the k-th image)", rbad[:5])
        # names
        an = [a.getName() for a in core]
        bn_ = [b.getName() for a in core for b in a]
        nums = [a.p.assemNum for a in core]
        self.check(len(set(an)) == len(an) and len(set(bn_)) == len(bn_) and len(set(nums)) == len(nums), "full.names-unique", "assembly / block names are not all distinct",
                   [n for n in set(an) if an.count(n) > 1][:5])
        # totals
        m = measure(core, nucSample)
        self.check(eqv(M0["vol"], m["vol"], 3.0, RTOL), "full.volume-x3", "core volume is not 3x the third-core volume", [M0["vol"], m["vol"]])
        mb = [[n, v, m["mass"].get(n)] for n, v in M0["mass"].items() if not eqv(v, m["mass"].get(n, 0.0), 3.0, RTOL)]
        mb += [[n, "new nuclide", v] for n, v in m["mass"].items() if n not in M0["mass"] and v != 0.0]
        mb += [[n, v, m["massN"][n]] for n, v in M0["massN"].items() if not eqv(v, m["massN"][n], 3.0, RTOL)]
        if not eqv(M0["masstot"], m["masstot"], 3.0, RTOL):
            mb.append(["total", M0["masstot"], m["masstot"]])
        self.check(not mb, "full.mass-x3", "mass of a nuclide is not 3x the third-core mass", mb[:5])
        vb = []
        for name in set(M0["vi"]) | set(m["vi"]):
            if name in M0["vi_skipped"] or name in m["vi_skipped"]:
                continue
            if name not in M0["vi"] or name not in m["vi"] or not times3(M0["vi"][name], m["vi"][name]):
                vb.append([name, brief(M0["vi"].get(name, [None])[0]), brief(m["vi"].get(name, [None])[0])])
        badNames = {x[0] for x in vb} | {dd[0] for x in zbad for dd in x[3]}
        self.check(not vb and not zbad, "full.integrated-x3" + self.x3_circumstance(badNames), "a volume-integrated total is not 3x the third-core total (centre assembly's values x3, counted once)", (vb + [z[:3] + [z[3][:3]] for z in zbad])[:5])
        self.check(not cbad, "full.copy-equals-source", "a new assembly's content differs from its source", cbad[:5])
        self.lookups_truthful(core, S0, "full.lookups")

    def x3_circumstance(self, badNames):
        """Features of the input (not a diagnosis) under which the x3 clause failed; each known finding gets the narrowest one."""
        if self.nConv > 1 and badNames and badNames <= (self.writtenLater - self.written0):
            # not the first conversion by this changer object AND every failing name was first ever written after its first conversion
            return ".reused-changer"
        if self.flagsCleared:
            return ".flags-cleared.centre-first-in-order" if self.centreFirst else ".flags-cleared.centre-not-first"
        return ""

    @staticmethod
    def object_ids(a):
        ids = {id(a), id(a.p), id(a.spatialGrid), id(a.spatialLocator)}
        for b in a:
            ids |= {id(b), id(b.p), id(b.spatialLocator)}
            if b.spatialGrid is not None:
                ids.add(id(b.spatialGrid))
            for pd in b.p.paramDefs:
                try:
                    v = b.p[pd.name]
                except Exception:
                    continue
                if isinstance(v, (np.ndarray, list, dict)):
                    ids.add(id(v))
            for c in b:
                ids |= {id(c), id(c.p), id(c.material)}
                for pd in c.p.paramDefs:
                    try:
                        v = c.p[pd.name]
                    except Exception:
                        continue
                    if isinstance(v, (np.ndarray, list, dict)):
                        ids.add(id(v))
        return ids

    def mutate_copies(self, core, S0):
        """Change everything changeable on the new assemblies; the sources must not notice."""
        pre = [(rec, pvals(rec["obj"].p), [(br, pvals(br["obj"].p), br["obj"].getHeight(), [(cr, pvals(cr["obj"].p), cr["obj"].temperatureInC) for cr in br["comps"]]) for br in rec["blocks"]])
               for rec in S0["assems"].values()]
        for a in list(core):
            if id(a) in S0["byid"]:
                continue
            a.p.chargeTime = -77.0
            for b in a:
                for pd in b.p.paramDefs:
                    try:
                        v = b.p[pd.name]
                    except Exception:
                        continue
                    if isinstance(v, np.ndarray) and v.dtype.kind == "f" and v.size:
                        v += 1.0  # in place
                    elif isinstance(v, list) and v and isnum(v[0]):
                        v[0] = v[0] + 1.0  # in place
                    elif isinstance(v, dict):
                        v["mutated"] = 1
                b.p.power = 123.456
                b.p.percentBu = 99.0
                for c in b:
                    for nuc in c.getNuclides()[:2]:
                        c.setNumberDensity(nuc, 0.123)
                    try:
                        c.setTemperature(c.temperatureInC + 10.0)
                    except Exception:
                        pass
                b.setHeight(b.getHeight() * 1.5)
        bad = []
        for rec, ap, blocks in pre:
            d = pdiff(ap, rec["obj"].p)
            if d:
                bad.append(["assembly", rec["name"], d[:3]])
            for br, bp, h, comps in blocks:
                d = pdiff(bp, br["obj"].p)
                if d or br["obj"].getHeight() != h:
                    bad.append(["block", br["name"], d[:3]])
                for cr, cp, T in comps:
                    d = pdiff(cp, cr["obj"].p, skip=CACHE)
                    if d or cr["obj"].temperatureInC != T:
                        bad.append(["component", br["name"], cr["name"], d[:3]])
        self.check(not bad, "full.independent-copy", "mutating the new assemblies changed a source assembly", bad[:5])

    # ---- run
    def run(self):
        d = self.desc
        random.seed(d["pseed"])  # Assembly.makeUnique draws from the global generator
        rng = random.Random(d["pseed"])
        track = bool(d.get("track"))
        o, r = fresh(d["rings"], track)
        core = r.core
        if track and not (core._trackAssems is True and o.cs["trackAssems"] is True and r.excore.get("sfp") is not None):
            B.extra["skipped"] += 1  # tracking mode could not be established
            return False
        B.extra["modes"]["tracked" if track else "untracked"] += 1
        for h in d["holes"]:
            a = core.childrenByLocator.get(core.spatialGrid[h[0], h[1], 0])
            if a is not None and len(core) > 1:
                core.removeAssembly(a, discharge=False)
        cfg = seed_state(core, rng)
        if "Y" in d["ops"]:  # scalar flux consistent with the multigroup integral, so that recomputing it must give it back
            for b in core.iterBlocks():
                for mg, sc in (("mgFlux", "flux"), ("adjMgFlux", "fluxAdj"), ("mgFluxGamma", "fluxGamma")):
                    if b.p[mg] is not None and b.getVolume() > 0:
                        b.p[sc] = float(np.sum(b.p[mg])) / b.getVolume()
        if d.get("flags") == "cleared":  # as after any earlier geometry transformation (addEdgeAssemblies does exactly this)
            parameters.ALL_DEFINITIONS.resetAssignmentFlag(SINCE_LAST_GEOMETRY_TRANSFORMATION)
        third = geometry.SymmetryType(geometry.DomainType.THIRD_CORE, geometry.BoundaryType.PERIODIC)
        if core.symmetry != third or core.geomType != geometry.GeomType.HEX or any(cell_of(a)[1] == -2 * cell_of(a)[0] and cell_of(a)[1] > 0 for a in core):
            B.extra["skipped"] += 1
            return False
        nucs = sorted(core.getNuclides())
        nucSample = rng.sample(nucs, min(2, len(nucs)))
        S0 = snap(core)
        M0 = measure(core, nucSample)
        if self.lookups_truthful(core, S0, None):  # generated core is not a well-formed third-core model: outside the quantifier
            B.extra["skipped"] += 1
            return False
        T = gc.ThirdCoreHexToFullCoreChanger(o.cs)
        E = gc.EdgeAssemblyChanger()
        dom, edges, T_active, E_list, prev, S1, changed, mutated = "third", False, False, False, None, None, False, False
        self.flagsCleared = d.get("flags") == "cleared"
        everAssigned = {pd.name for pd in core.getFirstBlock().p.paramDefs.atLocation(ParamLocation.VOLUME_INTEGRATED) if FLAGS0.get(pd, parameters.NEVER) != parameters.NEVER}
        wrote = lambda c: set(c["vi_scalar"]) | set(c["vi_array"]) | set(c["vi_list"])
        self.written0 = everAssigned | wrote(cfg)  # volume-integrated names ever written before this changer's first conversion
        srcCells = set(S0["assems"])
        for idx, op in enumerate(d["ops"]):
            where = "%s@%d" % (op, idx)
            nFired = len(self.fired)
            try:
                if idx in d.get("reseed", ()) and dom == "third" and not edges:
                    cfg = seed_state(core, random.Random(d["pseed"] * 1000 + idx), light=True, avoid=cfg["vi_scalar"])
                    if self.nConv == 0:
                        self.written0 |= wrote(cfg)
                    else:
                        self.writtenLater |= wrote(cfg)
                    S0 = snap(core)
                    M0 = measure(core, nucSample)
                    srcCells = set(S0["assems"])
                if op == "C":
                    if dom == "third":
                        srcCells = {cell_of(a) for a in core}
                        prev = "S1" if edges else "S0"
                        self.nConv += 1
                        # location order of the assemblies convert loops over (the 120-degree-line ones are removed first): (k, j, i)
                        order = sorted(c for c in srcCells if not (c[1] > 0 and c[1] == -2 * c[0]))
                        order.sort(key=lambda c: (c[1], c[0]))
                        self.centreFirst = bool(order) and order[0] == CENTRE
                        armiFirst = [cell_of(a) for a in sorted(core) if not (cell_of(a)[1] > 0 and cell_of(a)[1] == -2 * cell_of(a)[0])][:1]
                        if armiFirst != order[:1]:
                            B.extra["order_disagreements"] = B.extra.get("order_disagreements", 0) + 1
                        self.circ["restore"] = ".centre-only" if srcCells == {CENTRE} else ".no-centre" if CENTRE not in srcCells else ""
                        dom, edges, T_active, changed = "full", False, True, True
                    T.convert(r)
                elif op == "R":
                    if T_active and dom == "full":
                        if not mutated:
                            self.mutate_copies(core, S0)
                            mutated = True
                        T.restorePreviousGeometry(r)
                        dom, T_active = "third", False
                        if prev == "S1":
                            lost = [list(c) for c in S1["assems"] if c not in S0["assems"] and not any(cell_of(a) == c for a in core)]
                            self.check(not lost, "restore.same-assemblies.edge-present", "convert from a model with edge assemblies, then restore: the edge assemblies that were there before are gone", lost)
                            edges = not lost
                    else:
                        T.restorePreviousGeometry(r)
                elif op == "A":
                    willAdd = dom == "third" and not E_list and any(on_lower_line(c) and rot(c, 1) not in S0["assems"] for c in S0["assems"]) and not edges
                    E.addEdgeAssemblies(core)
                    self.flagsCleared = self.flagsCleared or dom == "third"  # addEdgeAssemblies resets SINCE_LAST_GEOMETRY_TRANSFORMATION
                    if willAdd:
                        edges, E_list, changed = True, True, True
                        S1 = snap(core)
                        S1["edge"] = True
                elif op == "X":
                    E.removeEdgeAssemblies(core)
                    if dom == "third":
                        edges, E_list = False, False
                elif op == "Y":
                    tol = {}
                    if dom == "third" and edges:
                        tol = self.solver_writes_halves(core, S0)
                        E.scaleParamsRelatedToSymmetry(core)
                    E.removeEdgeAssemblies(core)
                    if dom == "third":
                        edges, E_list = False, False
                else:
                    raise ValueError(op)
                # clauses of the state the statement prescribes now
                known = {id(x[0]) for x in self.copies}
                for a in core:
                    if id(a) not in S0["byid"] and id(a) not in known:
                        self.copies.append((a, a.getName(), [b.getName() for b in a]))
                for b in core.iterBlocks():  # what any physics code does in every state: read (and thereby cache) areas and volumes
                    b.getArea()
                    b.getVolume()
                if dom == "full":
                    self.full_state(core, S0, M0, srcCells, nucSample, cfg)
                elif edges:
                    self.lookups_truthful(core, S0, "edge.lookups-added")
                    an = [a.getName() for a in core]
                    bn_ = [b.getName() for a in core for b in a]
                    self.check(len(set(an)) == len(an) and len(set(bn_)) == len(bn_), "edge.names-unique", "names not distinct with edge assemblies present", None)
                    orig = [rec for rec in S0["assems"].values() if rec["obj"].parent is not core or cell_of(rec["obj"]) != rec["cell"]]
                    self.check(not orig, "edge.same-assemblies", "an assembly of the model is gone / moved while edge assemblies are present", [x["name"] for x in orig][:5])
                    if op == "R":
                        self.same_state(core, S1, M0, "restore", nucSample)
                else:
                    if op == "Y":
                        self.same_state(core, S0, M0, "edge.scale-undone", nucSample, tolBlocks=tol, fluxTol=True)
                    else:
                        self.same_state(core, S0, M0, "restore" if op == "R" else "edge", nucSample)
                if any(v != "restore.same-assemblies.edge-present" for v in self.fired[nFired:]):
                    break  # the model is no longer in a state the statement describes: later clauses would only echo this one
            except Exception as e:
                tb = traceback.extract_tb(e.__traceback__)[-1]
                self.V(("full" if op == "C" else "restore" if op == "R" else "edge") + ".exception", "operation raised", [where, repr(e)[:200], "%s:%s" % (os.path.basename(tb.filename), tb.lineno)])
                break
        if dom == "full" and not mutated and not self.fired:
            self.mutate_copies(core, S0)
        return changed

    def solver_writes_halves(self, core, S0):
        """What a finite-difference solve on the model with edge assemblies leaves behind: each of the two half hexagons of a
        symmetry-line cell carries half of the whole-hexagon value (the value recorded before the edge assemblies were added)."""
        tol = {}
        vi = vi_names(core)
        now = {cell_of(a): a for a in core}
        for c, rec in S0["assems"].items():
            if not on_lower_line(c) or rot(c, 1) not in now or rot(c, 1) in S0["assems"]:
                continue
            up = now[rot(c, 1)]
            for br, bu in zip(rec["blocks"], up):
                b = br["obj"]
                tol[id(b)] = set(vi)
                for n in vi:
                    v = br["p"][n]
                    if v is None or isinstance(v, (str, dict)):
                        continue
                    half = [x / 2.0 for x in v] if isinstance(v, list) else v / 2.0
                    b.p[n] = copy.deepcopy(half)
                    bu.p[n] = copy.deepcopy(half)
        return tol


# --------------------------------------------------------------------------------------------- case enumeration
def third_cells(rings):
    o, r = fresh(rings)
    return sorted(cell_of(a) for a in r.core)


def cases():
    rng = B.rng
    out = []
    T = B.thorough()

    turn = {}

    def add(rings, strat, ops, flags="fresh", reseed=(), track=None):
        if rings not in CELLS:
            CELLS[rings] = third_cells(rings)
        cells = CELLS[rings]
        fam = ops if ops in ("CR", "AX", "AY") else "word"
        if track is None:  # both removal modes in every scenario family: alternate within (family, rings)
            turn[(fam, rings)] = not turn.get((fam, rings), rings % 2 == 0)
            track = turn[(fam, rings)] and (T or rings in (2, 3, 4))
        out.append({"rings": rings, "holes": make_holes(cells, strat, rng), "pseed": rng.randrange(1, 10 ** 6), "flags": flags, "ops": ops, "reseed": list(reseed),
                    "track": bool(track), "strategy": strat, "family": fam})

    alphabet = "CRAX"
    words = [""]
    byLen = {}
    for L in range(1, 5):
        words = [w + ch for w in words for ch in alphabet]
        byLen[L] = words
    fl = lambda: rng.choice(["fresh", "cleared"])
    if not T:
        # 1-3: single clauses over ring counts x hole strategies
        add(1, "none", "CR")
        add(2, "none", "CR")
        add(2, "centre", "CR", fl())
        for strat in ("none", "negative-j", "centre", "random"):
            add(3, strat, "CR", fl())
        add(3, "none", "AX")
        add(3, "random", "AX", fl())
        add(3, "none", "AY")
        for strat in HOLE_STRATEGIES:
            add(4, strat, "CR", fl())
        for strat in ("none", "lower-line", "detect-cell", "sparse"):
            add(4, strat, "AX", fl())
        add(4, "none", "AY")
        add(4, "random", "AY")
        add(5, "none", "AX")
        add(5, "detect-cell", "AY")
        # 4: operation words, one changer object of each kind per word
        for w in byLen[1] + byLen[2] + rng.sample(byLen[3], 7) + rng.sample(byLen[4], 7):
            add(3, "none", w, fl(), reseed=[2] if len(w) > 2 and rng.random() < 0.3 else ())
        for w in ("CR", "AX", "ACRX", "CRAX"):  # the removing words once more, in the removal mode the alternation did not give them
            prev = [c for c in out if c["rings"] == 3 and c["ops"] == w and not c["holes"]]
            add(3, "none", w, fl(), track=not prev[-1]["track"] if prev else True)
        for w in ("AC", "AXC", "ACR"):  # ring-2 core: no symmetry-line cells
            add(2, "none", w)
        add(3, "none", "AC", track=False)  # add-edge then convert on a full 3-ring map: the centre is not first in location order
        add(3, "none", "AC", track=True)
        add(3, "none", "CRC", reseed=[2])  # new parameter values between two conversions by the same changer
        add(4, "random", "CRCR", reseed=[2])
        add(9, "none", "CR", track=False)
    else:
        for rings in (1, 2, 3, 4, 5, 6, 7, 8, 9):
            strats = HOLE_STRATEGIES if rings >= 3 else ["none", "centre"] if rings == 2 else ["none"]
            for strat in strats:
                if rings >= 6 and strat not in ("none", "random", "detect-cell", "negative-j"):
                    continue
                for rep in range(2 if rings <= 5 else 1):
                    f = fl()
                    add(rings, strat, "CR", f)
                    if rings <= 5:
                        add(rings, strat, "CR", "cleared" if f == "fresh" else "fresh")
                    if rings >= 3 and (rings <= 5 or rep == 0):
                        add(rings, strat, "AX", f)
                        add(rings, strat, "AY")
        n = 0
        for L in (1, 2, 3, 4):  # all 340 words, removal mode alternating; the 84 words of length <= 3 in the other mode as well
            for w in byLen[L]:
                n += 1
                add(3, "none", w, fl(), reseed=[2] if L > 2 and rng.random() < 0.3 else (), track=n % 2 == 0)
                if L <= 3:
                    add(3, "none", w, fl(), track=n % 2 == 1)
        for L in (1, 2, 3):
            for w in byLen[L]:
                add(2, "none", w, "fresh")
        for _ in range(80):
            w = "".join(rng.choice("CRAXCRAXY") for _ in range(4))
            add(rng.choice([4, 5]), rng.choice(HOLE_STRATEGIES), w, fl(), reseed=[rng.randrange(1, 4)] if rng.random() < 0.5 else ())
    return out


CELLS = {}


def main():
    runLog.setVerbosity("error")
    here = os.getcwd()
    with tempfile.TemporaryDirectory() as tmp:
        os.chdir(tmp)
        try:
            if B.replay is not None:
                c = Case(B.replay)
                c.run()
                print(json.dumps({"result": "fail" if c.fired else "skipped" if B.extra["skipped"] else "pass", "violations": c.fired, "details": [[v["id"], v["input"]["detail"]] for v in B.violations], "skipped": B.extra["skipped"], "input": B.replay}, default=str))
                return
            budget = 1150.0 if B.thorough() else 85.0
            todo = cases()
            done = 0
            for d in todo:
                if B.spent() > budget:
                    break
                strat = d.pop("strategy")
                fam = d.pop("family") + ("/tracked" if d["track"] else "/untracked")
                B.extra["families_by_mode"][fam] = B.extra["families_by_mode"].get(fam, 0) + 1
                c = Case(d)
                runLog.setVerbosity("error")
                changed = c.run()
                done += 1
                B.case((d["rings"], json.dumps(d["holes"]), d["pseed"], d["flags"], d["ops"], d["track"]), sample=d, nontrivial=bool(changed))
                if d["rings"] not in B.extra["rings_covered"]:
                    B.extra["rings_covered"].append(d["rings"])
                if strat not in B.extra["strategies_hit"]:
                    B.extra["strategies_hit"].append(strat)
            B.extra["cases_planned"] = len(todo)
            B.extra["cases_run"] = done
            B.extra["rings_covered"].sort()
            B.extra["container_kind_changes_seen"] = KIND_CHANGES[0]
        finally:
            os.chdir(here)
    B.finish(exhaustive=False)


main()
