"""C09 bounded tier: whole-file round trips of every CCCC format on the REAL armi readers/writers.

Executable contract (oracle = the property statement, expressed without the code under test):

1. fixtures   every fixture file of the repo:  read -> write (same encoding) is byte identical; read -> write -> read gives
              equal data; binary -> ascii -> binary is byte identical (where both encodings exist).
2. generated  containers built from scratch over the header space of each format (geometry types, dimension counts,
              group / nuclide counts, optional-record flags, band layouts, blocking factors, string lengths, numeric
              extremes):  write -> read == container (every record the header announces is present and equal);
              write -> read -> write byte identical; the same through the ASCII encoding and across encodings.
              An independent serialisation of the container from the CCCC record layout (written here from the file
              specifications, never from armi code) must equal the file armi wrote, byte for byte (this also sees
              changes that reader and writer share, e.g. two fields swapped in a readWrite()).  A second well-formed
              file, obtained by perturbing every data word of the written file, must also be rewritten identically
              (sees file fields the container drops or duplicates).
3. framing    every binary file seen (fixtures and generated) is walked with an own parser of the FORTRAN framing:
              4-byte count, payload, identical 4-byte count; records tile the file.  Records of random field-type
              sequences (int, long, float, double, string, bool, list, matrix, implicit map) through the real
              BinaryRecordWriter/Reader and AsciiRecordWriter/Reader.

Violation ids:  <format>.<clause>[.<probe>]  -  clause in  fixture-rewrite-bytes, fixture-reread, fixture-ascii,
roundtrip, roundtrip-ascii, optional-record-lost, rewrite-bytes, rewrite-ascii, ascii-to-binary, file-content,
file-content-ascii, patched-rewrite, write-error, read-error, write-error-ascii, read-error-ascii;  frame.count-mismatch,
frame.tiling, frame.ascii-count-mismatch, record.*;  ascii.int-width / ascii.double-width (fixed-width ASCII fields).
A <probe> is one header feature outside the mainstream family (ISOTXS sub-blocked scatter, several orders in one block,
user file label; PMATRX activation cross sections, production order 3; COMPXS file-wide chi, delayed families; GEODST region
numbers beyond int16): it is reported under its own id and stops at its first violated clause.
"""
import contextlib
import io
import itertools
import json
import os
import random
import struct
import sys
import tempfile
import warnings

sys.path.insert(0, os.path.dirname(os.path.abspath(__file__)))
from common import Bounded, armi_ready  # noqa: E402

armi_ready()
import numpy as np  # noqa: E402
from scipy import sparse  # noqa: E402

from armi import runLog  # noqa: E402
from armi.nucDirectory import nuclideBases  # noqa: E402
from armi.nuclearDataIO import xsLibraries, xsNuclides  # noqa: E402
from armi.nuclearDataIO.cccc import (  # noqa: E402
    cccc,
    compxs,
    dif3d,
    dlayxs,
    fixsrc,
    gamiso,
    geodst,
    isotxs,
    labels,
    nhflux,
    pmatrx,
    pwdint,
    rtflux,
    rzflux,
)

runLog.setVerbosity("error")
warnings.simplefilter("ignore")

B = Bounded(
    rule="(1) every CCCC fixture file in the repo; (2) containers generated from scratch per format over the header space "
    "(geometry type, dimension counts, group/nuclide counts, optional-record flags, scatter band layouts, blocking factors, "
    "string lengths, value profiles ordinary / non-single-precision / extreme / extreme fitting the ASCII widths), each pushed "
    "through write->read->write in both encodings and compared with an independent serialisation of the record layout; "
    "(3) own FORTRAN-frame walker on every binary file, random field-type sequences through the record classes. "
    "distinct = (format, header parameters, value profile, case seed)",
    bound="groups<=4, nuclides/compositions<=3, mesh cells per direction<=5 (coarse meshes<=3, fine<=6), blocking factors 1..3 (<= rows), "
    "scattering blocks<=4, Legendre/production orders<=3, strings 0..n characters, <=7 fields per random record; "
    "quick: all repo fixtures + ~2.9k generated containers + 800 record files; thorough: ~46k containers + 24k record files",
)
THOROUGH = B.thorough()
REPO = os.path.dirname(os.path.dirname(os.path.abspath(cccc.__file__)))  # .../armi/nuclearDataIO
REPO = os.path.dirname(os.path.dirname(REPO))  # tree under test
FX_CCCC = os.path.join(REPO, "armi", "nuclearDataIO", "cccc", "tests", "fixtures")
FX_XS = os.path.join(REPO, "armi", "nuclearDataIO", "tests", "fixtures")
FX_TESTS = os.path.join(REPO, "armi", "tests")

VCOUNT = {}
STATS = {"binary_files_walked": 0, "ascii_files_walked": 0, "records_walked": 0, "skipped": {}}


def check(cond, vid, what, inp):
    """Record one violation per id (first = smallest input); count all of them."""
    if cond:
        return True
    VCOUNT[vid] = VCOUNT.get(vid, 0) + 1
    if VCOUNT[vid] == 1:
        B.violations.append({"id": vid, "what": what, "input": inp() if callable(inp) else inp})
    return False


def skip(why):
    STATS["skipped"][why] = STATS["skipped"].get(why, 0) + 1


def attempt(fn, *a):
    try:
        return True, fn(*a)
    except Exception as e:  # the contract: a well-formed container / file never raises
        msg = str(e).replace(STATS.get("tmp", "\0"), "<tmp>").strip().splitlines()
        return False, "%s: %s" % (type(e).__name__, (msg[-1] if msg else "")[-220:])


def rdb(path):
    with open(path, "rb") as f:
        return f.read()


# --------------------------------------------------------------------------------------------- own parsers of the framing
def walk_binary(path, ident):
    """FORTRAN sequential framing: int32 n | n bytes | int32 n.  Returns the payloads (None when the file is mis-framed)."""
    data = rdb(path)
    pos, out = 0, []
    STATS["binary_files_walked"] += 1
    while pos < len(data):
        if pos + 4 > len(data):
            check(False, "frame.tiling", "trailing bytes that are not a record", [ident, pos, len(data)])
            return None
        (n,) = struct.unpack_from("i", data, pos)
        if n < 0 or pos + 8 + n > len(data):
            check(False, "frame.tiling", "leading count runs past the end of the file (count != payload length)", [ident, "record", len(out), "count", n, "offset", pos, "size", len(data)])
            return None
        (m,) = struct.unpack_from("i", data, pos + 4 + n)
        if m != n:
            check(False, "frame.count-mismatch", "leading and trailing byte counts differ / do not equal the payload length", [ident, "record", len(out), "leading", n, "trailing", m])
            return None
        out.append(data[pos + 4 : pos + 4 + n])
        pos += 8 + n
    STATS["records_walked"] += len(out)
    return out


def walk_ascii(path, ident, counts=None):
    """ASCII encoding: one record per line, first and last 11-character field = the (binary) byte count of the record."""
    STATS["ascii_files_walked"] += 1
    out = []
    with open(path) as f:
        for k, line in enumerate(f.read().split("\n")[:-1]):
            try:
                a, b = int(line[:11]), int(line[-11:])
            except ValueError:
                a, b = None, -1
            if a != b:
                check(False, "frame.ascii-count-mismatch", "ASCII record not framed by two identical counts", [ident, "record", k, line[:11], line[-11:]])
                return None
            out.append(a)
    if counts is not None:
        check(out == counts, "frame.ascii-count-mismatch", "ASCII record counts differ from the binary record lengths of the same data", [ident, out[:12], counts[:12]])
    return out


# --------------------------------------------------------------------------------------------- independent serialisation
def I(v):  # noqa: E743
    return ("i", int(v))


def F(v):
    return ("f", float(v))


def D(v):
    return ("d", float(v))


def S(v, n):
    return ("s%d" % n, str(v))


class Rec(list):
    """One expected record: list of typed fields; data=True when every word is plain data (no structural meaning)."""

    def __init__(self, fields, data=False, hold=(), hold_name=None):
        list.__init__(self, fields)
        self.data = data
        self.hold, self.hold_name = set(hold), hold_name  # field indices perturbed separately (reported under their own id)

    def held_words(self):
        out, pos = set(), 0
        for k, (c, _) in enumerate(self):
            n = int(c[1:]) if c[0] == "s" else struct.calcsize(c)
            if k in self.hold:
                out |= set(range(pos // 4, (pos + n) // 4))
            pos += n
        return out

    def payload(self):
        out = []
        for code, v in self:
            if code[0] == "s":
                n = int(code[1:])
                out.append(v.encode("ascii").ljust(n)[:n] if len(v) <= n else b"?" * (n + 1))
            else:
                out.append(struct.pack(code, v))
        return b"".join(out)

    def nbytes(self):
        return sum(int(c[1:]) if c[0] == "s" else struct.calcsize(c) for c, _ in self)

    def ascii(self):
        n = self.nbytes()
        out = [" {:>+10}".format(n)]
        for code, v in self:
            if code == "i":
                out.append(" {:>+10}".format(v))
            elif code in "fd":
                out.append(" {:+.16E}".format(v))
            else:
                out.append(" " + v.ljust(int(code[1:])))
        out.append(" {:>+10}".format(n))
        return "".join(out) + "\n"


def spec_bytes(spec):
    out = []
    for r in spec:
        p = r.payload()
        out.append(struct.pack("i", len(p)) + p + struct.pack("i", len(p)))
    return b"".join(out)


def first_record_difference(spec, payloads):
    if payloads is None:
        return "mis-framed"
    for k, r in enumerate(spec):
        if k >= len(payloads):
            return "record %d (%d bytes) missing; file has %d records" % (k, r.nbytes(), len(payloads))
        if payloads[k] != r.payload():
            return "record %d: expected %d bytes, file %d bytes%s" % (k, r.nbytes(), len(payloads[k]), "" if len(payloads[k]) != r.nbytes() else " (same length, different content)")
    if len(payloads) > len(spec):
        return "file has %d extra records" % (len(payloads) - len(spec))
    return None


def patched(spec, data, held=False):
    """Flip low-order bits of every word of the plain-data records (word-dependent pattern): another well-formed file."""
    buf, pos, n = bytearray(data), 0, 0
    for r in spec:
        ln = r.nbytes()
        if r.data:
            hw = r.held_words()
            for w in range(0, ln - ln % 4, 4):
                if (w // 4 in hw) != held:
                    continue
                buf[pos + 4 + w] ^= 1 + (w // 4) % 7
                if buf[pos + 4 + w : pos + 8 + w] == b"\x00\x00\x00\x80":
                    buf[pos + 4 + w] ^= 8  # keep clear of the single-precision negative zero (a sparse matrix cannot hold it)
                n += 1
        pos += 8 + ln
    return bytes(buf), n


# --------------------------------------------------------------------------------------------- value comparison
def canon(v):
    if v is None:
        return None
    if sparse.issparse(v):
        v = v.toarray()
    if isinstance(v, dict):
        return {(k if isinstance(k, str) else repr(k)): canon(x) for k, x in v.items()}
    if isinstance(v, (list, tuple)):
        if len(v) == 0:
            return None
        try:
            a = np.asarray(v)
        except ValueError:
            a = None
        if a is None or a.dtype == object or (a.dtype.kind in "US" and not all(isinstance(x, str) for x in v)):
            return [canon(x) for x in v]  # ragged or mixed: element by element (numpy would turn numbers into text)
        v = a
    if isinstance(v, np.ndarray):
        if v.size == 0:
            return None
        if v.dtype == object:
            return [canon(x) for x in v.tolist()]
        return v
    if isinstance(v, np.generic):
        return v.item()
    return v


def _leaf_equal(a, b, lenient):
    if isinstance(a, np.ndarray) or isinstance(b, np.ndarray):
        a, b = np.asarray(a), np.asarray(b)
        if a.shape != b.shape:
            return False
        if a.dtype.kind in "US" or b.dtype.kind in "US":
            return bool(np.array_equal(a.astype(str), b.astype(str)))
        eq = a == b
        if lenient and a.dtype.kind == "f":
            with np.errstate(all="ignore"):
                eq = eq | (a.astype(np.float32).astype(float) == b)
        return bool(np.all(eq))
    if isinstance(a, str) or isinstance(b, str):
        return str(a) == str(b)
    if isinstance(a, float) and lenient:
        with np.errstate(all="ignore"):
            return a == b or float(np.float32(a)) == b
    return a == b


def diff(a, b, lenient=False, path=(), out=None, ignore=()):
    """Paths of `a` (written) whose non-empty value is not found equal in `b` (read).  a, b canonical trees."""
    out = [] if out is None else out
    if len(out) >= 4 or path in ignore or a is None:
        return out
    if isinstance(a, dict):
        if not isinstance(b, dict):
            out.append(["/".join(path), "missing"])
            return out
        for k, x in a.items():
            diff(x, b.get(k), lenient, path + (k,), out, ignore)
    elif isinstance(a, list):
        if not isinstance(b, list) or len(a) != len(b):
            out.append(["/".join(path), "list differs"])
            return out
        for k, x in enumerate(a):
            diff(x, b[k], lenient, path + (str(k),), out, ignore)
    elif b is None or isinstance(b, (dict, list)) or not _leaf_equal(a, b, lenient):
        out.append(["/".join(path), _short(a), _short(b)])
    return out


def _short(v):
    if isinstance(v, np.ndarray):
        return "shape%s %s" % (v.shape, np.array2string(v.ravel()[:4], precision=17, threshold=4))
    return repr(v)[:70]


def lookup(tree, path):
    for p in path:
        if not isinstance(tree, dict):
            return None
        tree = tree.get(p)
    return tree


# --------------------------------------------------------------------------------------------- snapshots (containers' own attributes)
def snap_container(d):
    out = {k: v for k, v in vars(d).items() if k != "metadata"}
    out["metadata"] = dict(d.metadata.items())
    return canon(out)


def snap_xs(kind):
    mdname = kind + "Metadata"

    def f(lib):
        out = {"metadata": dict(getattr(lib, mdname).items()), "labels": [str(x) for x in lib.nuclideLabels], "nuclides": {}}
        for a in ("neutronVelocity", "neutronEnergyUpperBounds", "gammaEnergyUpperBounds", "neutronDoseConversionFactors", "gammaDoseConversionFactors"):
            out[a] = getattr(lib, "_" + a, None)
        for lab, nuc in lib.items():
            e = {"metadata": dict(getattr(nuc, mdname).items())}
            if kind == "pmatrx":
                for a in ("neutronHeating", "neutronDamage", "gammaHeating", "isotropicProduction", "linearAnisotropicProduction", "nOrderProductionMatrix"):
                    e[a] = getattr(nuc, a)
            else:
                xs = nuc.micros if kind == "isotxs" else nuc.gammaXS
                e["xs"] = {k: v for k, v in vars(xs).items() if k not in ("source", "numGroups")}
            out["nuclides"][str(lab)] = e
        return canon(out)

    return f


def snap_dlayxs(x):
    out = {"metadata": dict(x.metadata.items()), "neutronEnergyUpperBounds": x.neutronEnergyUpperBounds, "nuclides": {}}
    for nuc, dn in x.items():
        out["nuclides"][nuc.name] = {
            "family": x.nuclideFamily.get(nuc),
            "precursorDecayConstants": dn.precursorDecayConstants,
            "delayEmissionSpectrum": dn.delayEmissionSpectrum,
            "delayNeutronsPerFission": dn.delayNeutronsPerFission,
        }
    return canon(out)


def snap_compxs(lib):
    out = {"metadata": dict(lib.compxsMetadata.items()), "regions": {}}
    for a in ("neutronVelocity", "neutronEnergyUpperBounds"):
        out[a] = getattr(lib, "_" + a, None)
    for k, reg in lib.items():
        out["regions"][str(k)] = {
            "metadata": {(q if isinstance(q, str) else repr(q)): v for q, v in reg.metadata.items()},
            "macros": {q: v for q, v in vars(reg.macros).items() if q not in ("source", "numGroups")},
        }
    return canon(out)


class Fmt:
    def __init__(self, name, rb, wb, ra, wa, snap):
        self.name, self.rb, self.wb, self.ra, self.wa, self.snap = name, rb, wb, ra, wa, snap


def _stream(cls, snap=snap_container, name=None):
    return Fmt(name, cls.readBinary, cls.writeBinary, cls.readAscii, cls.writeAscii, snap)


FMT = {
    "isotxs": Fmt("isotxs", isotxs.readBinary, isotxs.writeBinary, isotxs.readAscii, isotxs.writeAscii, snap_xs("isotxs")),
    "gamiso": Fmt("gamiso", gamiso.readBinary, gamiso.writeBinary, gamiso.readAscii, gamiso.writeAscii, snap_xs("gamiso")),
    "pmatrx": Fmt("pmatrx", pmatrx.readBinary, pmatrx.writeBinary, pmatrx.readAscii, pmatrx.writeAscii, snap_xs("pmatrx")),
    "dlayxs": Fmt("dlayxs", dlayxs.readBinary, dlayxs.writeBinary, dlayxs.readAscii, dlayxs.writeAscii, snap_dlayxs),
    "compxs": Fmt("compxs", compxs.readBinary, compxs.writeBinary, compxs.readAscii, compxs.writeAscii, snap_compxs),
    "geodst": _stream(geodst.GeodstStream, name="geodst"),
    "dif3d": _stream(dif3d.Dif3dStream, name="dif3d"),
    "nhflux": _stream(nhflux.NhfluxStream, name="nhflux"),
    "naflux": _stream(nhflux.NafluxStream, name="naflux"),
    "nhflux-variant": _stream(nhflux.NhfluxStreamVariant, name="nhflux-variant"),
    "naflux-variant": _stream(nhflux.NafluxStreamVariant, name="naflux-variant"),
    "labels": _stream(labels.LabelsStream, name="labels"),
    "pwdint": _stream(pwdint.PwdintStream, name="pwdint"),
    "rtflux": _stream(rtflux.RtfluxStream, name="rtflux"),
    "atflux": _stream(rtflux.AtfluxStream, name="atflux"),
    "rzflux": _stream(rzflux.RzfluxStream, name="rzflux"),
}


# --------------------------------------------------------------------------------------------- value profiles
F32MAX, F32TINY, F32SUB = 3.4028234663852886e38, 1.1754943508222875e-38, 1.401298464324817e-45
PROFILES = ("ordinary", "double", "extreme", "extreme-safe")


class Vals:
    """ordinary: values exactly representable in their field; double: 'f' fields carry full doubles (read back to single
    precision); extreme: int32 / float32 / float64 limits; extreme-safe: the largest magnitudes the ASCII widths hold."""

    def __init__(self, rng, profile):
        self.r, self.p = rng, profile
        self.wide_int = self.wide_double = False

    def i(self, lo=0, hi=60):
        if self.p == "extreme":
            v = self.r.choice([2**31 - 1, -(2**31), -1, 0, 10**9, -(10**9), 123456789, self.r.randint(lo, hi)])
            self.wide_int |= abs(v) >= 10**9
            return v
        if self.p == "extreme-safe":
            return self.r.choice([999999999, -999999999, -1, 0, self.r.randint(lo, hi)])
        return self.r.randint(lo, hi)

    def f(self):
        if self.p in ("extreme", "extreme-safe"):
            return self.r.choice([F32MAX, -F32MAX, F32TINY, F32SUB, -F32SUB, -0.0, 0.0, 1.0, float(np.float32(self.r.random()))])
        x = self.r.uniform(-1, 1) * 10.0 ** self.r.randint(-6, 6)
        return x if self.p == "double" else float(np.float32(x))

    def d(self):
        if self.p == "extreme":
            v = self.r.choice([1.7976931348623157e308, -1.7976931348623157e308, 5e-324, 2.2250738585072014e-308, -0.0, 1e-100, 1e100, 0.1, self.r.random()])
            self.wide_double |= v != 0 and not (1e-99 <= abs(v) < 1e100)
            return v
        if self.p == "extreme-safe":
            return self.r.choice([9.999999999999999e99, -9.999999999999999e99, 1e-99, -0.0, 0.0, 0.1, 1.0 / 3.0, self.r.random()])
        return self.r.uniform(-1, 1) * 10.0 ** self.r.randint(-12, 12)

    def s(self, n):
        ln = self.r.choice([0, 1, n, n, self.r.randint(0, n)])
        if ln == 0:
            return ""
        body = "".join(self.r.choice("ABCXYZ abcxyz0189 _-+*./") for _ in range(ln - 1))
        return body + self.r.choice("ABCZaz059*_")  # no trailing blank (precondition of rwString)

    def fs(self, n):
        return np.array([self.f() for _ in range(n)], dtype=float)

    def ds(self, *shape):
        return np.array([self.d() for _ in range(int(np.prod(shape)))], dtype=float).reshape(shape)

    def fa(self, *shape):
        return np.array([self.f() for _ in range(int(np.prod(shape)))], dtype=float).reshape(shape)

    def ia(self, n, lo=0, hi=60):
        return np.array([self.i(lo, hi) for _ in range(n)], dtype=np.int64)


def ccccBlock(m, nintj, nblok):
    """JL, JU (1-based, inclusive) of block M as CCCC-IV words it: JL=(M-1)*((NINTJ-1)/NBLOK+1)+1, JU=MIN0(NINTJ,JUP)."""
    w = (nintj - 1) // nblok + 1
    return (m - 1) * w + 1, min(nintj, m * w)


# ============================================================================================= builders
# Every builder returns (container, spec, announced): spec = the records CCCC-IV / the DIF3D manual prescribe for this header,
# announced = snapshot paths of the optional data the header flags announce.
GEODST_DIMS = {0: 0, 1: 1, 2: 1, 3: 1, 6: 2, 7: 2, 8: 2, 9: 2, 10: 2, 11: 2, 12: 3, 13: 3, 14: 3, 15: 3, 16: 3, 17: 3, 18: 3}


def build_geodst(p, V, rng):
    igom, nrass, nbs = p["IGOM"], p["NRASS"], p["NBS"]
    nd = GEODST_DIMS[igom]
    nc = [rng.randint(1, 3) if k < nd else 1 for k in range(3)]
    fints = [[rng.randint(1, 2) for _ in range(n)] for n in nc]
    nint = [sum(x) for x in fints]
    g = geodst.GeodstData()
    md = {"IGOM": igom, "NZONE": rng.randint(1, 3), "NREG": p.get("NREG", rng.randint(1, 4)), "NZCL": V.i(0, 3)}
    md.update(NCINTI=nc[0], NCINTJ=nc[1], NCINTK=nc[2], NINTI=nint[0], NINTJ=nint[1], NINTK=nint[2])
    for k in ("IMB1", "IMB2", "JMB1", "JMB2", "KMB1", "KMB2"):
        md[k] = V.i(0, 6)
    md.update(NBS=nbs, NBCS=rng.randint(0, 2), NIBCS=rng.randint(0, 2), NZWBB=rng.randint(0, 2), NTRIAG=V.i(0, 2), NRASS=nrass, NTHPT=V.i(0, 2))
    for k in ("NGOP1", "NGOP2", "NGOP3", "NGOP4"):
        md[k] = V.i(0, 0)
    label = V.s(28)
    g.metadata["label"] = label
    for k in geodst.FILE_SPEC_1D_KEYS:
        g.metadata[k] = md[k]
    spec = [Rec([S(label, 28)]), Rec([I(md[k]) for k in geodst.FILE_SPEC_1D_KEYS])]
    ann = []
    if nd:
        meshes = [V.ds(n + 1) for n in nc[:nd]]
        names = [("xmesh", "iintervals"), ("ymesh", "jintervals"), ("zmesh", "kintervals")]
        for k in range(nd):
            setattr(g, names[k][0], meshes[k])
            setattr(g, names[k][1], np.array(fints[k]))
            ann += [(names[k][0],), (names[k][1],)]
        spec.append(Rec([D(x) for m in meshes for x in m] + [I(x) for f in fints[:nd] for x in f], data=False))
    if nd or nbs:
        g.regionVolumes, g.bucklings = V.fs(md["NREG"]), V.fs(nbs)
        g.boundaryConstants, g.internalBlackBoundaryConstants = V.fs(md["NBCS"]), V.fs(md["NIBCS"])
        g.zonesWithBlackAbs, g.zoneClassifications = V.ia(md["NZWBB"], 1, md["NZONE"]), V.ia(md["NZONE"], 0, 5)
        g.regionZoneNumber = np.array([rng.randint(1, md["NZONE"]) for _ in range(md["NREG"])])
        names = ("regionVolumes", "bucklings", "boundaryConstants", "internalBlackBoundaryConstants", "zonesWithBlackAbs", "zoneClassifications", "regionZoneNumber")
        ann += [(n,) for n in names if len(getattr(g, n))]
        spec.append(Rec([F(x) for n in names[:4] for x in getattr(g, n)] + [I(x) for n in names[4:] for x in getattr(g, n)], data=True))
    if nd:
        dims = nc if nrass == 0 else nint
        top = p.get("maxRegion", md["NREG"])
        mr = np.array([rng.randint(0, md["NREG"]) for _ in range(dims[0] * dims[1] * dims[2])]).reshape(dims)
        mr[0, 0, 0] = top
        setattr(g, "coarseMeshRegions" if nrass == 0 else "fineMeshRegions", mr)
        ann.append(("coarseMeshRegions" if nrass == 0 else "fineMeshRegions",))
        for k in range(dims[2]):
            spec.append(Rec([I(mr[i, j, k]) for j in range(dims[1]) for i in range(dims[0])], data=top < 30000))
    return g, spec, ann


def build_dif3d(p, V, rng):
    d = dif3d.Dif3dData()
    ids = [V.s(8) for _ in range(3)]
    for k, v in zip(("HNAME", "HUSE1", "HUSE2"), ids):
        d.metadata[k] = v
    d.metadata["VERSION"] = V.i(0, 3)
    titles = [V.s(8) for _ in range(11)]
    for k, t in enumerate(titles):
        d.metadata["TITLE%d" % k] = t
    for k in ("MAXSIZ", "MAXBLK", "IPRINT"):
        d.metadata[k] = V.i(0, 2000000)
    for k in dif3d.FILE_SPEC_2D_PARAMS:
        d.twoD[k] = V.i(0, 99)
    d.twoD["NUMORP"], d.twoD["NCMRZS"] = p["NUMORP"], p["NCMRZS"]
    for k in dif3d.FILE_SPEC_3D_PARAMS:
        d.threeD[k] = V.d()
    spec = [
        Rec([S(v, 8) for v in ids] + [I(d.metadata["VERSION"])]),
        Rec([S(t, 8) for t in titles] + [I(d.metadata[k]) for k in ("MAXSIZ", "MAXBLK", "IPRINT")], data=True),
        Rec([I(d.twoD[k]) for k in dif3d.FILE_SPEC_2D_PARAMS]),
        Rec([D(d.threeD[k]) for k in dif3d.FILE_SPEC_3D_PARAMS], data=True),
    ]
    ann = []
    if p["NUMORP"] > 0:
        d.fourD = {"OMEGA%d" % k: V.d() for k in range(1, p["NUMORP"] + 1)}
        spec.append(Rec([D(d.fourD["OMEGA%d" % k]) for k in range(1, p["NUMORP"] + 1)], data=True))
        ann.append(("fourD",))
    if p["NCMRZS"] > 0:
        n = p["NCMRZS"]
        d.fiveD = {"ZCMRC%d" % k: V.d() for k in range(1, n + 1)}
        d.fiveD.update({"NZINTS%d" % k: V.i(1, 9) for k in range(1, n + 1)})
        spec.append(Rec([D(d.fiveD["ZCMRC%d" % k]) for k in range(1, n + 1)] + [I(d.fiveD["NZINTS%d" % k]) for k in range(1, n + 1)], data=True))
        ann.append(("fiveD",))
    return d, spec, ann


def build_nhflux(p, V, rng):
    variant, adjoint = p["variant"], p["adjoint"]
    ng, nz, na, nsurf, nmom, nmoms, nsc = p["ngroup"], p["nintk"], p["nintxy"], p["nSurf"], p["nMom"], p["nMoms"], p["nscoef"]
    next_ = p["nExt"]
    d = nhflux.NHFLUX(variant=variant)
    md = dict(ndim=p["ndim"], ngroup=ng, ninti=V.i(1, 9), nintj=V.i(1, 9), nintk=nz, iter=V.i(0, 99), effk=V.f(), power=V.f(), nSurf=nsurf, nMom=nmom, nintxy=na)
    md.update(npcxy=na * nsurf + next_, nscoef=nsc, itrord=V.i(0, 5), iaprx=V.i(0, 5), ileak=V.i(0, 5), iaprxz=V.i(0, 5), ileakz=V.i(0, 5), iorder=V.i(0, 5))
    keys = list(nhflux.FILE_SPEC_1D_KEYS)
    if variant:
        md.update(npcbdy=p["npcbdy"], npcsym=p["npcsym"], npcsec=p["npcsec"], iwnhfl=p["iwnhfl"], nMoms=nmoms)
        keys += list(nhflux.FILE_SPEC_1D_KEYS_VARIANT11) + ["IDUM%02d" % e for e in range(1, 7)]
    else:
        keys += ["IDUM%02d" % e for e in range(1, 12)]
    for k in keys:
        if k.startswith("IDUM"):
            md[k] = V.i(0, 3)
        d.metadata[k] = md[k]
    label = V.s(28)
    d.metadata["label"] = label
    spec = [Rec([S(label, 28)]), Rec([(F if k in ("effk", "power") else I)(md[k]) for k in keys])]
    nptr = p["npcbdy"] if variant else next_
    d.incomingPointersToAllAssemblies = V.ia(nsurf * na, 0, 99).reshape(nsurf, na)
    d.externalCurrentPointers = V.ia(nptr, 0, 99)
    d.geodstCoordMap = V.ia(na, 1, 99)
    r2 = [I(d.incomingPointersToAllAssemblies[s, a]) for a in range(na) for s in range(nsurf)] + [I(x) for x in d.externalCurrentPointers] + [I(x) for x in d.geodstCoordMap]
    ann = [("incomingPointersToAllAssemblies",), ("geodstCoordMap",), ("fluxMomentsAll",)]
    if nptr:
        ann.append(("externalCurrentPointers",))
    if variant:
        nsto = p["npcsym"] + p["npcsec"]
        d.outgoingPCSymSecPointers, d.ingoingPCSymSecPointers = V.ia(nsto, 0, 99), V.ia(nsto, 0, 99)
        r2 += [I(x) for x in d.outgoingPCSymSecPointers] + [I(x) for x in d.ingoingPCSymSecPointers]
        if nsto:
            ann += [("outgoingPCSymSecPointers",), ("ingoingPCSymSecPointers",)]
    spec.append(Rec(r2, data=True))
    ntot = nmom + (nmoms if variant else 0)
    d.fluxMomentsAll = V.ds(na, nz, ntot, ng)
    currents = not (variant and p["iwnhfl"] == 1)
    if currents:
        d.partialCurrentsHexAll = V.ds(na, nz, nsurf, ng, nsc)
        d.partialCurrentsHex_extAll = V.ds(next_, nz, ng, nsc)
        d.partialCurrentsZAll = V.ds(na, nz + 1, 2, ng, nsc)
        ann += [("partialCurrentsHexAll",), ("partialCurrentsZAll",)] + ([("partialCurrentsHex_extAll",)] if next_ else [])
    for gpos in range(ng):
        g = ng - 1 - gpos if adjoint else gpos
        for z in range(nz):
            r = [D(d.fluxMomentsAll[i, z, m, g]) for i in range(na) for m in range(nmom)]
            if variant and nmoms > 0:
                r += [D(d.fluxMomentsAll[i, z, nmom + m, g]) for i in range(na) for m in range(nmoms)]
            spec.append(Rec(r, data=True))
        if currents:
            for z in range(nz):
                r = [D(d.partialCurrentsHexAll[i, z, j, g, m]) for i in range(na) for j in range(nsurf) for m in range(nsc)]
                r += [D(d.partialCurrentsHex_extAll[j, z, g, m]) for j in range(next_) for m in range(nsc)]
                spec.append(Rec(r, data=True))
            for z in range(nz + 1):
                spec.append(Rec([D(d.partialCurrentsZAll[i, z, j, g, m]) for j in range(2) for i in range(na) for m in range(nsc)], data=True))
    return d, spec, ann


def build_labels(p, V, rng):
    d = labels.LabelsData()
    ids = [V.s(8) for _ in range(3)]
    for k, v in zip(("hname", "huse", "huse2"), ids):
        d.metadata[k] = v
    d.metadata["version"] = V.i(0, 3)
    md = {k: 0 for k in labels.FILE_SPEC_1D_KEYS}
    md.update(numZones=rng.randint(1, 3), numRegions=rng.randint(1, 4), numAreas=rng.randint(0, 2), numRegionAreaAssignments=rng.randint(0, 3))
    md.update(numHalfHeightsDirection1=p["nhts1"], numHalfHeightsDirection2=p["nhts2"], numNuclideSets=p["nsets"], numZoneAliases=p["nalias"])
    for k in ("numTrianglesPerHex", "numHexagonalRings", "numControlRodChannels", "numAxialFineMeshBins", "modelDimensions"):
        md[k] = V.i(0, 9)
    for k in labels.FILE_SPEC_1D_KEYS:
        d.metadata[k] = md[k]
    d.metadata["dummy"] = V.ia(2, 0, 9)
    spec = [Rec([S(v, 8) for v in ids] + [I(d.metadata["version"])]), Rec([I(md[k]) for k in labels.FILE_SPEC_1D_KEYS] + [I(x) for x in d.metadata["dummy"]])]
    d.zoneLabels = [V.s(8) for _ in range(md["numZones"])]
    d.regionLabels = [V.s(8) for _ in range(md["numRegions"])]
    d.areaLabels = [V.s(8) for _ in range(md["numAreas"])]
    d.regionAreaAssignments = [V.s(8) for _ in range(md["numRegionAreaAssignments"])]
    spec.append(Rec([S(x, 8) for x in d.zoneLabels + d.regionLabels + d.areaLabels + d.regionAreaAssignments], data=True))
    ann = [("zoneLabels",), ("regionLabels",)] + ([("areaLabels",)] if md["numAreas"] else []) + ([("regionAreaAssignments",)] if md["numRegionAreaAssignments"] else [])
    if p["nhts1"] > 0 or p["nhts2"] > 0:
        d.halfHeightsDirection1, d.extrapolationDistance1 = V.fs(p["nhts1"]), V.fs(p["nhts1"])
        d.halfHeightsDirection2, d.extrapolationDistance2 = V.fs(p["nhts2"]), V.fs(p["nhts2"])
        spec.append(Rec([F(x) for a in (d.halfHeightsDirection1, d.extrapolationDistance1, d.halfHeightsDirection2, d.extrapolationDistance2) for x in a], data=True))
        if p["nhts1"]:
            ann += [("halfHeightsDirection1",), ("extrapolationDistance1",)]
        if p["nhts2"]:
            ann += [("halfHeightsDirection2",), ("extrapolationDistance2",)]
    if p["nsets"] > 1:
        d.nuclideSetLabels = [V.s(8) for _ in range(p["nsets"])]
        spec.append(Rec([S(x, 8) for x in d.nuclideSetLabels], data=True))
        ann.append(("nuclideSetLabels",))
    if p["nalias"] > 0:
        d.aliasZoneLabels = [V.s(8) for _ in range(p["nalias"])]
        spec.append(Rec([S(x, 8) for x in d.aliasZoneLabels], data=True))
        ann.append(("aliasZoneLabels",))
    return d, spec, ann


def build_pwdint(p, V, rng):
    ni, nj, nk, nb = p["NINTI"], p["NINTJ"], p["NINTK"], p["NBLOK"]
    d = pwdint.PwdintData()
    ids = [V.s(8), V.s(6), V.s(6)]
    for k, v in zip(("hname", "huse", "huse2"), ids):
        d.metadata[k] = v
    d.metadata["version"], d.metadata["mult"] = V.i(0, 3), V.i(1, 2)
    md = dict(TIME=V.f(), POWER=V.f(), VOL=V.f(), NINTI=ni, NINTJ=nj, NINTK=nk, NCY=V.i(0, 30), NBLOK=nb)
    for k in pwdint.FILE_SPEC_1D_KEYS:
        d.metadata[k] = md[k]
    d.powerDensity = V.fa(ni, nj, nk)
    spec = [Rec([S(ids[0], 8), S(ids[1], 6), S(ids[2], 6), I(d.metadata["version"]), I(d.metadata["mult"])]), Rec([(F if k in ("TIME", "POWER", "VOL") else I)(md[k]) for k in pwdint.FILE_SPEC_1D_KEYS])]
    for k in range(nk):
        for m in range(1, nb + 1):
            jl, ju = ccccBlock(m, nj, nb)
            spec.append(Rec([F(d.powerDensity[i, j - 1, k]) for j in range(jl, ju + 1) for i in range(ni)], data=True))
    return d, spec, [("powerDensity",)]


def build_rtflux(p, V, rng):
    ng, ni, nj, nk, nb, adjoint = p["NGROUP"], p["NINTI"], p["NINTJ"], p["NINTK"], p["NBLOK"], p["adjoint"]
    d = rtflux.RtfluxData()
    label = V.s(28)
    d.metadata["label"] = label
    md = dict(NDIM=p["NDIM"], NGROUP=ng, NINTI=ni, NINTJ=nj, NINTK=nk, ITER=V.i(0, 99), EFFK=V.f(), POWER=V.f(), NBLOK=nb)
    for k in rtflux.FILE_SPEC_1D_KEYS:
        d.metadata[k] = md[k]
    d.groupFluxes = V.ds(ni, nj, nk, ng)
    spec = [Rec([S(label, 28)]), Rec([(F if k in ("EFFK", "POWER") else I)(md[k]) for k in rtflux.FILE_SPEC_1D_KEYS])]
    for gpos in range(ng):
        g = ng - 1 - gpos if adjoint else gpos
        for k in range(nk):
            for m in range(1, nb + 1):
                jl, ju = ccccBlock(m, nj, nb)
                spec.append(Rec([D(d.groupFluxes[i, j - 1, k, g]) for j in range(jl, ju + 1) for i in range(ni)], data=True))
    return d, spec, [("groupFluxes",)]


RZ_INTS = ("NBLOK", "ITPS", "NZONE", "NGROUP", "NCY")


def build_rzflux(p, V, rng):
    nz, ng, nb = p["NZONE"], p["NGROUP"], p["NBLOK"]
    d = rzflux.RzfluxData()
    label = V.s(28)
    d.metadata["label"] = label
    md = {k: V.f() for k in rzflux.FILE_SPEC_1D_KEYS if k not in RZ_INTS}
    md.update(NBLOK=nb, ITPS=rng.randint(0, 3), NZONE=nz, NGROUP=ng, NCY=V.i(0, 30))
    for k in rzflux.FILE_SPEC_1D_KEYS:
        d.metadata[k] = md[k]
    d.groupFluxes = V.fa(ng, nz)
    spec = [Rec([S(label, 28)]), Rec([(I if k in RZ_INTS else F)(md[k]) for k in rzflux.FILE_SPEC_1D_KEYS])]
    for m in range(1, nb + 1):
        jl, ju = ccccBlock(m, nz, nb)
        spec.append(Rec([F(d.groupFluxes[k, j - 1]) for j in range(jl, ju + 1) for k in range(ng)], data=True))
    return d, spec, [("groupFluxes",)]


# ---- nuclide-ordered cross-section libraries
XS_NUCS = [("U235", "U235_7"), ("PU39", "PU2397"), ("FE56", "FE56_7"), ("NA23", "NA23_7")]
SCAT_IDS = {100: "elasticScatter", 200: "inelasticScatter", 300: "n2nScatter", 0: "totalScatter", 101: "elasticScatter1stOrder"}


def build_isotxs(p, V, rng, kind="isotxs"):
    ng, nn, fw, nsb, nscmax = p["ngroup"], p["niso"], p["ichist"], p["nsblok"], p["nscmax"]
    lib = xsLibraries.IsotxsLibrary()
    md = lib.isotxsMetadata if kind == "isotxs" else lib.gamisoMetadata
    xsname = "micros" if kind == "isotxs" else "gammaXS"
    head = dict(label=p.get("label", "ISOTXS"), fileId=V.i(0, 3), numGroups=ng, maxUpScatterGroups=V.i(0, ng), maxDownScatterGroups=V.i(0, ng), maxScatteringOrder=V.i(0, 3))
    head.update(fileWideChiFlag=fw, maxScatteringBlocks=nscmax, subblockingControl=nsb, libraryLabel=V.s(96), minimumNeutronEnergy=V.f())
    for k, v in head.items():
        md[k] = v
    chi = V.fs(ng) if fw == 1 else None
    md["chi"] = chi
    vel, emax = V.fs(ng), V.fs(ng)
    if kind == "isotxs":
        lib.neutronVelocity, lib.neutronEnergyUpperBounds = vel, emax
    else:
        md["gammaVelocity..NOT"] = vel
        lib.gammaEnergyUpperBounds = emax
    names = [XS_NUCS[k][0] + rng.choice(["AA", "AB", "ZC"]) for k in rng.sample(range(len(XS_NUCS)), nn)]
    ann, nucrecs, nrecs = [("metadata", "chi")] if fw == 1 else [], [], []
    for name in names:
        nuc = xsNuclides.XSNuclide(lib, name)
        lib[name] = nuc
        nm = nuc.isotxsMetadata if kind == "isotxs" else nuc.gamisoMetadata
        xs = getattr(nuc, xsname)
        fis = rng.randint(0, 1)
        ichi = rng.randint(0, 1) if (fw == 1 or not fis) else 1
        m = dict(nuclideId=V.s(8), libName=V.s(8), isoIdent=V.s(8), amass=V.f(), efiss=V.f(), ecapt=V.f(), temp=V.f(), sigPot=V.f(), adens=V.f())
        m.update(classif=V.i(0, 7), chiFlag=ichi, fisFlag=fis, ltot=rng.randint(1, 3), ltrn=rng.randint(1, 3), strpd=rng.choice([0, 0, 1, 2]))
        m["nuclideId"] = m["nuclideId"] or "X"
        for k in ("nalph", "np", "n2n", "nd", "nt"):
            m[k] = rng.randint(0, 1)
        ids = p.get("idsct") or rng.sample([100, 101, 102, 200, 300, 0, 103, 201], nscmax)
        ords = [p.get("lord", 1) if rng.random() < 0.75 else 0 for _ in range(nscmax)]
        if p.get("lord", 1) > 1 or nsb > 1:
            ords[0] = p.get("lord", 1)
        jband, jj, mats = {}, {}, []
        for n in range(nscmax):
            dense = np.zeros((ng, ng))
            for g in range(ng):
                up = rng.randint(0, ng - 1 - g) if rng.random() < 0.4 else 0  # groups above g that scatter into g (stored first)
                down = rng.randint(0, g) if rng.random() < 0.8 else 0
                empty = rng.random() < 0.1
                jj[g, n] = up + 1
                jband[g, n] = 0 if empty else up + 1 + down
                if empty:
                    jj[g, n] = 1 if g == 0 else rng.randint(1, 1)
                    jband[g, n] = 0
                if ords[n] > 0 and not empty:
                    for c in range(g - down, g + up + 1):
                        dense[g, c] = V.f() if rng.random() < 0.85 else 0.0
            mats.append(dense + 0.0)  # a sparse matrix holds no negative zero
        m.update(scatFlag=np.array(ids), ords=np.array(ords), jband=jband, jj=jj)
        for k, v in m.items():
            nm[k] = v
        xs.transport, xs.total, xs.nGamma = V.fa(ng, m["ltrn"]), V.fa(ng, m["ltot"]), V.fs(ng)
        base = ("nuclides", name, "xs")
        ann += [base + (a,) for a in ("transport", "total", "nGamma")]
        r5 = [F(xs.transport[j, k]) for k in range(m["ltrn"]) for j in range(ng)] + [F(xs.total[j, k]) for k in range(m["ltot"]) for j in range(ng)] + [F(x) for x in xs.nGamma]
        if fis:
            xs.fission, xs.neutronsPerFission = V.fs(ng), V.fs(ng)
            r5 += [F(x) for x in xs.fission] + [F(x) for x in xs.neutronsPerFission]
            ann += [base + ("fission",), base + ("neutronsPerFission",)]
        if ichi == 1:
            xs.chi = V.fs(ng)
            r5 += [F(x) for x in xs.chi]
            ann.append(base + ("chi",))
        elif fis:
            xs.chi = chi
            ann.append(base + ("chi",))
        for k in ("nalph", "np", "n2n", "nd", "nt"):
            if m[k]:
                xs[k] = V.fs(ng)
                r5 += [F(x) for x in xs[k]]
                ann.append(base + (k,))
        if m["strpd"] > 0:
            xs.strpd = V.fa(ng, m["strpd"])
            r5 += [F(xs.strpd[j, k]) for k in range(m["strpd"]) for j in range(ng)]
            ann.append(base + ("strpd",))
        r4 = [S(m[k], 8) for k in ("nuclideId", "libName", "isoIdent")] + [F(m[k]) for k in ("amass", "efiss", "ecapt", "temp", "sigPot", "adens")]
        r4 += [I(m[k]) for k in ("classif", "chiFlag", "fisFlag", "nalph", "np", "n2n", "nd", "nt", "ltot", "ltrn", "strpd")]
        r4 += [I(x) for x in ids] + [I(x) for x in ords] + [I(jband[g, n]) for n in range(nscmax) for g in range(ng)] + [I(jj[g, n]) for n in range(nscmax) for g in range(ng)]
        recs = [Rec(r4), Rec(r5, data=True)]
        for n in range(nscmax):
            if ords[n] <= 0:
                continue
            sp = sparse.csr_matrix(mats[n])
            if ids[n] in SCAT_IDS and list(ids).index(ids[n]) == n:
                xs[SCAT_IDS[ids[n]]] = sp
                path = base + (SCAT_IDS[ids[n]],)
            else:
                xs.higherOrderScatter[n] = sp
                path = base + ("higherOrderScatter", repr(n))
            if mats[n].any():
                ann.append(path)
            for msub in range(1, nsb + 1):
                jl, ju = ccccBlock(msub, ng, nsb)
                one = [F(mats[n][g, g + jj[g, n] - 1 - k]) for g in range(jl - 1, ju) for k in range(jband[g, n])]
                recs.append(Rec(one * ords[n], data=True))
        nucrecs.append(recs)
        nrecs.append(len(recs))
    loca = [sum(nrecs[:k]) for k in range(nn)]
    r2 = [S(head["libraryLabel"], 96)] + [S(x, 8) for x in names] + ([F(x) for x in chi] if fw == 1 else []) + [F(x) for x in vel] + [F(x) for x in emax] + [F(head["minimumNeutronEnergy"])] + [I(x) for x in loca]
    spec = [Rec([S(head["label"], 24), I(head["fileId"])]), Rec([I(head[k]) for k in ("numGroups",)] + [I(nn)] + [I(head[k]) for k in ("maxUpScatterGroups", "maxDownScatterGroups", "maxScatteringOrder", "fileWideChiFlag", "maxScatteringBlocks", "subblockingControl")]), Rec(r2)]
    for recs in nucrecs:
        spec += recs
    return lib, spec, ann


def build_gamiso(p, V, rng):
    return build_isotxs(p, V, rng, kind="gamiso")


def build_pmatrx(p, V, rng):
    nng, ngg, nn = p["nng"], p["ngg"], p["niso"]
    lib = xsLibraries.IsotxsLibrary()
    md = lib.pmatrxMetadata
    head = dict(numberCollapsingSpatialRegions=V.i(0, 3), numGammaGroups=ngg, numNeutronGroups=nng, hasInPlateData=bool(rng.randint(0, 1)), hasDoseConversionFactor=bool(p["dose"]))
    order1 = ("numberCollapsingSpatialRegions", "numGammaGroups", "numNeutronGroups")
    order2 = ("maxScatteringOrder", "maxNumberOfCompositions", "maxMaterials", "maxNumberOfRegions", "maxNumberOfCollapsingRegions", "_dummy1", "_dummy2")
    for k in order2:
        head[k] = V.i(0, 5)
    head["maxScatteringOrder"] = p["maxord"]
    head.update(minimumNeutronEnergy=V.f(), minimumGammaEnergy=V.f())
    for k, v in head.items():
        md[k] = v
    lib.neutronEnergyUpperBounds, lib.gammaEnergyUpperBounds = V.fs(nng), V.fs(ngg)
    spec = [Rec([I(head[k]) for k in order1] + [I(head["hasInPlateData"]), I(nn), I(head["hasDoseConversionFactor"])] + [I(head[k]) for k in order2])]
    spec.append(Rec([F(x) for x in lib.neutronEnergyUpperBounds] + [F(head["minimumNeutronEnergy"])] + [F(x) for x in lib.gammaEnergyUpperBounds] + [F(head["minimumGammaEnergy"])]))
    ann = []
    if p["dose"]:
        lib.neutronDoseConversionFactors, lib.gammaDoseConversionFactors = V.fs(nng), V.fs(ngg)
        spec.append(Rec([F(x) for x in lib.neutronDoseConversionFactors] + [F(x) for x in lib.gammaDoseConversionFactors], data=True))
        ann += [("neutronDoseConversionFactors",), ("gammaDoseConversionFactors",)]
    names = [XS_NUCS[k][0] + rng.choice(["AA", "AB"]) for k in rng.sample(range(len(XS_NUCS)), nn)]
    spec.append(Rec([S(x, 8) for x in names] + [I(1000)] * nn))
    for name in names:
        nuc = xsNuclides.XSNuclide(lib, name)
        lib[name] = nuc
        base = ("nuclides", name)
        m = dict(hasNeutronHeatingAndDamage=bool(rng.randint(0, 1)), maxScatteringOrder=rng.randint(0, p["maxord"]), hasGammaHeating=bool(rng.randint(0, 1)), numberNeutronXS=p["nxs"], collapsingRegionNumber=V.i(0, 3))
        if p["maxord"] >= 3:
            m["maxScatteringOrder"] = p["maxord"]
        for k, v in m.items():
            nuc.pmatrxMetadata[k] = v
        spec.append(Rec([I(m[k]) for k in ("hasNeutronHeatingAndDamage", "maxScatteringOrder", "hasGammaHeating", "numberNeutronXS", "collapsingRegionNumber")]))
        if m["hasNeutronHeatingAndDamage"]:
            nuc.neutronHeating, nuc.neutronDamage = V.fs(nng), V.fs(nng)
            spec.append(Rec([F(x) for x in nuc.neutronHeating] + [F(x) for x in nuc.neutronDamage], data=True))
            ann += [base + ("neutronHeating",), base + ("neutronDamage",)]
        if p["nxs"]:
            nuc.pmatrxMetadata["activationXS"] = [V.fs(nng) for _ in range(p["nxs"])]
            nuc.pmatrxMetadata["activationMT"] = [V.i(1, 200) for _ in range(p["nxs"])]
            nuc.pmatrxMetadata["activationMTU"] = [V.i(1, 200) for _ in range(p["nxs"])]
            for k in range(p["nxs"]):
                spec.append(Rec([F(x) for x in nuc.pmatrxMetadata["activationXS"][k]] + [I(nuc.pmatrxMetadata["activationMT"][k]), I(nuc.pmatrxMetadata["activationMTU"][k])]))
            ann.append(base + ("metadata", "activationXS"))
        if m["hasGammaHeating"]:
            nuc.gammaHeating = V.fs(ngg)
            spec.append(Rec([F(x) for x in nuc.gammaHeating], data=True))
            ann.append(base + ("gammaHeating",))
        for lrd in range(1, m["maxScatteringOrder"] + 1):
            mat = V.fa(ngg, nng)
            if lrd == 1:
                nuc.isotropicProduction = mat
                ann.append(base + ("isotropicProduction",))
            elif lrd == 2:
                nuc.linearAnisotropicProduction = mat
                ann.append(base + ("linearAnisotropicProduction",))
            else:
                nuc.nOrderProductionMatrix[lrd] = mat
                ann.append(base + ("nOrderProductionMatrix", repr(lrd)))
            spec.append(Rec([F(mat[gg, gn]) for gn in range(nng) for gg in range(ngg)], data=True))
    return lib, spec, ann


DL_NUCS = ["U235_7", "PU2397", "U238_7", "PU2417"]


def build_dlayxs(p, V, rng):
    ng, nn, shared = p["ngroup"], p["niso"], p["shared"]
    x = dlayxs.Dlayxs()
    ids = rng.sample(DL_NUCS, nn)
    nfam = 6 if shared else 6 * nn
    label = V.s(p["labelLength"]).ljust(1, "L")
    md = dict(label=label, numEnergyGroups=ng, numFamilies=nfam, dummy=V.i(0, 3), nuclideIDs=np.array(ids), precursorDecayConstants=V.fs(nfam), delayEmissionSpectrum=V.fa(ng, nfam))
    md.update(minEnergy=V.f(), nkfam=np.array([6] * nn), recordsToSkip=np.arange(nn), dummy2=np.array([V.s(4).ljust(1, "d") for _ in range(p["ndummy"])]))
    for k, v in md.items():
        x.metadata[k] = v
    x.neutronEnergyUpperBounds = V.fs(ng)
    spec = [Rec([S(label, len(label))]), Rec([I(ng), I(nn), I(nfam), I(md["dummy"])])]
    r2 = [S(i, 8) for i in ids] + [F(v) for v in md["precursorDecayConstants"]] + [F(md["delayEmissionSpectrum"][j, n]) for n in range(nfam) for j in range(ng)]
    r2 += [F(v) for v in x.neutronEnergyUpperBounds] + [F(md["minEnergy"])] + [I(6)] * nn + [I(k) for k in range(nn)] + [S(v, 4) for v in md["dummy2"]]
    spec.append(Rec(r2))
    ann = []
    for k, i in enumerate(ids):
        nb = nuclideBases.byMcc3Id[i]
        dn = dlayxs.DelayedNeutronData(ng, 6)
        fam = list(range(1, 7)) if shared else list(range(6 * k + 1, 6 * k + 7))
        rng.shuffle(fam)
        x.nuclideFamily[nb] = np.array(fam)
        for ii, f in enumerate(fam):
            dn.precursorDecayConstants[ii] = md["precursorDecayConstants"][f - 1]
            dn.delayEmissionSpectrum[ii, :] = md["delayEmissionSpectrum"][:, f - 1]
        dn.delayNeutronsPerFission = V.fa(6, ng)
        x[nb] = dn
        spec.append(Rec([F(dn.delayNeutronsPerFission[kk, j]) for kk in range(6) for j in range(ng)] + [I(f) for f in fam]))
        ann += [("nuclides", nb.name, a) for a in ("family", "precursorDecayConstants", "delayEmissionSpectrum", "delayNeutronsPerFission")]
    return x, spec, ann


CX_DIFF = ("powerConvMult", "d1Multiplier", "d1Additive", "d2Multiplier", "d2Additive", "d3Multiplier", "d3Additive")  # PC, A1, B1, A2, B2, A3, B3


def build_compxs(p, V, rng):
    ng, nc, nfam, maxord, fw = p["ngroup"], p["ncomp"], p["nfam"], p["maxord"], p["ichi"]
    lib = xsLibraries.CompxsLibrary()
    md = lib.compxsMetadata
    head = dict(numComps=nc, numGroups=ng, fileWideChiFlag=fw, numFissComps=0, maxUpScatterGroups=V.i(0, ng), maxDownScatterGroups=V.i(0, ng), numDelayedFam=nfam, maxScatteringOrder=maxord, reservedFlag1=V.i(0, 3), reservedFlag2=V.i(0, 3))
    for k, v in head.items():
        md[k] = v
    md["minimumNeutronEnergy"] = V.d()
    lib.neutronVelocity, lib.neutronEnergyUpperBounds = V.ds(ng), V.ds(ng)
    nkfam = np.array([rng.randint(0, nfam) for _ in range(nc)])
    md["compFamiliesWithPrecursors"] = nkfam
    md["fissionWattSeconds"], md["captureWattSeconds"] = V.ds(nc), V.ds(nc)
    r2, ann = [], []
    if fw:
        md["fileWideChi"] = V.ds(ng, fw)
        r2 += [D(md["fileWideChi"][j, k]) for k in range(fw) for j in range(ng)]
        ann.append(("metadata", "fileWideChi"))
    r2 += [D(x) for x in lib.neutronVelocity] + [D(x) for x in lib.neutronEnergyUpperBounds] + [D(md["minimumNeutronEnergy"])]
    if nfam:
        md["delayedChi"], md["delayedDecayConstant"] = V.ds(nfam, ng), V.ds(nfam)
        r2 += [D(md["delayedChi"][k, j]) for k in range(nfam) for j in range(ng)] + [D(x) for x in md["delayedDecayConstant"]]
        ann += [("metadata", "delayedChi"), ("metadata", "delayedDecayConstant")]
    r2 += [I(x) for x in nkfam]
    regrecs, nfis = [], 0
    for c in range(nc):
        reg = compxs.CompxsRegion(lib, c)
        rm, mac = reg.metadata, reg.macros
        ichi = rng.choice([0, 1, 2]) if not fw else rng.choice([0, -1])
        ichi = p.get("regionChi", ichi)
        nfis += ichi != 0
        rm["chiFlag"] = ichi
        nup = np.array([rng.randint(0, ng - 1 - g) if rng.random() < 0.5 else 0 for g in range(ng)])
        ndn = np.array([rng.randint(0, g) if rng.random() < 0.8 else 0 for g in range(ng)])
        rm["numUpScatterGroups"], rm["numDownScatterGroups"] = nup, ndn
        r3 = [I(ichi)] + [I(x) for x in nup] + [I(x) for x in ndn]
        base = ("regions", str(c))
        if nkfam[c]:
            rm["numFamI"] = np.array(rng.sample(range(1, nfam + 1), int(nkfam[c])))
            r3 += [I(x) for x in rm["numFamI"]]
            ann.append(base + ("metadata", "numFamI"))
        for k in ("absorption", "total", "removal", "transport", "n2n"):
            mac[k] = V.ds(ng)
            ann.append(base + ("macros", k))
        if ichi > 0:
            mac.fission, mac.nuSigF, mac.chi = V.ds(ng), V.ds(ng), V.ds(ng, ichi)
            ann += [base + ("macros", k) for k in ("fission", "nuSigF", "chi")]
        elif ichi < 0:
            mac.fission, mac.nuSigF = V.ds(ng), V.ds(ng)
        for k in CX_DIFF:
            rm[k] = [V.d() for _ in range(ng)]
            ann.append(base + ("metadata", k))
        mats = []
        for order in range(maxord + 1):
            dense = np.zeros((ng, ng))
            for g in range(ng):
                for r in range(g - ndn[g], g + nup[g] + 1):
                    dense[r, g] = V.d() if rng.random() < 0.85 else 0.0
            dense = dense + 0.0  # a sparse matrix holds no negative zero
            mats.append(dense)
            if order == 0:
                mac.totalScatter = sparse.csc_matrix(dense)
                path = base + ("macros", "totalScatter")
            else:
                mac.higherOrderScatter[order] = sparse.csc_matrix(dense)
                path = base + ("macros", "higherOrderScatter", repr(order))
            if dense.any():
                ann.append(path)
        recs = [Rec(r3)]
        for g in range(ng):
            r4 = [D(mac[k][g]) for k in ("absorption", "total", "removal", "transport")]
            if ichi:
                r4 += [D(mac.fission[g]), D(mac.nuSigF[g])] + ([D(x) for x in mac.chi[g]] if ichi > 0 else [])
            band = lambda mm: [D(mm[r, g]) for r in range(g + nup[g], g - ndn[g] - 1, -1)]  # noqa: E731
            r4 += band(mats[0])
            a1 = len(r4) + 1  # A1 and A2 of the file are perturbed separately (they once shared one container entry: fixed defect F114)
            r4 += [D(rm[k][g]) for k in CX_DIFF]
            if nkfam[c]:
                rm["numPrecursorsProduced", g] = V.ia(int(nkfam[c]), 0, 9)
                r4 += [I(x) for x in rm["numPrecursorsProduced", g]]
            r4.append(D(mac.n2n[g]))
            for order in range(1, maxord + 1):
                r4 += band(mats[order])
            recs.append(Rec(r4, data=not nkfam[c], hold=[a1, a1 + 2], hold_name="direction-multipliers-1-2"))
        regrecs += recs
    md["numFissComps"] = head["numFissComps"] = nfis
    spec = [Rec([I(head[k]) for k in ("numComps", "numGroups", "fileWideChiFlag", "numFissComps", "maxUpScatterGroups", "maxDownScatterGroups", "numDelayedFam", "maxScatteringOrder", "reservedFlag1", "reservedFlag2")]), Rec(r2)]
    spec += regrecs
    spec.append(Rec([D(x) for x in md["fissionWattSeconds"]] + [D(x) for x in md["captureWattSeconds"]], data=True))
    return lib, spec, ann


BUILD = {
    "geodst": build_geodst,
    "dif3d": build_dif3d,
    "nhflux": build_nhflux,
    "labels": build_labels,
    "pwdint": build_pwdint,
    "rtflux": build_rtflux,
    "rzflux": build_rzflux,
    "isotxs": build_isotxs,
    "gamiso": build_gamiso,
    "pmatrx": build_pmatrx,
    "dlayxs": build_dlayxs,
    "compxs": build_compxs,
}


def fmt_of(family, p):
    if family == "nhflux":
        return ("naflux" if p["adjoint"] else "nhflux") + ("-variant" if p["variant"] else "")
    if family == "rtflux":
        return "atflux" if p["adjoint"] else "rtflux"
    return family


# ============================================================================================= the contract on one container
def run_case(family, p, tmp):
    """p: json-able parameters incl. 'profile', 'cseed' and optionally 'probe' (a header feature reported under its own id)."""
    fmt = FMT[fmt_of(family, p)]
    name = fmt.name
    tag = "." + p["probe"] if p.get("probe") else ""
    rng = random.Random("%s/%s" % (family, p["cseed"]))
    V = Vals(rng, p["profile"])
    inp = {"family": family, "format": name, "params": p}
    lenient = p["profile"] == "double"
    try:
        _run_case(family, p, tmp, fmt, name, tag, rng, V, inp, lenient)
    except _ProbeDone:
        pass


class _ProbeDone(Exception):
    """A probe (one header feature under its own id) reports its first violated clause only."""


def _run_case(family, p, tmp, fmt, name, tag, rng, V, inp, lenient):
    def check(cond, vid, what, arg):  # noqa: F811
        if not globals()["check"](cond, vid, what, arg) and tag:
            raise _ProbeDone()
        return cond

    with contextlib.redirect_stdout(io.StringIO()):
        ok, built = attempt(BUILD[family], p, V, rng)
    if not check(ok, "harness.build-error", "the generator itself failed (harness defect)", [inp, built]):
        return
    d, spec, announced = built
    B.case((name, json.dumps(p, sort_keys=True)), sample=inp)
    snap0 = fmt.snap(d)
    f1, f2, f3, a1, a2, fp, fq = (os.path.join(tmp, n) for n in ("f1", "f2", "f3", "a1", "a2", "fp", "fq"))
    wide = []  # values the fixed ASCII widths cannot hold: reported once under ascii.*-width, not per format
    if V.wide_int:
        wide.append("ascii.int-width")
    if V.wide_double:
        wide.append("ascii.double-width")

    # ---- binary
    ok, err = attempt(fmt.wb, d, f1)
    if check(ok, name + ".write-error" + tag, "writeBinary raised on a well-formed container", [inp, err]):
        pay = walk_binary(f1, inp)
        if pay is not None:
            where = first_record_difference(spec, pay)
            check(where is None, name + ".file-content" + tag, "file differs from the record layout of the specification serialised independently", [inp, where])
        ok, d1 = attempt(fmt.rb, f1)
        if check(ok, name + ".read-error" + tag, "readBinary raised on a file armi wrote", [inp, d1]):
            snap1 = fmt.snap(d1)
            lost = [pth for pth in announced if lookup(snap0, pth) is not None and lookup(snap1, pth) is None]
            check(not lost, name + ".optional-record-lost" + tag, "a record announced by the header flags is None/empty after reading", [inp, ["/".join(x) for x in lost]])
            missing = [pth for pth in announced if lookup(snap0, pth) is None]
            check(not missing, "harness.announced-missing", "harness: announced path not in the written container", [inp, missing])
            dd = diff(snap0, snap1, lenient, ignore=tuple(lost))
            check(not dd, name + ".roundtrip" + tag, "data read differ from data written", [inp, dd])
            ok, err = attempt(fmt.wb, d1, f2)
            if check(ok, name + ".write-error" + tag, "writeBinary raised on a container that was read", [inp, err]):
                check(rdb(f1) == rdb(f2), name + ".rewrite-bytes" + tag, "write(read(file)) is not the file, byte for byte", lambda: [inp, first_record_difference(spec, walk_binary(f2, inp))])
            # another well-formed file: same header, every data word perturbed
            pbytes, nwords = patched(spec, rdb(f1)) if pay is not None and first_record_difference(spec, pay) is None else (None, 0)
            if nwords:
                with open(fp, "wb") as f:
                    f.write(pbytes)
                ok, dp = attempt(fmt.rb, fp)
                ok2, err = attempt(fmt.wb, dp, fq) if ok else (False, dp)
                if check(ok and ok2, name + ".patched-rewrite" + tag, "file with perturbed data words cannot be read and written back", [inp, err]):
                    check(rdb(fq) == pbytes, name + ".patched-rewrite" + tag, "write(read(file)) != file after perturbing the data words of the file (a field is dropped or duplicated)", lambda: [inp, _first_byte_difference(spec, pbytes, rdb(fq))])
                hname = next((r.hold_name for r in spec if r.hold), None)
                if hname:
                    pbytes, nwords = patched(spec, rdb(f1), held=True)
                    with open(fp, "wb") as f:
                        f.write(pbytes)
                    ok, dp = attempt(fmt.rb, fp)
                    ok2, err = attempt(fmt.wb, dp, fq) if ok else (False, dp)
                    check(ok and ok2 and rdb(fq) == pbytes, name + ".patched-rewrite." + hname, "write(read(file)) != file after perturbing this field of the file (the field is dropped or duplicated)", lambda: [inp, err if not (ok and ok2) else _first_byte_difference(spec, pbytes, rdb(fq))])
    # ---- ascii
    if fmt.wa is None:
        return
    ok, err = attempt(fmt.wa, d, a1)
    if not ok and wide:
        check(False, wide[0], "ASCII field wider than the fixed width the reader uses", [inp, err])
        return
    if not check(ok, name + ".write-error-ascii" + tag, "writeAscii raised on a well-formed container", [inp, err]):
        return
    expected = "".join(r.ascii() for r in spec)
    with open(a1) as f:
        text = f.read()
    walk_ascii(a1, inp, None if wide else [r.nbytes() for r in spec])
    if not wide:
        check(text == expected, name + ".file-content-ascii" + tag, "ASCII file differs from the specification's record layout serialised independently", lambda: [inp, _first_line_difference(text, expected)])
    ok, dA = attempt(fmt.ra, a1)
    if not ok and wide:
        check(False, wide[0], "ASCII field wider than the fixed width the reader uses: the file armi wrote cannot be read", [inp, dA])
        return
    if not check(ok, name + ".read-error-ascii" + tag, "readAscii raised on a file armi wrote", [inp, dA]):
        return
    snapA = fmt.snap(dA)
    lost = [pth for pth in announced if lookup(snap0, pth) is not None and lookup(snapA, pth) is None]
    check(not lost, name + ".optional-record-lost" + tag, "a record announced by the header flags is None/empty after reading (ASCII)", [inp, ["/".join(x) for x in lost]])
    dd = diff(snap0, snapA, lenient, ignore=tuple(lost))  # ASCII carries 17 digits, but 'f' data live in single precision
    if dd and wide:
        check(False, wide[0], "ASCII field wider than the fixed width the reader uses: data read differ", [inp, dd])
        return
    check(not dd, name + ".roundtrip-ascii" + tag, "data read from the ASCII file differ from data written", [inp, dd])
    ok, err = attempt(fmt.wa, dA, a2)
    if check(ok, name + ".write-error-ascii" + tag, "writeAscii raised on a container that was read", [inp, err]):
        with open(a2) as f:
            check(lenient or f.read() == text, name + ".rewrite-ascii" + tag, "writeAscii(readAscii(file)) is not the file", inp)
    ok, err = attempt(fmt.wb, dA, f3)
    if check(ok, name + ".write-error" + tag, "writeBinary raised on a container read from ASCII", [inp, err]) and os.path.exists(f1):
        check(rdb(f3) == rdb(f1), name + ".ascii-to-binary" + tag, "binary written from the ASCII-read container differs from the binary written from the original", lambda: [inp, first_record_difference(spec, walk_binary(f3, inp))])


def _first_byte_difference(spec, a, b):
    if len(a) != len(b):
        return "length %d != %d" % (len(a), len(b))
    k = next(i for i in range(len(a)) if a[i] != b[i])
    pos = 0
    for n, r in enumerate(spec):
        if pos + 8 + r.nbytes() > k:
            return "record %d, payload offset %d (word %d)" % (n, k - pos - 4, (k - pos - 4) // 4)
        pos += 8 + r.nbytes()
    return "offset %d" % k


def _first_line_difference(a, b):
    la, lb = a.split("\n"), b.split("\n")
    for k in range(max(len(la), len(lb))):
        x, y = (la[k] if k < len(la) else None), (lb[k] if k < len(lb) else None)
        if x != y:
            if x is None or y is None:
                return "record %d only in %s" % (k, "specification" if x is None else "file")
            c = next((i for i in range(min(len(x), len(y))) if x[i] != y[i]), min(len(x), len(y)))
            return "record %d column %d: file %r, specification %r" % (k, c, x[max(0, c - 12) : c + 26], y[max(0, c - 12) : c + 26])
    return None


# ============================================================================================= 1. fixtures
def classify_fixture(fn):
    low = fn.lower()
    if low.endswith((".py", ".pyc", ".rst", ".inp", ".yaml", ".md", ".txt")):
        return None
    table = [(".nhflux.variant", "nhflux-variant"), (".nhflux", "nhflux"), (".isotxs", "isotxs"), (".gamiso", "gamiso"), (".pmatrx", "pmatrx"), (".dlayxs", "dlayxs"), (".geodst", "geodst")]
    table += [(".dif3d", "dif3d"), (".pwdint", "pwdint"), (".rtflux", "rtflux"), (".atflux", "atflux"), (".rzflux", "rzflux"), (".naflux", "naflux")]
    for suffix, fmt in table:
        if low.endswith(suffix):
            return fmt, "b"
    if low in ("labels.binary", "labels.ascii"):
        return "labels", "b" if low.endswith("binary") else "a"
    if low == "compxs.ascii":
        return "compxs", "a"
    if fn.startswith("ISO") and "." not in fn:
        return "isotxs", "b"
    return None


def has_wide(tree):
    """ints of 10 digits / doubles with 3-digit exponents anywhere in a canonical tree."""
    if isinstance(tree, dict):
        return [w for x in tree.values() for w in has_wide(x)]
    if isinstance(tree, list):
        return [w for x in tree for w in has_wide(x)]
    if isinstance(tree, np.ndarray) and tree.dtype.kind in "iuf":
        a = np.abs(tree[np.isfinite(tree)] if tree.dtype.kind == "f" else tree.astype(np.int64))
        if tree.dtype.kind in "iu":
            return ["ascii.int-width"] if np.any(a >= 10**9) else []
        return ["ascii.double-width"] if np.any((a != 0) & ((a < 1e-99) | (a >= 1e100))) else []
    if isinstance(tree, bool) or tree is None or isinstance(tree, str):
        return []
    if isinstance(tree, int):
        return ["ascii.int-width"] if abs(tree) >= 10**9 else []
    if isinstance(tree, float):
        return ["ascii.double-width"] if tree != 0 and not (1e-99 <= abs(tree) < 1e100) else []
    return []


def run_fixture(path, fmtname, enc, tmp):
    fmt = FMT[fmtname]
    relpath = os.path.relpath(path, REPO)
    rel = {"fixture": relpath, "format": fmtname}
    B.case(("fixture", relpath), sample=rel)
    o1, o2, a1, a2 = (os.path.join(tmp, n) for n in ("o1", "o2", "a1", "a2"))
    if enc == "b":
        pay = walk_binary(path, rel)
        ok, d = attempt(fmt.rb, path)
        if not check(ok, fmtname + ".fixture-read-error", "readBinary raised on a repo fixture", [rel, d]):
            return
        ok, err = attempt(fmt.wb, d, o1)
        if not check(ok, fmtname + ".fixture-write-error", "writeBinary raised on what was read from a fixture", [rel, err]):
            return
        pay1 = walk_binary(o1, [rel, "rewritten"])
        only_id = pay is not None and pay1 is not None and len(pay) == len(pay1) and [k for k in range(len(pay)) if pay[k] != pay1[k]] == [0]
        sub = ".file-label" if only_id and fmtname in ("isotxs", "gamiso") else ""
        check(rdb(o1) == rdb(path), fmtname + ".fixture-rewrite-bytes" + sub, "write(read(fixture)) is not the fixture, byte for byte" + (" (only the file identification record differs)" if sub else ""), lambda: [rel, pay[0].decode("latin1"), pay1[0].decode("latin1")] if sub else rel)
        snap0 = fmt.snap(d)
        ok, d2 = attempt(fmt.rb, o1)
        if check(ok, fmtname + ".fixture-reread", "the re-written fixture cannot be read", [rel, d2]):
            s2 = fmt.snap(d2)
            dd = diff(snap0, s2) + diff(s2, snap0)
            check(not dd, fmtname + ".fixture-reread", "read(write(read(fixture))) differs from read(fixture)", [rel, dd])
        wide = has_wide(snap0)
        ok, err = attempt(fmt.wa, d, a1)
        ok2, dA = attempt(fmt.ra, a1) if ok else (False, err)
        if not (ok and ok2):
            check(False, wide[0] if wide else fmtname + ".fixture-ascii", "binary fixture -> ASCII -> read fails" + (" (holds a value wider than the fixed ASCII field)" if wide else ""), [rel, dA])
            return
        walk_ascii(a1, rel, [len(x) for x in pay] if pay is not None else None)
        ok, err = attempt(fmt.wb, dA, o2)
        check(ok and rdb(o2) == (rdb(o1) if sub else rdb(path)), wide[0] if wide else fmtname + ".fixture-ascii", "binary -> ascii -> binary does not reproduce the fixture", [rel, err if not ok else "bytes differ"])
    else:
        ok, d = attempt(fmt.ra, path)
        if not check(ok, fmtname + ".fixture-read-error", "readAscii raised on a repo fixture", [rel, d]):
            return
        ok, err = attempt(fmt.wa, d, a1)
        if not check(ok, fmtname + ".fixture-write-error", "writeAscii raised on what was read from a fixture", [rel, err]):
            return
        with open(a1) as f, open(path) as g:
            check(f.read() == g.read(), fmtname + ".fixture-rewrite-ascii", "writeAscii(readAscii(fixture)) is not the fixture", rel)
        counts = walk_ascii(path, rel)
        ok, err = attempt(fmt.wb, d, o1)
        ok2, dB = attempt(fmt.rb, o1) if ok else (False, err)
        if check(ok and ok2, fmtname + ".fixture-ascii", "ascii fixture -> binary -> read fails", [rel, dB]):
            pay = walk_binary(o1, [rel, "as binary"])
            check(pay is None or counts is None or [len(x) for x in pay] == counts, "frame.ascii-count-mismatch", "binary record lengths differ from the counts of the ASCII fixture", rel)
            dd = diff(fmt.snap(d), fmt.snap(dB)) + diff(fmt.snap(dB), fmt.snap(d))
            check(not dd, fmtname + ".fixture-reread", "ascii fixture -> binary -> read differs", [rel, dd])
            ok, err = attempt(fmt.wa, dB, a2)
            with open(path) as g:
                check(ok and open(a2).read() == g.read(), fmtname + ".fixture-ascii", "ascii -> binary -> ascii does not reproduce the fixture", [rel, err])


def all_fixtures():
    import hashlib

    seen, out, dup, other = {}, [], 0, []
    for root, dirs, files in os.walk(os.path.join(REPO, "armi")):
        dirs[:] = sorted(x for x in dirs if x != "__pycache__")
        for fn in sorted(files):
            if "fixtures" not in root and not (fn.startswith("ISO") or fn.upper().startswith("COMPXS")):
                continue
            c = classify_fixture(fn)
            path = os.path.join(root, fn)
            if c is None:
                if "fixtures" in root and "nuclearDataIO" in root:
                    other.append(os.path.relpath(path, REPO))
                continue
            raw = rdb(path)
            if c[1] == "b" and not (len(raw) >= 8 and 0 < struct.unpack_from("i", raw)[0] <= len(raw) - 8):
                other.append(os.path.relpath(path, REPO))  # e.g. the text placeholder physics/neutronics/tests/ISOXA
                continue
            h = hashlib.sha1(raw).hexdigest()
            if h in seen and not THOROUGH:
                dup += 1
                continue
            seen[h] = path
            out.append((path, c[0], c[1]))
    B.extra["fixtures"] = {"checked": len(out), "identical_copies_skipped_in_quick": dup, "not_cccc": other}
    return out


# ============================================================================================= FIXSRC (function interface, binary only)
def run_fixsrc(p, tmp):
    rng = random.Random("fixsrc/%s" % p["cseed"])
    V = Vals(rng, p["profile"])
    ni, nj, nz, ng = p["shape"]
    arr = V.ds(ni, nj, nz, ng)
    inp = {"family": "fixsrc", "format": "fixsrc", "params": p}
    B.case(("fixsrc", json.dumps(p, sort_keys=True)), sample=inp)
    f1, f2 = os.path.join(tmp, "f1"), os.path.join(tmp, "f2")
    ok, err = attempt(fixsrc.writeBinary, f1, arr.copy())
    if not check(ok, "fixsrc.write-error", "fixsrc.writeBinary raised", [inp, err]):
        return
    spec = [Rec([S("FIXSRC", 24), I(1)]), Rec([I(x) for x in (0, 3, ng, ni, nj, nz, 1, 1, 0, 0, 0, 0, 1)])]
    spec += [Rec([D(arr[i, j, z, g]) for j in range(nj) for i in range(ni)], data=True) for g in range(ng) for z in range(nz)]
    where = first_record_difference(spec, walk_binary(f1, inp))
    check(where is None, "fixsrc.file-content", "FIXSRC file differs from the record layout of the specification", [inp, where])
    ok, back = attempt(fixsrc.readBinary, f1)
    if not check(ok, "fixsrc.read-error", "fixsrc.readBinary raised on a file fixsrc.writeBinary wrote", [inp, back]):
        return
    check(isinstance(back, np.ndarray) and back.shape == arr.shape and bool(np.all(back == arr)), "fixsrc.roundtrip", "source read differs from source written", inp)
    ok, err = attempt(fixsrc.writeBinary, f2, back)
    check(ok and rdb(f1) == rdb(f2), "fixsrc.rewrite-bytes", "write(read(file)) is not the file", [inp, err])


# ============================================================================================= 3. records of arbitrary field sequences
FIELD_KINDS = ("int", "long", "float", "double", "string", "bool", "list-int", "list-float", "list-double", "list-string", "matrix", "dmatrix", "imatrix", "map")


def gen_fields(rng, V, n, ascii_ok):
    out = []
    for _ in range(n):
        k = rng.choice(FIELD_KINDS)
        if k == "long" and ascii_ok:
            k = "int"  # the ASCII record classes have no 8-byte integer
        if k == "int":
            out.append((k, V.i(-500, 500)))
        elif k == "long":
            out.append((k, rng.choice([2**63 - 1, -(2**63), 2**40 + 17, -5, rng.randint(-(10**12), 10**12)])))
        elif k == "float":
            out.append((k, V.f()))
        elif k == "double":
            out.append((k, V.d()))
        elif k == "string":
            w = rng.randint(1, 24)
            out.append((k, V.s(w), w))
        elif k == "bool":
            out.append((k, bool(rng.randint(0, 1))))
        elif k.startswith("list-"):
            m, w = rng.randint(0, 5), rng.randint(1, 9)
            t = k[5:]
            vals = [V.i() if t == "int" else V.f() if t == "float" else V.d() if t == "double" else V.s(w).ljust(1, "q") for _ in range(m)]
            out.append((k, vals, w))
        elif k in ("matrix", "dmatrix", "imatrix"):
            shape = tuple(rng.randint(1, 3) for _ in range(rng.randint(1, 3)))
            vals = [V.f() if k == "matrix" else V.d() if k == "dmatrix" else V.i() for _ in range(int(np.prod(shape)))]
            out.append((k, vals, shape))
        else:
            keys = ["".join(rng.choice("AIJKLMNXZ") + rng.choice("abc") + str(q)) for q in range(rng.randint(1, 4))]
            out.append((k, keys, [V.i() if key[0] in "IJKLMN" else V.f() for key in keys]))
    return out


def expected_fields(fields):
    """Flat typed fields the sequence must put into the record (FORTRAN order for matrices: first index fastest)."""
    out = []
    for f in fields:
        k = f[0]
        if k == "int":
            out.append(I(f[1]))
        elif k == "long":
            out.append(("q", f[1]))
        elif k == "float":
            out.append(F(f[1]))
        elif k == "double":
            out.append(D(f[1]))
        elif k == "string":
            out.append(S(f[1], f[2]))
        elif k == "bool":
            out.append(I(int(f[1])))
        elif k.startswith("list-"):
            t = k[5:]
            out += [I(v) if t == "int" else F(v) if t == "float" else D(v) if t == "double" else S(v, f[2]) for v in f[1]]
        elif k in ("matrix", "dmatrix", "imatrix"):
            out += [(F if k == "matrix" else D if k == "dmatrix" else I)(v) for v in f[1]]
        else:
            out += [(I if key[0] in "IJKLMN" else F)(v) for key, v in zip(f[1], f[2])]
    return out


def apply_fields(rec, fields, writing):
    """Drive the real record object through the field sequence; returns the values it hands back."""
    got = []
    for f in fields:
        k = f[0]
        if k in ("int", "long", "float", "double", "bool"):
            fn = {"int": rec.rwInt, "long": getattr(rec, "rwLong", None), "float": rec.rwFloat, "double": rec.rwDouble, "bool": rec.rwBool}[k]
            got.append(fn(f[1] if writing else None))
        elif k == "string":
            got.append(rec.rwString(f[1] if writing else None, f[2]))
        elif k.startswith("list-"):
            got.append(list(rec.rwList(f[1] if writing else None, k[5:], len(f[1]), f[2])))
        elif k in ("matrix", "dmatrix", "imatrix"):
            shape = f[2]  # file order: first listed dimension is the outermost loop
            arr = np.array(f[1], dtype=float if k != "imatrix" else np.int64).reshape(shape).transpose() if writing else None
            fn = {"matrix": rec.rwMatrix, "dmatrix": rec.rwDoubleMatrix, "imatrix": rec.rwIntMatrix}[k]
            res = fn(arr.copy() if writing else None, *shape)
            got.append(list(np.asarray(res).transpose().reshape(-1)))
        else:
            res = rec.rwImplicitlyTypedMap(f[1], dict(zip(f[1], f[2])) if writing else {key: None for key in f[1]})
            got.append([res[key] for key in f[1]])
    return got


def wanted_values(fields):
    out = []
    for f in fields:
        k = f[0]
        if k.startswith("list-") or k in ("matrix", "dmatrix", "imatrix"):
            out.append(list(f[1]))
        elif k == "map":
            out.append(list(f[2]))
        else:
            out.append(f[1])
    return out


def values_equal(a, b, lenient):
    return len(a) == len(b) and diff(canon({"v": a}), canon({"v": b}), lenient) == [] and (lenient or diff(canon({"v": b}), canon({"v": a})) == [])


def run_records(index, profile, tmp):
    rng = random.Random("records/%s/%d" % (B.seed, index))
    V = Vals(rng, profile)
    for enc in ("binary", "ascii"):
        recs = [gen_fields(rng, V, rng.randint(0, 7), enc == "ascii") for _ in range(rng.randint(1, 4))]
        inp = {"family": "records", "encoding": enc, "index": index, "profile": profile, "records": [[list(map(str, f[:1])) + [repr(f[1])[:40]] for f in r] for r in recs]}
        B.case(("records", enc, index, profile), sample=inp if index < 1 else None)
        path = os.path.join(tmp, "rec")
        W, R, mode = (cccc.BinaryRecordWriter, cccc.BinaryRecordReader, "b") if enc == "binary" else (cccc.AsciiRecordWriter, cccc.AsciiRecordReader, "")
        wide = ["ascii.int-width"] * V.wide_int + ["ascii.double-width"] * V.wide_double if enc == "ascii" else []

        def write():
            with open(path, "w" + mode) as f:
                for r in recs:
                    with W(f) as rec:
                        apply_fields(rec, r, True)

        def read():
            out = []
            with open(path, "r" + mode) as f:
                for r in recs:
                    with R(f) as rec:
                        out.append(apply_fields(rec, r, False))
            return out

        ok, err = attempt(write)
        if not check(ok, "record.write-error." + enc, "a record writer raised on a sequence of well-formed fields", [inp, err]):
            continue
        spec = [Rec(expected_fields(r)) for r in recs]
        if enc == "binary":
            pay = walk_binary(path, inp)
            where = first_record_difference(spec, pay)
            check(where is None, "record.payload", "record payload is not the concatenation of the fields' encodings, or the count is not its length", [inp, where])
        else:
            walk_ascii(path, inp, None if wide else [r.nbytes() for r in spec])
        ok, got = attempt(read)
        if not ok or not all(values_equal(wanted_values(r), g, profile == "double" and enc == "binary") for r, g in zip(recs, got)):
            check(False, wide[0] if wide else "record.readback." + enc, "fields read back differ from the fields written (or the reader raised)", [inp, got if not ok else "values differ"])


def ascii_width_probes(tmp):
    """Minimal forms of the fixed-width clause of the ASCII encoding: one value, then a sentinel, must read back."""
    path = os.path.join(tmp, "w")
    for kind, vals in (("int", [999999999, -999999999, 10**9, -(10**9), 2**31 - 1, -(2**31)]), ("double", [9.9e99, 1e-99, 1e100, 1e-100, 5e-324, 1.7976931348623157e308])):
        for v in vals:
            B.case(("ascii-width", kind, repr(v)))

            def rw():
                with open(path, "w") as f:
                    with cccc.AsciiRecordWriter(f) as rec:
                        (rec.rwInt if kind == "int" else rec.rwDouble)(v)
                        rec.rwInt(7)
                with open(path) as f:
                    with cccc.AsciiRecordReader(f) as rec:
                        return (rec.rwInt if kind == "int" else rec.rwDouble)(None), rec.rwInt(None)

            ok, got = attempt(rw)
            check(ok and tuple(got) == (v, 7), "ascii.%s-width" % kind, "AsciiRecordWriter writes a field wider than the fixed width AsciiRecordReader reads (value needs 10 digits / a 3-digit exponent)", [kind, v, got if not ok else list(got)])


# ============================================================================================= case enumeration
def cases(family):
    """Yield json-able parameter dicts (without cseed); deterministic given the seed."""
    rng = random.Random("enum/%s/%s" % (family, B.seed))
    rep = 48 if THOROUGH else 3
    prof = lambda k: PROFILES[k % 4]  # noqa: E731
    if family == "geodst":
        k = 0
        for _ in range(rep):
            for igom in sorted(GEODST_DIMS):
                for nrass in (0, 1):
                    for nbs in (0, 2):
                        yield dict(IGOM=igom, NRASS=nrass, NBS=nbs, profile="ordinary")
                for pr in PROFILES[1:] if not THOROUGH else PROFILES:
                    k += 1
                    yield dict(IGOM=igom, NRASS=k % 2, NBS=(k // 2) % 3, profile=pr)
        yield dict(IGOM=14, NRASS=0, NBS=0, NREG=32767, maxRegion=32767, profile="ordinary")
        yield dict(IGOM=10, NRASS=1, NBS=0, NREG=40000, maxRegion=40000, profile="ordinary", probe="region-number-int16")
    elif family == "dif3d":
        for r in range(rep * 4):
            for a in range(4):
                for b in range(4):
                    yield dict(NUMORP=a, NCMRZS=b, profile=prof(r))
    elif family == "nhflux":
        n = 0
        for variant in (False, True):
            for adjoint in (False, True):
                for k in range(700 if THOROUGH else 30):
                    lo = k == 0
                    hi = k == 1
                    pick = lambda a, b: a if lo else b if hi else rng.randint(a, b)  # noqa: E731
                    p = dict(variant=variant, adjoint=adjoint, ndim=pick(1, 3), ngroup=pick(1, 4), nintk=pick(1, 3), nintxy=pick(1, 3), nSurf=rng.choice([2, 4, 6]), nMom=pick(1, 3), nMoms=0, nscoef=pick(1, 3), nExt=pick(0, 3))
                    if variant:
                        p.update(nMoms=pick(0, 2), npcbdy=pick(0, 3), npcsym=pick(0, 2), npcsec=pick(0, 2), iwnhfl=k % 2 if k > 1 else int(hi))
                    n += 1
                    p["profile"] = prof(n) if k > 1 else "ordinary"
                    yield p
    elif family == "labels":
        k = 0
        for _ in range(rep):
            for n1 in (0, 2):
                for n2 in (0, 3):
                    for ns in (0, 1, 2, 3):
                        for na in (0, 2):
                            k += 1
                            yield dict(nhts1=n1, nhts2=n2, nsets=ns, nalias=na, profile="ordinary" if k % 3 else prof(k // 3))
    elif family == "pwdint":
        k = 0
        for _ in range(rep):
            for ni in (1, 2, 3):
                for nj in (1, 2, 3, 4, 5):
                    for nk in (1, 2, 3) if THOROUGH else (1, 2):
                        for nb in (1, 2, 3):
                            k += 1
                            yield dict(NINTI=ni, NINTJ=nj, NINTK=nk, NBLOK=nb, profile="ordinary" if k % 4 else prof(k // 4))
    elif family == "rtflux":
        k = 0
        for _ in range(rep * 2):
            for nj in (1, 2, 3, 4, 5):
                for nb in (1, 2, 3):
                    for adjoint in (False, True):
                        k += 1
                        yield dict(NDIM=2 + k % 2, NGROUP=rng.randint(1, 4), NINTI=rng.randint(1, 3), NINTJ=nj, NINTK=rng.randint(1, 3), NBLOK=nb, adjoint=adjoint, profile="ordinary" if k % 3 else prof(k // 3))
    elif family == "rzflux":
        k = 0
        for _ in range(rep):
            for nz in range(1, 7):
                for ng in range(1, 5):
                    for nb in (1, 2, 3):
                        k += 1
                        yield dict(NZONE=nz, NGROUP=ng, NBLOK=nb, profile="ordinary" if k % 4 else prof(k // 4))
    elif family in ("isotxs", "gamiso"):
        k = 0
        for _ in range(rep * 3):
            for ng in (1, 2, 3, 4):
                for nn in (1, 2, 3):
                    for fw in (0, 1):
                        k += 1
                        yield dict(ngroup=ng, niso=nn, ichist=fw, nsblok=1, nscmax=k % 5, profile="ordinary" if k % 3 else prof(k // 3))
        for nsb in (2, 3):
            for ng in (2, 3, 4):
                yield dict(ngroup=ng, niso=1, ichist=0, nsblok=nsb, nscmax=1, idsct=[100], profile="ordinary", probe="subblocked-scatter")
        for ng in (1, 3):
            yield dict(ngroup=ng, niso=1, ichist=0, nsblok=1, nscmax=1, idsct=[100], lord=2, profile="ordinary", probe="multi-order-block")
        yield dict(ngroup=1, niso=1, ichist=0, nsblok=1, nscmax=0, label="ISOTXS  user    id", profile="ordinary", probe="file-label")
    elif family == "pmatrx":
        k = 0
        for _ in range(rep * 2):
            for nng in (1, 2, 3, 4):
                for nn in (1, 2, 3):
                    for dose in (0, 1):
                        k += 1
                        yield dict(nng=nng, ngg=1 + (k * 7) % 4, niso=nn, dose=dose, maxord=k % 3, nxs=0, profile="ordinary" if k % 3 else prof(k // 3))
        for nxs in (1, 2):
            yield dict(nng=2, ngg=2, niso=1, dose=0, maxord=1, nxs=nxs, profile="ordinary", probe="activation-xs")
        yield dict(nng=2, ngg=1, niso=1, dose=0, maxord=3, nxs=0, profile="ordinary", probe="production-order-3")
    elif family == "dlayxs":
        k = 0
        for _ in range(rep):
            for ng in (1, 2, 3, 4):
                for nn in (1, 2, 3):
                    for shared in (False, True):
                        k += 1
                        yield dict(ngroup=ng, niso=nn, shared=shared, labelLength=(1, 8, 32, 40)[k % 4], ndummy=(0, 2, 1)[k % 3], profile="ordinary" if k % 3 else prof(k // 3))
    elif family == "compxs":
        k = 0
        for _ in range(rep):
            for ng in (1, 2, 3, 4):
                for nc in (1, 2, 3):
                    for maxord in (0, 1, 2):
                        k += 1
                        yield dict(ngroup=ng, ncomp=nc, maxord=maxord, nfam=0, ichi=0, profile="ordinary" if k % 3 else prof(k // 3))
        for ichi in (1, 2):
            yield dict(ngroup=2, ncomp=1, maxord=0, nfam=0, ichi=ichi, profile="ordinary", probe="filewide-chi")
        for nfam in (1, 2):
            yield dict(ngroup=2, ncomp=2, maxord=0, nfam=nfam, ichi=0, regionChi=1, profile="ordinary", probe="delayed-families")
    elif family == "fixsrc":
        k = 0
        shapes = list(itertools.product((1, 2, 3), repeat=4))
        for shape in shapes * 4 if THOROUGH else shapes[:: max(1, len(shapes) // 24)]:
            k += 1
            yield dict(shape=list(shape), profile="ordinary" if k % 3 else "extreme")


FAMILIES = ("geodst", "dif3d", "nhflux", "labels", "pwdint", "rtflux", "rzflux", "fixsrc", "isotxs", "gamiso", "pmatrx", "dlayxs", "compxs")


def main(tmp):
    if B.replay is not None:
        r = B.replay
        while isinstance(r, list) and r and isinstance(r[0], (list, dict)):
            r = r[0]  # a recorded violation input: [case, detail]
        if isinstance(r, list):
            ascii_width_probes(tmp)
        elif r.get("family") == "fixsrc":
            run_fixsrc(r["params"], tmp)
        elif r.get("family") == "records":
            run_records(r["index"], r["profile"], tmp)
        elif "fixture" in r:
            c = classify_fixture(os.path.basename(r["fixture"]))
            run_fixture(os.path.join(REPO, r["fixture"]), c[0], c[1], tmp)
        else:
            run_case(r["family"], r["params"], tmp)
        return
    ascii_width_probes(tmp)
    for path, fmtname, enc in all_fixtures():
        run_fixture(path, fmtname, enc, tmp)
    per_family = {}
    for family in FAMILIES:
        n0 = B.evaluations
        for k, p in enumerate(cases(family)):
            p["cseed"] = "%d-%d" % (B.seed, k)
            if p.get("NBLOK", 1) > p.get("NINTJ", p.get("NZONE", 9)):
                skip("NBLOK > number of rows to block (more blocks than rows: CCCC-IV gives JL > JU+1)")
                continue
            (run_fixsrc(p, tmp) if family == "fixsrc" else run_case(family, p, tmp))
        per_family[family] = B.evaluations - n0
    n0 = B.evaluations
    for k in range(12000 if THOROUGH else 400):
        run_records(k, PROFILES[k % 4], tmp)
    per_family["records"] = B.evaluations - n0
    B.extra["generated_per_family"] = per_family


with tempfile.TemporaryDirectory(prefix="c09_") as TMP:
    cwd = os.getcwd()
    STATS["tmp"] = TMP
    sys.stdout.flush()
    fd_saved, fd_null = os.dup(1), os.open(os.devnull, os.O_WRONLY)
    os.dup2(fd_null, 1)  # armi's log handler keeps the real stdout: silence it at the descriptor, the JSON line comes last
    try:
        with contextlib.redirect_stdout(io.StringIO()):
            main(TMP)
    finally:
        sys.stdout.flush()
        os.dup2(fd_saved, 1)
        os.close(fd_saved)
        os.close(fd_null)
        os.chdir(cwd)

B.extra["formats_covered"] = sorted(FMT) + ["fixsrc"]
B.extra["outside_quantifier"] = {
    "LABELS control-rod (6D-8D) and burnup-dependent (9D-11D) records": "armi raises NotImplementedError for both directions; numControlRodBanks = numBurnupDependentIsotopes = maxBurnup* = 0 in every case",
    "ISOTXS/GAMISO file-wide chi matrix (ICHIST>1, 3D record) and nuclide chi matrix (ICHI>1, 6D record)": "NotImplementedError in armi for both directions; ICHIST, ICHI in {0,1}",
    "RTFLUX/ATFLUX NDIM=1 (2D record)": "NotImplementedError in armi; NDIM in {2,3}",
    "NHFLUX VARIANT iwnhfl=2": "rejected by armi (ValueError); iwnhfl in {0,1}",
    "PMATRX in-plate composition data": "never read or written by armi (flag carried as a header bit only)",
    "FIXSRC ASCII": "no ASCII interface; binary only",
    "GEODST IGOM 4,5": "not defined by CCCC-IV",
    "values": "NaN/Inf, strings longer than the field, with trailing blanks or non-ASCII characters, reals outside single precision in 'f' fields are not well-formed",
}
B.extra["armi_cannot_write"] = []  # every format has a writer
B.extra["armi_cannot_read"] = ["fixsrc: readBinary exists but raises on every non-empty file (violation fixsrc.read-error); the written file is checked against the specification layout instead"]
B.extra["violation_counts"] = VCOUNT
STATS.pop("tmp", None)
B.extra.update(STATS)
if B.replay is not None:
    print(json.dumps({"result": "fail" if B.violations else "pass", "violations": B.violations}, default=str))
else:
    B.finish(exhaustive=False)
