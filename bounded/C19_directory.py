"""C19 bounded tier, EXHAUSTIVE part: nuclide directory, elements, burn chain, material compositions.

The quantifier of C19 is a finite shipped table, so every clause below enumerates its domain completely:

1. every nuclide of ``nuclideBases.instances`` x every identifier it has (name, label, database name, MC2-2 id,
   MC2-3 ids ENDF/B-VII.0 / VII.1 (+ the ``byMcc3Id`` alias), MCNP id, AAAZZZS id): the lookup returns that very object;
   no identifier value is shared by two nuclides; the index dictionaries hold nothing but those identifiers (+ the two
   documented Am-242 aliases); name / label / database name / MCNP id / AAAZZZS id are decoded by the decoders written
   below from the DOCUMENTED formats (not from the armi encoders) and compared with ``n.z, n.a, n.state``.
2. every element: symbol against a periodic table typed in here; byZ / bySymbol / byName agree; every nuclide is listed
   by the element with its atomic number; natural abundances sum to one or the element has none.
3. burn chain: ``burn-chain.yaml`` imposed the default way (``Settings()["burnChainFileName"]`` -> ``imposeBurnChain``),
   every product exists, branching fractions in [0, 1], the loaded objects are what the file says (independent YAML read),
   crafted entries with unknown keys / reaction types are refused.
4. every material class resolvable in ``armi.materials``: instantiates (``cls()`` - what armi does when a blueprint
   gives no material modifications), names only known nuclides, mass fractions in [0, 1] summing to 1 within 1e-6.
   (Density / expansion over temperature: C19_materials.py, bounded.)

Skipped (outside the wording, counted in the output):
* decode clause for the 8 fictitious nuclides (DUMP1/2, LFP35..41, LREGN: no atomic / mass number to encode);
* composition-sum clause for the abstract bases of material.py (Material, Fluid, SimpleSolid, FuelMaterial), _Mixture,
  Void and Custom (composition is by design empty until the user supplies it).

Documented special cases the decoders know (each is stated in the armi docs, not inferred from the encoders):
* ``AM242`` names the metastable Am-242m (alias), ``AM242G`` the ground state; MCNP 95242 = Am-242m, 95642 = Am-242 ground;
* natural ("elemental") nuclides: name = label = symbol, A = 0, MCNP id Z000, no AAAZZZS id;
* labels are <symbol><A mod 10^(4-len(symbol)) without its last digit><one character for (A mod 10) + 10*state>, so for
  two-letter symbols the label carries A modulo 100 (compared modulo 100; uniqueness of labels is checked separately);
* MCNP metastable ids: A' = A + 300 + 100*m.  (A', Z) alone is ambiguous between (A, m) and (A-100, m+1); the decoder
  takes the physically possible reading: the smallest m whose A does not exceed min(299, 3*Z).
"""
import glob
import importlib
import inspect
import io
import math
import os
import re
import sys

sys.path.insert(0, os.path.dirname(os.path.abspath(__file__)))
from common import Bounded, armi_ready

armi_ready()
from ruamel.yaml import YAML

from armi import materials, runLog
from armi.materials import material as materialModule
from armi.nucDirectory import elements, nucDir, nuclideBases as nb, transmutations
from armi.settings import caseSettings

runLog.setVerbosity("error")

B = Bounded(
    rule="complete enumeration of the shipped tables: every nuclide x every identifier it has; every element; every burn-chain "
    "entry; every material class resolvable in armi.materials; distinct = (clause, object)",
    bound="none (finite domains enumerated completely); same in quick and thorough",
    label="exhaustive",
)
ALL_IDS = set()
COUNTS = {}


def bad(vid, what, **inp):
    """Record a violation; the input carries its id so that --replay can re-evaluate it."""
    COUNTS[vid] = COUNTS.get(vid, 0) + 1
    if vid not in ALL_IDS:
        ALL_IDS.add(vid)
        B.violation(vid, what, dict(inp, id=vid))
    return False


def ok(cond, vid, what, **inp):
    return True if cond else bad(vid, what, **inp)


# ----------------------------------------------------------------------------------------------------------------------
# independent knowledge: the periodic table and the documented identifier formats
# ----------------------------------------------------------------------------------------------------------------------
PERIODIC = (
    "H HE LI BE B C N O F NE NA MG AL SI P S CL AR K CA SC TI V CR MN FE CO NI CU ZN GA GE AS SE BR KR RB SR Y ZR NB MO TC RU RH "
    "PD AG CD IN SN SB TE I XE CS BA LA CE PR ND PM SM EU GD TB DY HO ER TM YB LU HF TA W RE OS IR PT AU HG TL PB BI PO AT RN FR "
    "RA AC TH PA U NP PU AM CM BK CF ES FM MD NO LR RF DB SG BH HS MT DS RG CN NH FL MC LV TS OG"
).split()
assert len(PERIODIC) == 118
Z_OF = {s: i + 1 for i, s in enumerate(PERIODIC)}
LABEL_ALPHABET = "0123456789" "ABCDEFGHIJ" "KLMNOPQRST" "UVWXYZabcd"  # (A mod 10) + 10*state, documented in _createLabel
META = {"": 0, "M": 1, "M2": 2, "M3": 3}


def decode_name(name):
    """<SYMBOL><A><'' | M | M2 | M3>; 'AM242' = Am-242m, 'AM242G' = Am-242 ground; bare symbol = natural element."""
    if name == "AM242":
        return (95, 242, 1)
    if name == "AM242G":
        return (95, 242, 0)
    m = re.fullmatch(r"([A-Z]{1,2})(\d+)(M[23]?)?", name)
    if m:
        sym, a, meta = m.group(1), int(m.group(2)), m.group(3) or ""
        return (Z_OF.get(sym), a, META[meta])
    if name in Z_OF:
        return (Z_OF[name], 0, 0)
    return None


def decode_dbname(dbName):
    """'n' + name.capitalize()"""
    if not dbName.startswith("n") or len(dbName) < 2 or not dbName[1].isupper() or dbName[2:] != dbName[2:].lower():
        return None
    return dbName[1:].upper()


def decode_label(label):
    """-> (z, A modulo, modulus, state)"""
    if label in Z_OF:
        return (Z_OF[label], 0, 1, 0)  # natural element
    m = re.fullmatch(r"([A-Z]{1,2})(\d{1,2})([0-9A-Za-d])", label)
    if not m:
        return None
    sym, digits, last = m.groups()
    if len(digits) > 3 - len(sym):
        return None
    idx = LABEL_ALPHABET.index(last)
    return (Z_OF.get(sym), int(digits) * 10 + idx % 10, 10 ** (4 - len(sym)), idx // 10)


def decode_mcnp(mid):
    """ZZZAAA; metastable A' = A + 300 + 100 m; Am-242 swap; Z000 natural."""
    if not re.fullmatch(r"\d{4,6}", mid):
        return None
    z, r = divmod(int(mid), 1000)
    if mid == "95242":
        return (95, 242, 1)
    if mid == "95642":
        return (95, 242, 0)
    if r == 0:
        return (z, 0, 0)
    if r < 300:
        return (z, r, 0)
    for m in (1, 2, 3, 4):
        a = r - 300 - 100 * m
        if 0 < a <= min(299, 3 * z):
            return (z, a, m)
    return None


def decode_aaazzzs(s):
    if not re.fullmatch(r"\d{5,7}", s):
        return None
    return (int(s[-4:-1]), int(s[:-4]), int(s[-1]))


# ----------------------------------------------------------------------------------------------------------------------
# 1. lookups, sharing, decoding
# ----------------------------------------------------------------------------------------------------------------------
def identifier(n, getter):
    """The identifier value a nuclide HAS, or None (getter missing / not implemented / empty)."""
    f = getattr(n, getter, None)
    if f is None:
        return None
    try:
        v = f() if callable(f) else f
    except NotImplementedError:
        return None
    if v is None or v == "" or v is NotImplementedError:
        return None
    return v


# index name -> (getter, documented alias keys)
INDICES = [
    ("byName", "name", {"AM242": "AM242M"}),
    ("byLabel", "label", {}),
    ("byDBName", "getDatabaseName", {"nAm242": "AM242M"}),
    ("byMcc2Id", "getMcc2Id", {}),
    ("byMcc3IdEndfbVII0", "getMcc3IdEndfbVII0", {}),
    ("byMcc3IdEndfbVII1", "getMcc3IdEndfbVII1", {}),
    ("byMcc3Id", "getMcc3Id", {}),
    ("byMcnpId", "getMcnpId", {}),
    ("byAAAZZZSId", "getAAAZZZSId", {}),
]


def clause_nuclides():
    insts = list(nb.instances)
    ok(len({id(n) for n in insts}) == len(insts), "nuclide.instances-duplicate", "an object is listed twice in instances", n=len(insts))
    kinds = {}
    for n in insts:
        kinds[type(n).__name__] = kinds.get(type(n).__name__, 0) + 1
    B.extra["nuclides"] = len(insts)
    B.extra["nuclide_kinds"] = kinds
    idcount = {}
    for dname, getter, aliases in INDICES:
        D = getattr(nb, dname, None)
        if D is None:
            B.extra.setdefault("indices_absent_in_this_version", []).append(dname)
            continue
        if dname == "byMcc3Id" and D is getattr(nb, "byMcc3IdEndfbVII1", None):
            B.extra["byMcc3Id"] = "same dictionary object as byMcc3IdEndfbVII1 (checked there)"
            ok(all(identifier(n, "getMcc3Id") == identifier(n, "getMcc3IdEndfbVII1") for n in insts), "nuclide.mcc3-alias", "getMcc3Id() differs from getMcc3IdEndfbVII1()")
            continue
        owners = {}
        for n in insts:
            v = identifier(n, getter)
            if v is None:
                continue
            B.case((dname, n.name), {"index": dname, "nuclide": n.name, "id": v})
            owners.setdefault(v, []).append(n)
            ok(D.get(v) is n, "nuclide.lookup.%s.%s" % (dname, n.name), "%s[%r] is not the nuclide that has this identifier" % (dname, v),
               index=dname, key=v, nuclide=n.name, got=getattr(D.get(v), "name", None))
        idcount[dname] = len(owners)
        for v, ns in owners.items():
            ok(len(ns) == 1, "nuclide.id-shared.%s.%s" % (dname, v), "two nuclides share one identifier", index=dname, key=v, nuclides=[x.name for x in ns])
        # the dictionary holds exactly those identifiers (+ documented aliases): sizes agree, so lookups are injective
        extra = {k: getattr(D[k], "name", None) for k in D if k not in owners}
        ok(extra == aliases, "nuclide.index-extra-key.%s" % dname, "index holds keys that are nobody's identifier (beyond the documented Am-242 alias)",
           index=dname, extra=dict(list(extra.items())[:10]), documented=aliases)
        # sizes: #keys = #nuclides having the identifier (+ aliases); a shortfall explained by shared identifiers is reported by id-shared only
        nOwning = sum(len(ns) for ns in owners.values())
        ok(len(D) == len(owners) + len(aliases), "nuclide.index-size.%s" % dname, "dictionary size differs from the number of distinct identifiers",
           index=dname, size=len(D), nuclidesWithId=nOwning, distinctIds=len(owners), aliases=len(aliases))
        for k, v in D.items():
            if not any(v is n for n in owners.get(identifier(v, getter), [])) and k not in aliases:
                bad("nuclide.index-orphan.%s" % dname, "index value is not a listed nuclide", index=dname, key=k)
                break
    B.extra["identifiers_per_index"] = idcount
    # helper lookups built on the indices
    for n in insts:
        B.case(("nucDir", n.name), nontrivial=False)
        try:
            got = nucDir.getNuclide(n.name)
        except Exception as e:  # noqa
            got = repr(e)
        ok(got is n, "nuclide.lookup.nucDir.%s" % n.name, "nucDir.getNuclide(name) is not that nuclide", nuclide=n.name)
        try:
            got = nb.fromName(n.name)
        except Exception as e:  # noqa
            got = repr(e)
        ok(got is n, "nuclide.lookup.fromName.%s" % n.name, "nuclideBases.fromName(name) (used for unpickling) is not that nuclide", nuclide=n.name, got=str(got)[:80])
    # ---- decoding
    skipped = 0
    for n in insts:
        if isinstance(n, (nb.DummyNuclideBase, nb.LumpNuclideBase)):
            skipped += 1
            continue
        truth = (n.z, n.a, n.state)
        B.case(("decode", n.name), {"decode": n.name, "z,a,state": truth})
        natural = isinstance(n, nb.NaturalNuclideBase)
        ok(decode_name(n.name) == truth, "nuclide.decode.name.%s" % n.name, "name does not decode to (z, a, state)", nuclide=n.name, decoded=decode_name(n.name), truth=truth)
        dbn = n.getDatabaseName()
        ok(decode_dbname(dbn) == n.name, "nuclide.decode.dbname.%s" % n.name, "database name is not 'n' + Capitalised name", nuclide=n.name, dbName=dbn)
        d = decode_label(n.label)
        ok(d is not None and d[0] == n.z and d[1] == n.a % d[2] and d[3] == n.state and len(n.label) <= 4, "nuclide.decode.label.%s" % n.name,
           "label does not decode to (z, a mod 10^k, state)", nuclide=n.name, label=n.label, decoded=d, truth=truth)
        mid = identifier(n, "getMcnpId")
        ok(mid is not None and decode_mcnp(mid) == truth, "nuclide.decode.mcnp.%s" % n.name, "MCNP id does not decode to (z, a, state)", nuclide=n.name, mcnp=mid,
           decoded=decode_mcnp(mid) if mid else None, truth=truth)
        aid = identifier(n, "getAAAZZZSId")
        if natural:
            ok(aid is None and truth[1:] == (0, 0), "nuclide.decode.aaazzzs.%s" % n.name, "natural element with an AAAZZZS id / nonzero A", nuclide=n.name, aaazzzs=aid)
        else:
            ok(aid is not None and decode_aaazzzs(aid) == truth, "nuclide.decode.aaazzzs.%s" % n.name, "AAAZZZS id does not decode to (z, a, state)", nuclide=n.name,
               aaazzzs=aid, decoded=decode_aaazzzs(aid) if aid else None, truth=truth)
        ok(natural or (n.a >= n.z >= 1 and 0 <= n.state <= 3), "nuclide.range.%s" % n.name, "A < Z or state outside 0..3", nuclide=n.name, truth=truth)
    B.extra["decode_skipped_fictitious"] = skipped


# ----------------------------------------------------------------------------------------------------------------------
# 2. elements
# ----------------------------------------------------------------------------------------------------------------------
ABUND_TOL = 1e-9  # the contract's tolerance
ABUND_ROUNDING = 1e-7  # single-precision storage of the tabulated abundances (e.g. 9.9985001e-01): reported once, aggregated


def clause_elements():
    B.extra["elements"] = len(elements.byZ)
    ok(len(elements.byZ) == len(elements.bySymbol) == len(elements.byName), "element.index-size", "element indices differ in size",
       sizes=[len(elements.byZ), len(elements.bySymbol), len(elements.byName)])
    rounding = []
    for z, e in sorted(elements.byZ.items()):
        B.case(("element", z), {"element": e.symbol, "z": z})
        ok(e.z == z and elements.bySymbol.get(e.symbol) is e and elements.byName.get(e.name) is e, "element.lookup.%s" % e.symbol,
           "element not retrievable by z / symbol / name", z=z, symbol=e.symbol, name=e.name)
        if z <= 118:
            ok(PERIODIC[z - 1] == e.symbol, "element.symbol.%d" % z, "symbol is not the periodic table's", z=z, symbol=e.symbol, expected=PERIODIC[z - 1])
        ok(len({id(n) for n in e.nuclides}) == len(e.nuclides), "element.nuclide-twice.%s" % e.symbol, "a nuclide is listed twice", element=e.symbol)
        for n in e.nuclides:
            ok(n.z == z and n.element is e and any(n is m for m in nb.instances), "element.foreign-nuclide.%s.%s" % (e.symbol, n.name),
               "element lists a nuclide with another atomic number / element / not in the directory", element=e.symbol, nuclide=n.name, nz=n.z)
        ab = [n.abundance for n in e.nuclides]
        ok(all(isinstance(a, float) and 0.0 <= a <= 1.0 for a in ab), "element.abundance-range.%s" % e.symbol, "abundance outside [0, 1]", element=e.symbol)
        s = math.fsum(ab)
        if any(a > 0 for a in ab):
            dev = abs(s - 1.0)
            if dev > ABUND_ROUNDING:
                bad("element.abundance-sum.%s" % e.symbol, "natural abundances do not sum to one", element=e.symbol, sum=s,
                    abundances={n.name: n.abundance for n in e.nuclides if n.abundance > 0})
            elif dev > ABUND_TOL:
                rounding.append((e.symbol, s))
        natural = [n for n in e.nuclides if isinstance(n, nb.NaturalNuclideBase)]
        ok(len(natural) <= 1 and all(n.abundance == 0.0 for n in natural), "element.natural-nuclide.%s" % e.symbol,
           "more than one elemental nuclide / elemental nuclide carries an abundance", element=e.symbol)
    if rounding:
        worst = max(rounding, key=lambda t: abs(t[1] - 1))
        bad("element.abundance-sum.rounding", "natural abundances sum to one only within single-precision rounding (1e-9 < |sum-1| <= 1e-7)",
            elements=[s for s, _ in rounding], count=len(rounding), worst=worst)
    for n in nb.instances:
        B.case(("membership", n.name), nontrivial=False)
        e = elements.byZ.get(n.z)
        ok(e is not None and e is n.element and any(n is m for m in e.nuclides), "element.membership.%s" % n.name,
           "nuclide is not listed by the element with its atomic number", nuclide=n.name, z=n.z)
        if isinstance(n, (nb.NuclideBase, nb.NaturalNuclideBase)) and e is not None:
            ok(n.name.startswith(e.symbol) and n.label.startswith(e.symbol), "element.symbol-prefix.%s" % n.name, "name / label does not start with the element symbol",
               nuclide=n.name, label=n.label, symbol=e.symbol)


# ----------------------------------------------------------------------------------------------------------------------
# 3. burn chain
# ----------------------------------------------------------------------------------------------------------------------
def refuses(n, entry):
    saved = (n.trans, n.decays, n.nuSF)
    try:
        n._processBurnData(entry)
        return False
    except Exception:  # noqa
        return True
    finally:
        n.trans, n.decays, n.nuSF = saved


def clause_burnchain():
    cs = caseSettings.Settings()
    path = cs["burnChainFileName"]
    B.extra["burn_chain_file"] = os.path.relpath(path, os.path.dirname(os.path.dirname(nb.__file__)))
    if not nb.burnChainImposed:
        with open(path) as stream:
            nb.imposeBurnChain(stream)  # exactly armi's default (Case._initBurnChain / bootstrapArmiTestEnv)
    ok(nb.burnChainImposed, "burnchain.not-imposed", "imposeBurnChain did not mark the chain imposed")
    y = YAML(typ="safe")
    with open(path) as stream:
        data = y.load(stream)
    nEntries = 0
    sums = {"decay_sum_gt_1": {}, "reaction_sum_ne_1": {}}
    for parent, entries in data.items():
        n = nb.byName.get(parent)
        if not ok(n is not None, "burnchain.unknown-parent.%s" % parent, "burn-chain parent is not in the directory", parent=parent):
            continue
        fileT = [e["transmutation"] for e in entries if "transmutation" in e]
        fileD = [e["decay"] for e in entries if "decay" in e]
        other = [k for e in entries for k in e if k not in ("transmutation", "decay", "nuSF")]
        ok(not other, "burnchain.unknown-key.%s" % parent, "file entry with an unknown key was accepted", parent=parent, keys=other)
        loaded = [(t.type, tuple(t.productNuclides), t.branch) for t in n.trans] + [(d.type, tuple(d.productNuclides), d.branch) for d in n.decays]
        infile = [(t["type"], tuple(t["products"]), t.get("branch", 1.0)) for t in fileT + fileD]
        ok(loaded == infile and all(t.parent is n for t in n.trans + n.decays), "burnchain.not-as-file.%s" % parent, "loaded transmutations / decays differ from the file's",
           parent=parent, loaded=loaded[:4], file=infile[:4])
        for x in n.trans + n.decays:
            nEntries += 1
            kind = "decay" if isinstance(x, transmutations.DecayMode) else "transmutation"
            B.case(("burn", parent, nEntries), {"parent": parent, "kind": kind, "type": x.type, "products": list(x.productNuclides), "branch": x.branch})
            ok(len(x.productNuclides) >= 1, "burnchain.no-product.%s" % parent, "reaction without a product", parent=parent, type=x.type)
            for p in x.productNuclides:
                ok(p in nb.byName, "burnchain.unknown-product.%s.%s" % (parent, p), "product named in the burn chain is not in the directory", parent=parent, type=x.type, product=p)
            ok(x.productParticle is None or x.productParticle in nb.byName, "burnchain.unknown-particle.%s" % parent, "outgoing particle not in the directory", parent=parent,
               particle=x.productParticle)
            ok(isinstance(x.branch, (int, float)) and math.isfinite(x.branch) and 0.0 <= x.branch <= 1.0, "burnchain.branch-range.%s.%s" % (parent, x.type),
               "branching fraction outside [0, 1]", parent=parent, type=x.type, branch=x.branch)
            ok(x.type in (transmutations.DECAY_MODES if kind == "decay" else transmutations.TRANSMUTATION_TYPES), "burnchain.unknown-type.%s" % parent, "unknown reaction type",
               parent=parent, type=x.type)
            if kind == "decay":
                ok(x.halfLifeInSeconds > 0 and math.isfinite(x.decay) and x.decay >= 0, "burnchain.decay-constant.%s" % parent, "non-positive half life / bad decay constant",
                   parent=parent, halflife=x.halfLifeInSeconds)
        # informational (not in the property statement; transmutations.py says "branches must never sum up to anything other than 1.0")
        ds = math.fsum(d.branch for d in n.decays)
        if ds > 1 + 1e-9:
            sums["decay_sum_gt_1"][parent] = ds
        per = {}
        for t in n.trans:
            per[t.type] = per.get(t.type, 0.0) + t.branch
        for k, v in per.items():
            if abs(v - 1) > 1e-9:
                sums["reaction_sum_ne_1"]["%s.%s" % (parent, k)] = v
    B.extra["burn_chain_parents"] = len(data)
    B.extra["burn_chain_reactions"] = nEntries
    B.extra["burn_chain_branch_sums_info"] = {k: {"count": len(v), "max": max(v.values()) if v else None} for k, v in sums.items()}
    # nuclides absent from the file carry nothing
    for n in nb.instances:
        if n.name not in data and not (n.name == "AM242M" and "AM242" in data):
            ok(not n.trans and not n.decays, "burnchain.stray.%s" % n.name, "nuclide absent from the file has transmutations / decays", nuclide=n.name)
    # the loader refuses what it cannot interpret (crafted entries on a nuclide without burn data; state restored)
    victim = next(n for n in nb.instances if isinstance(n, nb.NuclideBase) and not n.trans and not n.decays)
    good = {"type": "bmd", "products": ["HE4"], "branch": 0.5}
    crafted = {
        "unknown-key": [{"decays": dict(good)}],
        "two-keys": [{"decay": dict(good), "transmutation": {"type": "n2n", "products": ["HE4"], "branch": 1.0}}],
        "unknown-decay-type": [{"decay": dict(good, type="gamma")}],
        "unknown-transmutation-type": [{"transmutation": dict(good, type="bmd")}],
        "no-products": [{"decay": {"type": "bmd", "branch": 1.0}}],
    }
    for name, entry in crafted.items():
        B.case(("crafted", name), {"crafted": name})
        ok(refuses(victim, entry), "burnchain.accepts-%s" % name, "_processBurnData accepted a malformed entry", entry=entry, nuclide=victim.name)
    ok(not refuses(victim, [{"decay": dict(good)}, {"nuSF": 2.0}]), "burnchain.refuses-wellformed", "_processBurnData refused a well-formed entry", nuclide=victim.name)
    ok(not victim.trans and not victim.decays, "burnchain.victim-not-restored", "test nuclide not restored", nuclide=victim.name)


# ----------------------------------------------------------------------------------------------------------------------
# 4. material classes: instantiation and composition
# ----------------------------------------------------------------------------------------------------------------------
EMPTY_BY_DESIGN = {"Material", "Fluid", "SimpleSolid", "FuelMaterial", "_Mixture", "Void", "Custom"}
MASSFRAC_TOL = 1e-6 + 1e-12  # data precision (6 decimals) + float noise of the summation


def material_classes():
    """All Material subclasses the way armi resolves them (namespace armi.materials), cross-checked by a walk over the package."""
    resolved = {}
    for cls in materials.iterAllMaterialClassesInNamespace(materials):
        resolved[cls.__name__] = cls
    pkgdir = os.path.dirname(materials.__file__)
    for f in sorted(glob.glob(os.path.join(pkgdir, "*.py"))):
        modname = os.path.splitext(os.path.basename(f))[0]
        if modname == "__init__" or "test" in modname:
            continue
        mod = importlib.import_module("armi.materials." + modname)
        for name, obj in vars(mod).items():
            if inspect.isclass(obj) and issubclass(obj, materialModule.Material) and obj.__module__ == mod.__name__:
                ok(resolved.get(obj.__name__) is obj, "material.not-resolvable.%s" % obj.__name__, "class defined in the package is not what the namespace resolves",
                   cls=obj.__name__, module=modname)
    for name, cls in sorted(resolved.items()):
        try:
            got = materials.resolveMaterialClassByName(name)
        except Exception as e:  # noqa
            got = repr(e)
        ok(got is cls, "material.not-resolvable.%s" % name, "resolveMaterialClassByName(name) is not the class", cls=name)
    return [resolved[k] for k in sorted(resolved)]


def clause_materials():
    classes = material_classes()
    B.extra["material_classes"] = len(classes)
    skipped = []
    for cls in classes:
        name = cls.__name__
        B.case(("material", name), {"material": name})
        try:
            m = cls()
        except Exception as e:  # noqa
            bad("material.instantiate.%s" % name, "material class cannot be instantiated", cls=name, error=repr(e)[:200])
            continue
        mf = dict(m.massFrac)
        unknown = [k for k in mf if k not in nb.byName]
        ok(not unknown, "material.unknown-nuclide.%s" % name, "mass fraction keyed by an unknown nuclide", cls=name, unknown=unknown)
        okv = all(isinstance(v, (int, float)) and math.isfinite(v) and 0.0 <= v <= 1.0 for v in mf.values())
        ok(okv, "material.massfrac-range.%s" % name, "mass fraction outside [0, 1]", cls=name, massFrac=mf)
        if not mf and name in EMPTY_BY_DESIGN:
            skipped.append(name)
            continue
        s = math.fsum(mf.values())
        ok(abs(s - 1.0) <= MASSFRAC_TOL, "material.massfrac-sum.%s" % name, "mass fractions do not sum to one within 1e-6" if mf else "library material without any composition",
           cls=name, sum=s, massFrac=mf)
        # a second instance has the same composition: class-level state is not consumed by instantiation, and the
        # composition of an instance is its own - editing the first instance IN PLACE must not reach the second
        try:
            for k in list(m.massFrac):
                m.massFrac[k] *= 0.125
        except Exception:  # noqa
            pass
        try:
            ok(dict(cls().massFrac) == mf, "material.instantiate-unstable.%s" % name,
               "two instances differ in composition (the first was edited in place before the second was made)", cls=name)
        except Exception as e:  # noqa
            bad("material.instantiate.%s" % name, "second instantiation failed", cls=name, error=repr(e)[:200])
    B.extra["materials_empty_by_design_skipped"] = skipped


CLAUSES = [("nuclides", clause_nuclides), ("elements", clause_elements), ("burnchain", clause_burnchain), ("materials", clause_materials)]


def main():
    real = sys.stdout
    sys.stdout = io.StringIO()  # armi chatters on stdout; the JSON line must be the last one
    times = {}
    import time

    try:
        for name, fn in CLAUSES:
            t0 = time.time()
            fn()
            times[name] = round(time.time() - t0, 2)
    finally:
        sys.stdout = real
    if B.replay is not None:
        vid = B.replay.get("id") if isinstance(B.replay, dict) else None
        print(__import__("json").dumps({"result": "unsupported" if vid is None else ("fail" if vid in ALL_IDS else "pass"), "id": vid}))
        return
    B.extra["clause_seconds"] = times
    B.extra["violation_ids_total"] = len(ALL_IDS)
    B.extra["violation_counts"] = dict(sorted(COUNTS.items())[:200])  # every id that fired (the list above is capped at 20)
    B.finish(exhaustive=True)


main()
