"""C01 bounded tier: the reactor model tree stays a well-formed tree under edit histories; traversals = naive walk.

Executable contract evaluated after EVERY real call of seeded / enumerated edit sequences on four kinds of trees
(generic composites, blocks of components, assemblies of blocks, the smallest test core):

* wf.*      well-formedness, by a naive walk over ``_children`` / ``parent`` of every object created in the scenario
            (at most one parent; a parent lists each child exactly once and is that child's parent; no cycle; an object
            taken out has ``parent is None`` and ``spatialLocator.grid is None``).
* view.*    the abstract effect of each mutator ([P] rows of DESIGN "C01", here executable): the child lists / parents of
            ALL objects after the call equal those of a list model (add = append, insert = list.insert incl. clamping,
            remove, removeAll, setChildren, sort = ordered permutation); everything else is framed.
* trav.*    every traversal query against the naive walk of the child lists (each once, in child order, raising exactly
            where armi documents): iterChildren/getChildren (deep x generationNum 0..4 x predicate none/flags/type/lambda,
            includeMaterials), iterChildrenWithFlags, iterChildrenOfType, iterComponents, getAncestor,
            getAncestorAndDistance, getAncestorWithFlags, __contains__, index, __len__/__iter__/__getitem__.
* copy.*    copy.deepcopy / pickle round trip of a subtree: equal shape, no shared node / parameter collection / grid /
            locator / material, internally re-linked (children -> new parent, grid.armiObject -> new owner, locators ->
            new grid, material -> new component), root detached, original untouched.  Suffix ``.stale-multilocation`` when the
            copied tree holds a component with several locations that was moved to another parent (its detached
            MultiIndexLocation still shares the location objects of the former parent's grid): one failure class of its own;
            the scenario "move fuel from b1 to b2, copy the assembly" is always run.
* misuse sequences under their own ids (the statement quantifies over ANY sequence; these end a sequence):
            wf.add-while-attached.<add|insert|setChildren>  (DESIGN 5 F1: object still has another parent)
            wf.remove-nonchild                               (DESIGN 5 F2: remove of a non-child)
            wf.add-own-ancestor                              (add of self / an ancestor: a cycle, no longer a tree)
            wf.append-no-parent                              (Composite.append/extend list the child without linking it)
  contract there: the call is refused or not, but the tree is well formed afterwards.

``--replay '<input>'`` re-runs one reported input ({"world","build","mode","ops"}).
"""
import sys, os
sys.path.insert(0, os.path.dirname(os.path.abspath(__file__)))
import contextlib
import copy
import io
import json
import pickle
import random
import tempfile
import time

from common import Bounded

_TMP = tempfile.TemporaryDirectory(prefix="c01_")  # armi creates ./logs on import: keep that out of /verif
os.chdir(_TMP.name)
from common import armi_ready  # noqa: E402

armi_ready()
from armi import runLog, utils  # noqa: E402
from armi.reactor import assemblies, blocks, composites, grids, parameters  # noqa: E402
from armi.reactor.components import Circle, Component, DerivedShape, Hexagon  # noqa: E402
from armi.reactor.cores import Core  # noqa: E402
from armi.reactor.excoreStructure import ExcoreStructure  # noqa: E402
from armi.reactor.flags import Flags  # noqa: E402
from armi.reactor.reactors import Reactor  # noqa: E402

runLog.setVerbosity("error")
import logging  # noqa: E402

logging.disable(logging.ERROR)  # refused edits are logged as errors by armi: thousands of lines
_REAL_STDOUT = sys.stdout
sys.stdout = io.StringIO()  # armi logs refusals to stdout; the last line of the real stdout must be the JSON record

B = Bounded(
    "seeded edit sequences (every real call followed by the whole contract) over 4 tree kinds x 5 modes (well-formed, and four "
    "API-misuse endings), operations add/insert(any index)/remove/removeAll/setChildren/replace/re-order/move/sort/deepcopy/"
    "pickle/place + Block, Assembly, Core, SpentFuelPool specific add/insert/remove/reestablishBlockOrder/removeAssembly; plus "
    "the enumerated insert-index sweep (every index -(n+2)..n+2 for n<=4 children on Composite, HexBlock, HexAssembly), the "
    "multi-location move + copy scenario, and "
    "every sequence of <= 3 (thorough 4) primitive edits on a 2-parent / 5-node generic tree; distinct = distinct "
    "(tree kind, build, mode, operation-history prefix)",
    "sequence length <= 6 quick / <= 10 thorough; generic trees <= 3 levels x <= 4 children; blocks <= 8 components; assemblies "
    "<= 4 blocks; smallest test core <= 4 assemblies; generationNum 0..4 x deep F/T x predicates {none, Flags exact/not incl. "
    "lists and None, type name, lambda}; <= 2 (thorough 3) copies per sequence + a trailing deepcopy and pickle; seeded "
    "sequences quick 300/150/150/120 + 4x6 misuse per tree kind, thorough 4000/2000/2000/1600 + 4x40",
)
THOROUGH = B.thorough()
MAXLEVEL, MAXCH = 3, 4
LMAX = 10 if THOROUGH else 6
MAXCOPIES = 3 if THOROUGH else 2
COUNTS = {}
RAISED = {}
COVER = {"ops": {}, "trav_combos": set(), "skipped_type_predicate": 0, "nodes_max": 0}
T0 = time.time()
C0 = time.thread_time()  # budgets in CPU seconds of this thread (independent of machine load)
BUDGET = 1050 if THOROUGH else 75


def report(vid, what, inp):
    COUNTS[vid] = COUNTS.get(vid, 0) + 1
    if COUNTS[vid] <= 2:
        B.violation(vid, what, inp)


# ------------------------------------------------------------------------------------------------ generic node class
def _genDefs():
    d = parameters.ParameterDefinitionCollection()
    with d.createBuilder() as pb:
        pb.defParam("type", units=utils.units.UNITLESS, description="type name of a generic composite")
    return d


class Gen(composites.Composite):
    """A plain Composite that also has the ``type`` parameter (plain Composite cannot answer getType())."""

    pDefs = _genDefs()


# ------------------------------------------------------------------------------------------------ naive oracles
def kids(o):
    return list(o.__dict__.get("_children", ()))


def ids(seq):
    return [id(x) for x in seq]


def spec_iter(o, deep, g, chk):
    """Objects a naive walk of the child lists yields (the order armi documents: children, then each child's walk)."""
    if deep:
        out = [c for c in kids(o) if chk(c)]
        for c in kids(o):
            out += spec_iter(c, True, g, chk)
        return out
    if g < 1:
        return []
    level = [o]
    for _ in range(g):
        level = [c for x in level for c in kids(x)]
    return [c for c in level if chk(c)]


def spec_nodes(o):
    out = [o]
    for c in kids(o):
        out += spec_nodes(c)
    return out


def spec_components(o, chk):
    if isinstance(o, Component):
        return [o] if chk(o) else []
    out = []
    for c in kids(o):
        out += spec_components(c, chk)
    return out


def naive_flags(o, spec, exact):
    if spec is None:
        return not exact
    if isinstance(spec, (list, tuple)):
        return any(naive_flags(o, s, exact) for s in spec)
    f = o.p.flags
    v = 0 if f is None else f._value
    if v == 0:
        return False
    return v == spec._value if exact else (v & spec._value) == spec._value


_NOTYPE = object()


def naive_type(o):
    try:
        return o.p.type
    except Exception:  # Reactor, Core, ExcoreStructure have no type parameter
        return _NOTYPE


def rank(o):
    if isinstance(o, Component):
        return 0
    if isinstance(o, blocks.Block):
        return 1
    if isinstance(o, assemblies.Assembly):
        return 2
    if isinstance(o, (Core, ExcoreStructure)):
        return 3
    if isinstance(o, Reactor):
        return 4
    return None


def depth(o):
    d = 0
    while o.parent is not None and d < 50:
        o = o.parent
        d += 1
    return d


def height(o):
    return 0 if not kids(o) else 1 + max(height(c) for c in kids(o))


def root_of(o):
    n = 0
    while o.parent is not None and n < 50:
        o = o.parent
        n += 1
    return o


FLAG_SPECS = [Flags.FUEL, Flags.CLAD, Flags.INNER | Flags.FUEL, Flags.DUCT, Flags.CONTROL, [Flags.FUEL, Flags.CLAD],
              [Flags.BOND, Flags.INNER | Flags.FUEL], Flags.PLENUM, None, Flags.FUEL | Flags.DEPLETABLE, Flags.IGNITER | Flags.FUEL]
TYPE_NAMES = ["fuel", "clad", "inner fuel", "duct", "coolant", "nosuch", "igniter fuel", "plenum", "control"]
LAMBDAS = [("name-even", lambda o: len(o.name) % 2 == 0), ("has-children", lambda o: len(o) > 0),
           ("not-component", lambda o: not isinstance(o, Component))]


def spec_str(s):
    return str(s) if not isinstance(s, list) else "[" + ",".join(str(x) for x in s) + "]"


# ------------------------------------------------------------------------------------------------ world
class World:
    def __init__(self, kind, build, mode):
        self.kind, self.build, self.mode = kind, build, mode
        self.U, self.pos, self.taken, self.ops, self.ncopies, self.tick = [], {}, set(), [], 0, 0

    def reg(self, o):
        if id(o) in self.pos:
            return
        self.pos[id(o)] = len(self.U)
        self.U.append(o)
        for c in kids(o):
            self.reg(c)

    def close(self):
        n = -1
        while n != len(self.U):
            n = len(self.U)
            for p in list(self.U):
                for c in kids(p):
                    self.reg(c)
                if p.parent is not None:
                    self.reg(p.parent)
        COVER["nodes_max"] = max(COVER["nodes_max"], len(self.U))

    def lab(self, o):
        if o is None:
            return None
        return "%s:%s:%s" % (self.pos.get(id(o), "?"), type(o).__name__, getattr(o, "name", "?"))

    def labs(self, seq):
        return [self.lab(x) for x in seq]

    def inp(self, **kw):
        d = {"world": self.kind, "build": self.build, "mode": self.mode, "ops": list(self.ops)}
        d.update(kw)
        return d

    def snapshot(self):
        par = [None if o.parent is None else self.pos.get(id(o.parent), -1) for o in self.U]
        ch = [[self.pos.get(id(c), -1) for c in kids(o)] for o in self.U]
        return par, ch


# ------------------------------------------------------------------------------------------------ builders
GEN_TYPES = [("fuel", None), ("inner fuel", None), ("control", None), ("clad", None), ("duct", None), ("thing one", None),
             ("fuel", Flags.FUEL | Flags.DEPLETABLE), ("shield", Flags.SHIELD | Flags.RADIAL)]


def build_generic(W, rng):
    cnt = [0]

    def leaf():
        cnt[0] += 1
        if rng.random() < 0.4:
            nm = rng.choice(["fuel", "clad", "bond", "liner"])
            return Circle(nm, "HT9", 25.0, 25.0, od=0.5 + 0.1 * (cnt[0] % 7), id=0.0, mult=1.0)
        g = Gen("g%d" % cnt[0])
        typ, fl = rng.choice(GEN_TYPES)
        g.setType(typ, fl)
        return g

    def mk(level, forceContainer=False):
        if level >= MAXLEVEL or (not forceContainer and level >= 1 and rng.random() < 0.3):
            return leaf()
        cnt[0] += 1
        g = Gen("g%d" % cnt[0])
        typ, fl = rng.choice(GEN_TYPES)
        g.setType(typ, fl)
        if rng.random() < 0.45:
            g.spatialGrid = grids.CartesianGrid.fromRectangle(1.0, 1.0, armiObject=g)
        for k in range(rng.randint(0 if level else 1, MAXCH - 1)):
            c = mk(level + 1)
            g.add(c)
            if g.spatialGrid is not None and rng.random() < 0.8:
                c.moveTo(g.spatialGrid[k, rng.randint(-1, 1), 0])
        return g

    for o in (mk(0, True), mk(0, True), mk(2, True), mk(MAXLEVEL - 1), leaf(), leaf()):
        W.reg(o)


def mk_block(name, rng, typ="fuel", small=False):
    b = blocks.HexBlock(name, height=10.0 + rng.randint(0, 3))
    b.setType(typ)
    comps = [Circle("fuel", "UZr", 25.0, 500.0, od=0.76, id=0.0, mult=3.0), Circle("clad", "HT9", 25.0, 450.0, od=1.0, id=0.8, mult=3.0),
             Hexagon("duct", "HT9", 25.0, 400.0, op=5.0, ip=4.6, mult=1.0)]
    if not small and rng.random() < 0.35:
        comps.append(DerivedShape("coolant", "Sodium", 25.0, 400.0))
    if small:
        comps = comps[: rng.randint(1, 3)]
    for c in comps:
        b.add(c)
    if rng.random() < 0.6:
        b.spatialGrid = grids.HexGrid.fromPitch(1.1, armiObject=b)
        for c in b:
            if c.name in ("fuel", "clad"):
                c.spatialLocator = b.spatialGrid[[(0, 0, 0), (1, 0, 0), (0, 1, 0)]]
            else:
                c.spatialLocator = grids.CoordinateLocation(0.0, 0.0, 0.0, b.spatialGrid)
    return b


def spare_components():
    return [Circle("liner", "HT9", 25.0, 430.0, od=0.8, id=0.78, mult=3.0), Circle("bond", "Sodium", 25.0, 430.0, od=0.78, id=0.76, mult=3.0),
            Hexagon("intercoolant", "Sodium", 25.0, 400.0, op=5.4, ip=5.0, mult=1.0)]


def build_block(W, rng):
    for o in [mk_block("blkA", rng), mk_block("blkB", rng, typ="plenum", small=True)] + spare_components():
        W.reg(o)


def mk_assembly(num, rng, nblocks):
    a = assemblies.HexAssembly(rng.choice(["igniter fuel", "fuel", "control"]), assemNum=num)
    a.spatialGrid = grids.AxialGrid.fromNCells(nblocks)
    a.spatialGrid.armiObject = a
    for k in range(nblocks):
        a.add(mk_block("b%d_%d" % (num, k), rng, typ=rng.choice(["fuel", "plenum", "grid plate"]), small=True))
    return a


def build_assembly(W, rng):
    objs = [mk_assembly(1, rng, rng.randint(1, 3)), mk_assembly(2, rng, rng.randint(0, 2)), mk_block("spareA", rng, small=True),
            mk_block("spareB", rng, typ="plenum", small=True)] + spare_components()[:1]
    for o in objs:
        W.reg(o)


_BASE = {}


def base_reactor():
    if "r" not in _BASE:
        from armi.reactor.tests.test_reactors import loadTestReactor

        with contextlib.redirect_stdout(io.StringIO()):
            _o, r = loadTestReactor(inputFileName="smallestTestReactor/armiRunSmallest.yaml")
        runLog.setVerbosity("error")
        _BASE["r"] = r
    return _BASE["r"]


def build_core(W, rng):
    random.seed(W.build)  # Assembly.makeUnique draws from the global generator
    r = copy.deepcopy(base_reactor())
    r.core._trackAssems = rng.random() < 0.5
    W.reg(r)
    for _ in range(2):
        a = copy.deepcopy(r.core[0])
        a.makeUnique()
        W.reg(a)
    W.reg(copy.deepcopy(r.core[0][0]))
    W.reg(copy.deepcopy(r.core[0][0][1]))


def build_mini(W, rng):
    """P[a, b], Q[c], spare s, spare container t - the enumerated tier's tree."""
    def g(n, t):
        x = Gen(n)
        x.setType(t)
        return x

    P, Q = g("P", "fuel"), g("Q", "control")
    P.spatialGrid = grids.CartesianGrid.fromRectangle(1.0, 1.0, armiObject=P)
    a, b, c, s, t = g("a", "fuel"), g("b", "clad"), g("c", "inner fuel"), g("s", "duct"), g("t", "fuel")
    P.add(a)
    P.add(b)
    Q.add(c)
    a.moveTo(P.spatialGrid[1, 0, 0])
    b.moveTo(P.spatialGrid[0, 0, 0])
    for o in (P, Q, s, t):
        W.reg(o)


def build_milmove(W, rng):
    """An assembly of two blocks with pin grids; fuel and clad of the first block sit on several locations of its grid."""
    a = assemblies.HexAssembly("fuel", assemNum=1)
    a.spatialGrid = grids.AxialGrid.fromNCells(2)
    a.spatialGrid.armiObject = a
    b1, b2 = blocks.HexBlock("b1", 10.0), blocks.HexBlock("b2", 10.0)
    for b in (b1, b2):
        b.setType("fuel")
        b.spatialGrid = grids.HexGrid.fromPitch(1.0, armiObject=b)
    fuel = Circle("fuel", "UZr", 25.0, 500.0, od=0.8, id=0.0, mult=2.0)
    clad = Circle("clad", "HT9", 25.0, 500.0, od=1.0, id=0.8, mult=2.0)
    b1.add(fuel)
    b1.add(clad)
    fuel.spatialLocator = b1.spatialGrid[[(0, 0, 0), (1, 0, 0)]]
    clad.spatialLocator = b1.spatialGrid[[(0, 0, 0), (1, 0, 0)]]
    a.add(b1)
    a.add(b2)
    W.reg(a)  # 0 assembly, 1 b1, 2 fuel, 3 clad, 4 b2


def multilocation_move():
    """Move a several-location component to the sibling block, then copy the assembly both ways (always run: the random
    sequences reach this only now and then)."""
    for how in (["deepcopy", 0], ["pickle", 0, pickle.HIGHEST_PROTOCOL]):
        W = new_world("milmove", 0, "wellformed")
        for op in (["remove", 1, 2, False], ["add", 4, 2], how):
            if not apply_op(W, op):
                break


BUILDERS = {"milmove": build_milmove, "generic": build_generic, "block": build_block, "assembly": build_assembly, "core": build_core, "mini": build_mini}


# ------------------------------------------------------------------------------------------------ contract: well-formedness
def wf_violations(W):
    U, out, listed = W.U, [], {}
    for p in U:
        seen = {}
        for c in kids(p):
            seen[id(c)] = seen.get(id(c), 0) + 1
            listed.setdefault(id(c), []).append(p)
            if c.parent is not p:
                out.append(("child-parent", "%s lists %s whose parent is %s" % (W.lab(p), W.lab(c), W.lab(c.parent))))
        for k, n in seen.items():
            if n > 1:
                out.append(("child-listed-twice", "%s lists %s %d times" % (W.lab(p), W.lab(U[W.pos[k]]) if k in W.pos else "?", n)))
    for c in U:
        L = listed.get(id(c), [])
        if len({id(p) for p in L}) > 1:
            out.append(("two-parents", "%s is listed by %s" % (W.lab(c), W.labs(L))))
        if c.parent is not None and not any(p is c.parent for p in L):
            out.append(("parent-not-listing", "%s has parent %s which does not list it" % (W.lab(c), W.lab(c.parent))))
        a, n = c, 0
        while a is not None and n <= len(U) + 1:
            a = a.parent
            n += 1
        if a is not None:
            out.append(("cycle", "%s is its own ancestor" % W.lab(c)))
    for i in sorted(W.taken):
        o = U[i]
        if o.parent is not None:
            out.append(("removed-parent", "%s was taken out but has parent %s" % (W.lab(o), W.lab(o.parent))))
        loc = o.spatialLocator
        if loc is not None and loc.grid is not None:
            out.append(("removed-location", "%s was taken out but its locator is still attached to a grid" % W.lab(o)))
    return out


# ------------------------------------------------------------------------------------------------ contract: traversals
def cmp_seq(W, got, exp, vid, what, at):
    if ids(got) == ids(exp):
        return
    sub = ".order" if sorted(ids(got)) == sorted(ids(exp)) else ".objects"
    report(vid + sub, what, W.inp(at=at, got=W.labs(got), expected=W.labs(exp)))


def call(fn):
    try:
        return fn(), None
    except Exception as e:  # noqa: BLE001
        return None, e


def check_traversals(W, n):
    W.tick += 1
    t = W.tick
    nl = W.lab(n)
    sub = spec_nodes(n)[1:]
    typed = all(naive_type(x) is not _NOTYPE for x in sub)
    fs, ex = FLAG_SPECS[t % len(FLAG_SPECS)], bool((t // len(FLAG_SPECS)) % 2)
    tn = TYPE_NAMES[t % len(TYPE_NAMES)]
    ln, lf = LAMBDAS[t % len(LAMBDAS)]
    preds = [("none", None, lambda o: True),
             ("flags:%s:%s" % (spec_str(fs), ex), lambda o: o.hasFlags(fs, ex), lambda o: naive_flags(o, fs, ex)),
             ("lambda:" + ln, lf, lf)]
    if typed:
        preds.append(("type:" + tn, lambda o: o.getType() == tn, lambda o: naive_type(o) == tn))
    else:
        COVER["skipped_type_predicate"] += 1
    for deep in (False, True):
        for g in range(0, 5):
            for pname, real, naive in preds:
                COVER["trav_combos"].add((deep, g, pname.split(":")[0]))
                at = {"node": nl, "deep": deep, "generationNum": g, "predicate": pname}
                got, e = call(lambda: list(n.iterChildren(deep=deep, generationNum=g, predicate=real)))
                got2, e2 = call(lambda: n.getChildren(deep=deep, generationNum=g, predicate=real))
                if deep and g > 1:
                    if not isinstance(e, RuntimeError) or not isinstance(e2, RuntimeError):
                        report("trav.iterChildren.no-raise", "deep with generationNum > 1 must raise RuntimeError", W.inp(at=at))
                    continue
                if e is not None or e2 is not None:
                    report("trav.iterChildren.raised", "traversal raised %r" % (e or e2), W.inp(at=at))
                    continue
                exp = spec_iter(n, deep, g, naive)
                cmp_seq(W, got, exp, "trav.iterChildren", "iterChildren differs from the naive walk", at)
                cmp_seq(W, got2, exp, "trav.getChildren", "getChildren differs from the naive walk", at)
            if not (deep and g > 1):
                gotm, e = call(lambda: n.getChildren(deep=deep, generationNum=g, includeMaterials=True))
                expm = []
                for c in spec_iter(n, deep, g, lambda o: True):
                    expm.append(c)
                    if getattr(c, "material", None) is not None:
                        expm.append(c.material)
                if e is not None:
                    report("trav.getChildren.materials.raised", "raised %r" % e, W.inp(at={"node": nl, "deep": deep, "generationNum": g}))
                elif ids(gotm) != ids(expm):
                    report("trav.getChildren.materials", "includeMaterials differs from walk + materials",
                           W.inp(at={"node": nl, "deep": deep, "generationNum": g}, got=[str(x) for x in gotm], expected=[str(x) for x in expm]))
    ks = kids(n)
    # plain container protocol
    got, e = call(lambda: (list(n), len(n), [n[i] for i in range(len(ks))], n.getChildren()))
    if e is not None or ids(got[0]) != ids(ks) or got[1] != len(ks) or ids(got[2]) != ids(ks) or ids(got[3]) != ids(ks):
        report("trav.container-protocol", "__iter__/__len__/__getitem__/getChildren() differ from the child list", W.inp(at={"node": nl, "error": repr(e)}))
    # direct children by flags / type
    for spec, exact in ((fs, ex), (fs, not ex), (None, False), (None, True)):
        at = {"node": nl, "typeSpec": spec_str(spec), "exact": exact}
        exp = [c for c in ks if naive_flags(c, spec, exact)]
        got, e = call(lambda: list(n.iterChildrenWithFlags(spec, exact)))
        got2, e2 = call(lambda: n.getChildrenWithFlags(spec, exact))
        if e or e2:
            report("trav.childrenWithFlags.raised", "raised %r" % (e or e2), W.inp(at=at))
        else:
            cmp_seq(W, got, exp, "trav.iterChildrenWithFlags", "children with flags differ from the filtered child list", at)
            cmp_seq(W, got2, exp, "trav.getChildrenWithFlags", "children with flags differ from the filtered child list", at)
        expc = spec_components(n, lambda o: naive_flags(o, spec, exact))
        got, e = call(lambda: list(n.iterComponents(spec, exact)))
        got2, e2 = call(lambda: n.getComponents(spec, exact))
        if e or e2:
            report("trav.iterComponents.raised", "raised %r" % (e or e2), W.inp(at=at))
        else:
            cmp_seq(W, got, expc, "trav.iterComponents", "leaf components differ from the naive walk", at)
            cmp_seq(W, got2, expc, "trav.getComponents", "leaf components differ from the naive walk", at)
    if all(naive_type(c) is not _NOTYPE for c in ks):
        for name in (tn, naive_type(ks[0]) if ks else "fuel"):
            exp = [c for c in ks if naive_type(c) == name]
            got, e = call(lambda: list(n.iterChildrenOfType(name)))
            got2, e2 = call(lambda: n.getChildrenOfType(name))
            at = {"node": nl, "typeName": name}
            if e or e2:
                report("trav.childrenOfType.raised", "raised %r" % (e or e2), W.inp(at=at))
            else:
                cmp_seq(W, got, exp, "trav.iterChildrenOfType", "children of type differ from the filtered child list", at)
                cmp_seq(W, got2, exp, "trav.getChildrenOfType", "children of type differ from the filtered child list", at)
    # membership / index against identity in the child list
    others = W.U if len(W.U) <= 40 else [W.U[(t * 7 + k * 3) % len(W.U)] for k in range(30)] + ks
    for x in others:
        exp = any(c is x for c in ks)
        got, e = call(lambda: x in n)
        if e is not None or got != exp:
            report("trav.contains", "__contains__ differs from identity membership in the child list", W.inp(at={"node": nl, "item": W.lab(x), "got": repr(got), "error": repr(e)}))
        got, e = call(lambda: n.index(x))
        if exp:
            if e is not None or got != ids(ks).index(id(x)):
                report("trav.index", "index() is not the position in the child list", W.inp(at={"node": nl, "item": W.lab(x), "got": repr(got), "error": repr(e)}))
        elif not isinstance(e, ValueError):
            report("trav.index.non-child", "index() of a non-child must raise ValueError", W.inp(at={"node": nl, "item": W.lab(x), "got": repr(got), "error": repr(e)}))


def check_ancestors(W, x):
    W.tick += 1
    t = W.tick
    chain, a = [], x
    while a is not None and len(chain) <= len(W.U) + 1:
        chain.append(a)
        a = a.parent
    klasses = sorted({type(o) for o in chain} | {Reactor, Gen}, key=lambda k: k.__name__)
    K = klasses[t % len(klasses)]
    target = chain[(t // 3) % len(chain)]
    fns = [("class:" + K.__name__, lambda o: type(o) is K), ("name:" + str(target.name), lambda o: o.name == target.name),
           ("never", lambda o: False), ("many-children", lambda o: len(o) > 1)]
    for fname, fn in fns:
        hit = [(o, d) for d, o in enumerate(chain) if fn(o)]
        exp = hit[0] if hit else None
        at = {"node": W.lab(x), "fn": fname}
        got, e = call(lambda: x.getAncestor(fn))
        if e is not None or got is not (exp[0] if exp else None):
            report("trav.getAncestor", "not the first object on the parent chain satisfying fn", W.inp(at=at, got=W.lab(got), expected=W.lab(exp[0]) if exp else None, error=repr(e)))
        got, e = call(lambda: x.getAncestorAndDistance(fn))
        ok = e is None and ((got is None and exp is None) or (got is not None and exp is not None and got[0] is exp[0] and got[1] == exp[1]))
        if not ok:
            report("trav.getAncestorAndDistance", "not (first object on the parent chain satisfying fn, hops)", W.inp(at=at, got=repr(got), expected=[W.lab(exp[0]), exp[1]] if exp else None, error=repr(e)))
    fs, ex = FLAG_SPECS[t % len(FLAG_SPECS)], bool((t // len(FLAG_SPECS)) % 2)
    for spec, exact in ((fs, ex), (fs, not ex)):
        hit = [o for o in chain if naive_flags(o, spec, exact)]
        got, e = call(lambda: x.getAncestorWithFlags(spec, exactMatch=exact))
        if e is not None or got is not (hit[0] if hit else None):
            report("trav.getAncestorWithFlags", "not the first object on the parent chain with the flags",
                   W.inp(at={"node": W.lab(x), "typeSpec": spec_str(spec), "exact": exact}, got=W.lab(got), expected=W.lab(hit[0]) if hit else None, error=repr(e)))


# ------------------------------------------------------------------------------------------------ contract: copies
def locator_parts(loc):
    """The locator object and, for a multi-location, the locations inside it."""
    if loc is None:
        return []
    return [loc] + list(getattr(loc, "_locations", []))


def check_copy(W, orig, cp, how, preU, pre_grids):
    at = {"subtree": W.lab(orig), "how": how}
    on, cn = spec_nodes(orig), spec_nodes(cp)

    def shape(o, c, top):
        if type(o) is not type(c) or len(kids(o)) != len(kids(c)):
            return "%s vs %s: class/child count" % (W.lab(o), W.lab(c))
        # Core / Reactor.__deepcopy__ rename their copy "<name>-copy" (documented in their __deepcopy__), wherever it sits in the copied subtree
        nameOk = o.name == c.name or (how == "deepcopy" and isinstance(o, (Core, Reactor)) and c.name == o.name + "-copy")
        if not nameOk or naive_type(o) != naive_type(c) or (o.p.flags is None) != (c.p.flags is None) or (o.p.flags is not None and o.p.flags._value != c.p.flags._value):
            return "%s vs %s: name/type/flags" % (W.lab(o), W.lab(c))
        for ko, kc in zip(kids(o), kids(c)):
            r = shape(ko, kc, False)
            if r:
                return r
        return None

    # A component with several locations that was moved to another parent keeps, in its detached multi-location, the very
    # location objects of its former parent's grid (MultiIndexLocation.detachedCopy is shallow).  Re-linking failures of copies
    # of such trees are one failure class of their own (suffix .stale-multilocation).
    stale = ""
    for o in on:
        outer = o.spatialLocator
        if outer is not None and any(inner.grid is not outer.grid for inner in getattr(outer, "_locations", [])):
            stale = ".stale-multilocation"
    r = shape(orig, cp, True)
    if r:
        report("copy.shape", "the copy is not an equal-shaped tree: " + r, W.inp(at=at))
        return
    old = {id(o) for o in preU}
    if any(id(c) in old for c in cn):
        report("copy.shared-node", "the copy shares a node with an existing tree", W.inp(at=at))
    oldState = set()
    for o in preU:
        oldState.add(id(o.p))
        if o.spatialGrid is not None:
            oldState.add(id(o.spatialGrid))
        for l in locator_parts(o.spatialLocator):
            oldState.add(id(l))
        if getattr(o, "material", None) is not None:
            oldState.add(id(o.material))
    for c in cn:
        shared = [nm for nm, v in (("p", c.p), ("spatialGrid", c.spatialGrid), ("material", getattr(c, "material", None)), ("spatialLocator", c.spatialLocator))
                  if v is not None and id(v) in oldState]
        shared += ["spatialLocator[...]" for l in locator_parts(c.spatialLocator)[1:] if id(l) in oldState]
        if shared:
            report("copy.shared-state", "the copy shares %s with an existing object" % shared, W.inp(at=at, node=W.lab(c)))
            break
    for o, c in zip(on, cn):
        for kc in kids(c):
            if kc.parent is not c:
                report("copy.child-parent", "a child of the copy does not point at its new parent", W.inp(at=at, node=W.lab(c), child=W.lab(kc), parent=W.lab(kc.parent)))
        if (o.spatialGrid is None) != (c.spatialGrid is None):
            report("copy.grid-owner", "grid present on only one side", W.inp(at=at, node=W.lab(c)))
        elif c.spatialGrid is not None:
            if c.spatialGrid.armiObject is not c:
                report("copy.grid-owner", "the copied grid does not point at its new owner", W.inp(at=at, node=W.lab(c), owner=W.lab(c.spatialGrid.armiObject)))
            for _ijk, loc in c.spatialGrid.items():
                if loc.grid is not c.spatialGrid:
                    report("copy.grid-locations" + stale, "a location held by the copied grid does not point at it", W.inp(at=at, node=W.lab(c)))
                    break
            for ko, kc in zip(kids(o), kids(c)):
                lo, lc = locator_parts(ko.spatialLocator), locator_parts(kc.spatialLocator)
                if len(lo) != len(lc):
                    report("copy.locator-grid", "locator shape differs", W.inp(at=at, node=W.lab(kc)))
                    continue
                for a, b in zip(lo, lc):
                    if a.grid is o.spatialGrid and b.grid is not c.spatialGrid:
                        report("copy.locator-grid" + stale, "a child locator of the copy is not attached to the new parent's grid", W.inp(at=at, node=W.lab(kc)))
                        break
                    if (a.i, a.j, a.k) != (b.i, b.j, b.k):
                        report("copy.locator-indices", "child locator indices changed", W.inp(at=at, node=W.lab(kc)))
                        break
        m = getattr(c, "material", None)
        if m is not None and getattr(m, "parent", c) is not c:
            report("copy.material-parent", "the copied material does not point at the copied component", W.inp(at=at, node=W.lab(c)))
    if cp.parent is not None:
        report("copy.root-parent", "the copied root has a parent", W.inp(at=at, parent=W.lab(cp.parent)))
    if cp.spatialLocator is not None and cp.spatialLocator.grid is not None:
        report("copy.root-location", "the copied root's locator is still attached to a grid", W.inp(at=at))
    for o in on:
        now = (id(o.spatialGrid), tuple(id(l.grid) for l in locator_parts(o.spatialLocator)), id(o.p))
        if pre_grids.get(id(o)) != now:
            report("copy.original-changed", "copying re-linked the original", W.inp(at=at, node=W.lab(o)))
            break


# ------------------------------------------------------------------------------------------------ operations: model + real call
def model(pre, op, W):
    """Expected (parents, children) after ``op`` on the list model, the set of objects taken out, the set put back."""
    par, ch = list(pre[0]), [list(c) for c in pre[1]]
    out, back = set(), set()
    k = op[0]

    def take(P, X):
        ch[P].remove(X)
        par[X] = None
        out.add(X)
        back.discard(X)

    def put(P, X, i=None):
        ch[P].append(X) if i is None else ch[P].insert(i, X)
        par[X] = P
        back.add(X)
        out.discard(X)

    if k in ("add", "core.add", "sfp.add"):
        put(op[1], op[2])
    elif k == "insert":
        put(op[1], op[3], op[2])
    elif k == "remove":
        take(op[1], op[2])
    elif k == "removeAll":
        for X in list(ch[op[1]]):
            take(op[1], X)
    elif k == "setChildren":
        for X in list(ch[op[1]]):
            take(op[1], X)
        for X in op[2]:
            put(op[1], X)
    elif k == "removeAssembly":
        core = W.U[op[1]]
        take(op[1], op[2])
        sfp = core.parent.excore.get("sfp") if core.parent is not None else None
        if op[3] and core._trackAssems and sfp is not None:
            put(W.pos[id(sfp)], op[2])
    elif k in ("sort", "sortByRing", "deepcopy", "pickle", "reestablish", "place", "add-dup", "insert-dup"):
        pass
    else:
        raise KeyError(k)
    return par, ch, out, back


def do_real(W, op):
    U, k = W.U, op[0]
    if k in ("add", "add-dup", "sfp.add"):
        U[op[1]].add(U[op[2]])
    elif k in ("insert", "insert-dup"):
        U[op[1]].insert(op[2], U[op[3]])
    elif k == "remove":
        U[op[1]].remove(U[op[2]]) if len(op) == 3 else U[op[1]].remove(U[op[2]], recomputeAreaFractions=op[3])
    elif k == "removeAll":
        U[op[1]].removeAll() if len(op) == 2 else U[op[1]].removeAll(recomputeAreaFractions=op[2])
    elif k == "setChildren":
        U[op[1]].setChildren([U[i] for i in op[2]])
    elif k == "sort":
        U[op[1]].sort()
    elif k == "sortByRing":
        U[op[1]].sortAssemsByRing()
    elif k == "deepcopy":
        return copy.deepcopy(U[op[1]])
    elif k == "pickle":
        return pickle.loads(pickle.dumps(U[op[1]], protocol=op[2]))
    elif k == "reestablish":
        U[op[1]].reestablishBlockOrder()
        U[op[1]].calculateZCoords()
    elif k == "place":
        U[op[1]].moveTo(U[op[1]].parent.spatialGrid[tuple(op[2])])
    elif k == "core.add":
        U[op[1]].add(U[op[2]], U[op[1]].spatialGrid[op[3][0], op[3][1], 0])
    elif k == "removeAssembly":
        U[op[1]].removeAssembly(U[op[2]], discharge=op[3])
    elif k == "append":
        U[op[1]].append(U[op[2]])
    elif k == "extend":
        U[op[1]].extend([U[i] for i in op[2]])
    else:
        raise KeyError(k)
    return None


def operands(op):
    """Indices of the objects an operation names."""
    k = op[0]
    if k in ("insert", "insert-dup"):
        return [op[1], op[3]]
    if k in ("setChildren", "extend"):
        return [op[1]] + list(op[2])
    if k in ("add", "add-dup", "sfp.add", "core.add", "remove", "removeAssembly", "append"):
        return [op[1], op[2]]
    return [op[1]]


MISUSE_ID = {"F1": "wf.add-while-attached", "F2": "wf.remove-nonchild", "cycle": "wf.add-own-ancestor", "append": "wf.append-no-parent"}


def sorted_ok(p):
    """Children in non-decreasing order of armi's own ``<`` - only claimed where ``<`` is one consistent order (all children
    components, or all non-components located in one grid)."""
    ks = kids(p)
    comps = [isinstance(c, Component) for c in ks]
    homogeneous = all(comps) or (not any(comps) and len({id(c.spatialLocator.grid) if c.spatialLocator is not None else 0 for c in ks}) <= 1)
    if homogeneous:
        try:
            for a, b in zip(ks, ks[1:]):
                if b < a:
                    return False
        except Exception:  # noqa: BLE001  (not comparable: no order claimed)
            pass
    return all(sorted_ok(c) for c in ks)


def sync_taken(W, pre, post, n0):
    for i in range(n0):
        if pre[0][i] is not None and post[0][i] is None and not any(i in c for c in post[1]):
            W.taken.add(i)
        elif post[0][i] is not None:
            W.taken.discard(i)


def apply_op(W, op, misuse=None, light=False):
    """One real call followed by the whole contract (``light``: only the call, to replay an already checked prefix)."""
    W.ops.append(op if misuse is None else ["misuse", misuse, op])
    if not light:
        key = json.dumps([W.kind, W.build, W.mode, W.ops], default=str)
        B.case(key, sample={"world": W.kind, "mode": W.mode, "ops": list(W.ops)} if len(W.ops) == 4 else None)
        kname = op[0] if misuse is None else "misuse:" + misuse
        COVER["ops"][W.kind + "." + kname] = COVER["ops"].get(W.kind + "." + kname, 0) + 1
    pre = W.snapshot()
    preU = list(W.U)
    subject = W.U[op[1]]
    pre_grids = None
    if op[0] in ("deepcopy", "pickle"):
        pre_grids = {id(o): (id(o.spatialGrid), tuple(id(l.grid) for l in locator_parts(o.spatialLocator)), id(o.p)) for o in spec_nodes(subject)}
    new, exc = call(lambda: do_real(W, op))
    if new is not None:
        W.reg(new)
    W.close()
    post = W.snapshot()
    n0 = len(preU)
    if misuse is not None:
        if misuse == "append" and exc is None:
            # append / extend attach like add does (since fix 4f369f2 / F45 they also set the parent): an object that had
            # been taken out before and is a child again is no longer 'taken out'
            sync_taken(W, pre, post, n0)
        bad = wf_violations(W)
        if bad:
            report(MISUSE_ID[misuse] + ("." + op[0] if misuse == "F1" else ""),
                   "API misuse (%s) left a malformed tree: %s" % (op[0], "; ".join("%s: %s" % b for b in bad[:4])),
                   W.inp(raised=repr(exc), clauses=sorted({b[0] for b in bad})))
        return False  # a misuse ends the sequence
    # ---- view: the list model
    k = op[0]
    if light:
        if exc is None and k not in ("add-dup", "insert-dup"):
            _p, _c, out, back = model(pre, op, W)
            W.taken |= out
            W.taken -= back
        elif exc is not None:
            sync_taken(W, pre, post, n0)
        return True
    if exc is not None:
        RAISED["%s.%s:%s" % (W.kind, k, type(exc).__name__)] = RAISED.get("%s.%s:%s" % (W.kind, k, type(exc).__name__), 0) + 1
        if os.environ.get("C01_SHOW_RAISED") == "%s.%s:%s" % (W.kind, k, type(exc).__name__):
            import traceback

            sys.stderr.write(json.dumps(W.inp()) + "\n" + "".join(traceback.format_exception(type(exc), exc, exc.__traceback__)[-6:]))
    if k in ("add-dup", "insert-dup"):
        if not isinstance(exc, RuntimeError) or (post[0][:n0], post[1][:n0]) != pre:
            report("view.duplicate-not-refused", "adding a current child again must raise RuntimeError and change nothing", W.inp(raised=repr(exc)))
    elif exc is None:
        epar, ech, out, back = model(pre, op, W)
        if k in ("sort", "sortByRing"):
            same = post[0][:n0] == epar and all(sorted(a) == sorted(b) for a, b in zip(post[1][:n0], ech))
            if not same:
                report("view.sort-permutation", "sort must permute child lists only", W.inp())
            elif k == "sort" and not sorted_ok(subject):
                report("view.sort-order", "after sort() some child is < its predecessor", W.inp())
        elif (post[0][:n0], post[1][:n0]) != (epar, ech):
            diff = [{"node": W.lab(W.U[i]), "children": post[1][i], "expected": ech[i]} for i in range(n0) if post[1][i] != ech[i]][:3]
            diff += [{"node": W.lab(W.U[i]), "parent": post[0][i], "expected": epar[i]} for i in range(n0) if post[0][i] != epar[i]][:3]
            report("view." + k, "child lists / parents after the call differ from the list model (effect or frame)", W.inp(diff=diff))
        W.taken |= out
        W.taken -= back
    else:
        # a refused or half-done call: no view claim; whatever happened, the tree must be well formed (below).  Objects that
        # did end up without a parent after being a child count as taken out.
        if W.kind in ("generic", "mini") and not (k in ("sort", "place")):
            report("view.%s.raised" % k, "a precondition-respecting edit of plain composites raised %r" % exc, W.inp())
        sync_taken(W, pre, post, n0)
    # ---- well-formedness of everything
    for clause, detail in wf_violations(W)[:3]:
        report("wf." + clause, "after %s: %s" % (k, detail), W.inp(raised=repr(exc)))
    # ---- copies
    if new is not None and exc is None:
        check_copy(W, subject, new, k, preU, pre_grids)
    elif k in ("deepcopy", "pickle"):
        report("copy.raised", "copying a subtree raised %r" % exc, W.inp(at={"subtree": W.lab(subject), "how": k}))
    # ---- traversals on everything the call can have affected (+ two bystanders)
    if any(c == "cycle" for c, _ in wf_violations(W)):
        return False
    touched = [W.U[i] for i in operands(op)]
    if new is not None:
        touched.append(new)
    todo, seen = [], set()
    for o in touched:
        a = o
        while a is not None:
            if id(a) not in seen:
                seen.add(id(a))
                todo.append(a)
            a = a.parent
    rng = random.Random(len(W.ops) * 7919 + W.build)
    for o in [rng.choice(W.U), rng.choice(W.U)]:
        if id(o) not in seen:
            seen.add(id(o))
            todo.append(o)
    for o in todo:
        check_traversals(W, o)
    anc = list(touched)
    for o in touched:
        sub = spec_nodes(o)
        anc += [sub[-1], sub[len(sub) // 2]]
    for o in anc[:8]:
        check_ancestors(W, o)
    return True


# ------------------------------------------------------------------------------------------------ sequence generation
def accepts(W, P, X, extra=0):
    """May X become a child of P within the bounds / the kinds of objects armi puts together?"""
    if isinstance(P, Component) or X is P:
        return False
    if isinstance(P, Gen):
        if not isinstance(X, (Gen, Component)) or len(kids(P)) + extra >= MAXCH:
            return False
        return depth(P) + 1 + height(X) <= MAXLEVEL
    rp, rx = rank(P), rank(X)
    if rp is None or rx is None or rp != rx + 1 or rp not in (1, 2, 3):
        return False
    return len(kids(P)) + extra < {1: 8, 2: 4, 3: 4}[rp]


def free_core_cell(core, rng):
    cells = [(1, 0), (0, 1), (-1, 1), (-1, 0), (0, -1), (1, -1), (2, 0), (0, 2)]
    rng.shuffle(cells)
    used = {(l.i, l.j) for l in core.childrenByLocator if l is not None}
    for c in cells:
        if c not in used:
            return list(c)
    return list(cells[0])


def gen_ops(W, rng):
    """One well-formed edit = a list of 1 or 2 primitive calls (each is checked separately)."""
    U, pos = W.U, W.pos
    conts = [o for o in U if not isinstance(o, (Component, Reactor))]
    roots = [o for o in U if o.parent is None and not isinstance(o, Reactor)]
    for _ in range(60):
        kind = rng.choices(["add", "insert", "remove", "removeAll", "setChildren", "replace", "reorder", "move", "sort", "copy", "place",
                            "reestablish", "dup", "core"], weights=[14, 16, 12, 3, 6, 8, 8, 8, 6, 8, 4, 3, 3, 10 if W.kind == "core" else 0])[0]
        P = rng.choice(conts)
        ks = kids(P)
        isCore, isSfp, isBlock = isinstance(P, Core), isinstance(P, ExcoreStructure), isinstance(P, blocks.Block)
        cand = [x for x in roots if accepts(W, P, x) and root_of(P) is not x]
        if isCore and P.parent is None:
            continue
        if kind == "add" and cand:
            X = rng.choice(cand)
            if isCore:
                return [["core.add", pos[id(P)], pos[id(X)], free_core_cell(P, rng)]]
            return [["sfp.add" if isSfp else "add", pos[id(P)], pos[id(X)]]]
        if kind == "insert" and cand and not isCore and not isSfp:
            return [["insert", pos[id(P)], rng.randint(-(len(ks) + 2), len(ks) + 2), pos[id(rng.choice(cand))]]]
        if kind == "remove" and ks:
            X = rng.choice(ks)
            if isCore and rng.random() < 0.7 and X.spatialLocator in P.childrenByLocator:
                return [["removeAssembly", pos[id(P)], pos[id(X)], rng.random() < 0.5]]
            return [["remove", pos[id(P)], pos[id(X)]] + ([rng.random() < 0.5] if isBlock else [])]
        if kind == "removeAll" and ks:
            return [["removeAll", pos[id(P)]] + ([rng.random() < 0.5] if isBlock else [])]
        if kind == "setChildren" and not isCore and not isSfp:
            pool = ks + [x for x in roots if accepts(W, P, x, extra=-len(ks)) and root_of(P) is not x]
            rng.shuffle(pool)
            items = pool[: rng.randint(0, min(len(pool), MAXCH))]
            return [["setChildren", pos[id(P)], [pos[id(x)] for x in items]]]
        if kind == "replace" and ks and not isCore and not isSfp:
            X = rng.choice(ks)
            cand2 = [x for x in roots if accepts(W, P, x, extra=-1) and root_of(P) is not x]
            if cand2:
                i = ids(ks).index(id(X))
                return [["remove", pos[id(P)], pos[id(X)]] + ([False] if isBlock else []), ["insert", pos[id(P)], i, pos[id(rng.choice(cand2))]]]
        if kind == "reorder" and len(ks) >= 2 and not isCore and not isSfp:
            if rng.random() < 0.5:
                perm = list(ks)
                rng.shuffle(perm)
                return [["setChildren", pos[id(P)], [pos[id(x)] for x in perm]]]
            X = rng.choice(ks)
            out = [["remove", pos[id(P)], pos[id(X)]] + ([False] if isBlock else []), ["insert", pos[id(P)], rng.randint(-len(ks), len(ks)), pos[id(X)]]]
            if isinstance(P, assemblies.Assembly):
                out.append(["reestablish", pos[id(P)]])
            return out
        if kind == "move" and ks and not isCore:
            X = rng.choice(ks)
            dest = [q for q in conts if q is not P and accepts(W, q, X) and q not in spec_nodes(X) and not isinstance(q, (Core, ExcoreStructure))]
            if dest:
                Q = rng.choice(dest)
                return [["remove", pos[id(P)], pos[id(X)]] + ([rng.random() < 0.5] if isBlock else []), ["add", pos[id(Q)], pos[id(X)]]]
        if kind == "sort" and ks:
            if isCore and rng.random() < 0.5:
                return [["sortByRing", pos[id(P)]]]
            return [["sort", pos[id(P)]]]
        if kind == "copy" and W.ncopies < MAXCOPIES:
            X = rng.choice(U)
            if len(spec_nodes(X)) <= 30:
                W.ncopies += 1
                return [["deepcopy", pos[id(X)]] if rng.random() < 0.5 else ["pickle", pos[id(X)], rng.choice([2, pickle.HIGHEST_PROTOCOL])]]
        if kind == "place" and ks and isinstance(P, Gen) and P.spatialGrid is not None:
            return [["place", pos[id(rng.choice(ks))], [rng.randint(-2, 2), rng.randint(-2, 2), 0]]]
        if kind == "reestablish" and isinstance(P, assemblies.Assembly):
            return [["reestablish", pos[id(P)]]]
        if kind == "dup" and ks and not isCore and not isSfp:
            X = rng.choice(ks)
            return [["add-dup", pos[id(P)], pos[id(X)]] if rng.random() < 0.5 else ["insert-dup", pos[id(P)], rng.randint(-1, len(ks)), pos[id(X)]]]
        if kind == "core" and W.kind == "core":
            cores = [o for o in U if isinstance(o, Core) and o.parent is not None]
            if cores:
                C = rng.choice(cores)
                spare = [x for x in roots if isinstance(x, assemblies.Assembly)]
                if spare and len(kids(C)) < 4 and rng.random() < 0.6:
                    return [["core.add", pos[id(C)], pos[id(rng.choice(spare))], free_core_cell(C, rng)]]
                inside = [a for a in kids(C) if a.spatialLocator in C.childrenByLocator]
                if inside:
                    return [["removeAssembly", pos[id(C)], pos[id(rng.choice(inside))], rng.random() < 0.6]]
    return [["sort", pos[id(conts[0])]]]


def gen_misuse(W, rng, misuse):
    U, pos = W.U, W.pos
    conts = [o for o in U if not isinstance(o, (Component, Reactor))]
    for _ in range(200):
        P = rng.choice(conts)
        if misuse == "F1":
            attached = [x for x in U if x.parent is not None and x.parent is not P and P not in spec_nodes(x) and accepts(W, P, x) and not isinstance(P, (Core, ExcoreStructure))]
            if attached:
                X = rng.choice(attached)
                how = rng.choice(["add", "add", "insert", "setChildren"])
                if how == "add":
                    return ["add", pos[id(P)], pos[id(X)]]
                if how == "insert":
                    return ["insert", pos[id(P)], rng.randint(-1, len(kids(P)) + 1), pos[id(X)]]
                return ["setChildren", pos[id(P)], [pos[id(c)] for c in kids(P)][:2] + [pos[id(X)]]]
        elif misuse == "F2":
            others = [x for x in U if x.parent is not None and x.parent is not P and rank(x) == (rank(kids(P)[0]) if kids(P) else rank(x)) and not isinstance(x, (Core, ExcoreStructure))]
            if not isinstance(P, (Core, ExcoreStructure)) and others:
                X = rng.choice(others)
                return ["remove", pos[id(P)], pos[id(X)]] + ([False] if isinstance(P, blocks.Block) else [])
        elif misuse == "cycle":
            chain, a = [], P
            while a is not None:
                chain.append(a)
                a = a.parent
            chain = [a for a in chain if not isinstance(a, (Reactor, Core, ExcoreStructure))]
            if chain and not isinstance(P, (Core, ExcoreStructure)):
                return ["add", pos[id(P)], pos[id(rng.choice(chain))]]
        elif misuse == "append":
            roots = [x for x in U if x.parent is None and accepts(W, P, x) and root_of(P) is not x]
            if roots:
                X = rng.choice(roots)
                return ["append", pos[id(P)], pos[id(X)]] if rng.random() < 0.5 else ["extend", pos[id(P)], [pos[id(X)]]]
    return None


def new_world(kind, build, mode):
    if mode == "insert-sweep":
        return sweep_world(kind, build)
    W = World(kind, build, mode)
    BUILDERS[kind](W, random.Random(build))
    W.close()
    return W


def initial_checks(W):
    for clause, detail in wf_violations(W)[:3]:
        report("init.wf." + clause, "the freshly built tree is not well formed: " + detail, W.inp())
    for o in [x for x in W.U if x.parent is None]:
        check_traversals(W, o)


def run_sequence(kind, build, mode, length):
    """A crash of the harness itself (armi cannot even build the tree) is reported, never swallowed."""
    try:
        _run_sequence(kind, build, mode, length)
    except Exception as e:  # noqa: BLE001
        import traceback

        tb = traceback.extract_tb(e.__traceback__)
        where = ["%s:%d %s" % (os.path.basename(f.filename), f.lineno, f.name) for f in tb[-4:]]
        report("harness.sequence-crashed." + kind, "building or checking a sequence raised %r" % e,
               {"world": kind, "build": build, "mode": mode, "length": length, "where": where})


def _run_sequence(kind, build, mode, length):
    W = new_world(kind, build, mode)
    rng = random.Random(build * 31 + length)
    if mode == "wellformed":
        initial_checks(W)
    ncopy = 2 if mode == "wellformed" and length >= 4 else 0  # the last two calls: deepcopy and pickle of some subtree
    nwf = length - ncopy if mode == "wellformed" else rng.randint(0, max(0, length - 1))
    done = 0
    while done < nwf:
        for op in gen_ops(W, rng):
            if not apply_op(W, op):
                return
            done += 1
    for how in (["deepcopy"], ["pickle", rng.choice([2, pickle.HIGHEST_PROTOCOL])])[:ncopy]:
        attached = [o for o in W.U if o.parent is not None and len(spec_nodes(o)) <= 30]
        X = rng.choice(attached if attached and rng.random() < 0.75 else [o for o in W.U if len(spec_nodes(o)) <= 60])
        if not apply_op(W, [how[0], W.pos[id(X)]] + how[1:]):
            return
    if mode != "wellformed":
        op = gen_misuse(W, rng, mode)
        if op is None:
            COVER["misuse_not_applicable"] = COVER.get("misuse_not_applicable", 0) + 1
            return
        apply_op(W, op, misuse=mode)


def replay(inp):
    before = sum(COUNTS.values())
    W = new_world(inp["world"], inp["build"], inp.get("mode", "wellformed"))
    for op in inp["ops"]:
        if op and op[0] == "misuse":
            apply_op(W, op[2], misuse=op[1])
            break
        if not apply_op(W, op):
            break
    failed = sum(COUNTS.values()) > before
    sys.stdout = _REAL_STDOUT
    print(json.dumps({"result": "fail" if failed else "pass", "violations": B.violations[:5]}, default=str))


# ------------------------------------------------------------------------------------------------ enumerated parts
def sweep_world(kind, n):
    """A parent (object 0) with n children and one spare child (object ``W.spare``)."""
    W = World(kind, n, "insert-sweep")
    rng = random.Random(n)
    if kind == "generic":
        P = Gen("P")
        P.setType("fuel")
        cs = []
        for k in range(n + 1):
            c = Gen("c%d" % k)
            c.setType(["fuel", "clad", "duct"][k % 3])
            cs.append(c)
    elif kind == "block":
        P = blocks.HexBlock("P", height=10.0)
        P.setType("fuel")
        cs = [Circle("c%d" % k, "HT9", 25.0, 25.0, od=1.0 + k, id=0.0, mult=1.0) for k in range(n + 1)]
    else:
        P = assemblies.HexAssembly("fuel", assemNum=7)
        P.spatialGrid = grids.AxialGrid.fromNCells(n)
        P.spatialGrid.armiObject = P
        cs = [mk_block("b%d" % k, rng, small=True) for k in range(n + 1)]
    for c in cs[:n]:
        P.add(c)
    W.reg(P)
    W.reg(cs[n])
    W.close()
    W.spare = W.pos[id(cs[n])]
    return W


def insert_sweep():
    """Every index value for insert (negative, in range, beyond the end) on Composite, HexBlock and HexAssembly."""
    for kind in ("generic", "block", "assembly"):
        for n in range(0, 5):
            for idx in range(-(n + 2), n + 3):
                W = sweep_world(kind, n)
                apply_op(W, ["insert", 0, idx, W.spare])


def mini_enumeration(maxlen):
    """Every sequence of <= maxlen primitive well-formed edits on the 5-node / 2-parent generic tree."""
    def options(W):
        U, pos = W.U, W.pos
        conts = [o for o in U if isinstance(o, Gen) and o.name in ("P", "Q", "t")]
        roots = [o for o in U if o.parent is None]
        out = []
        for P in conts:
            ks = kids(P)
            for X in roots:
                if X is not root_of(P) and accepts(W, P, X) and X.name not in ("P", "Q"):
                    out.append(["add", pos[id(P)], pos[id(X)]])
                    out.append(["insert", pos[id(P)], -1 if ks else 3, pos[id(X)]])
            for X in ks:
                out.append(["remove", pos[id(P)], pos[id(X)]])
            if ks:
                out.append(["removeAll", pos[id(P)]])
                out.append(["sort", pos[id(P)]])
            if len(ks) >= 2:
                out.append(["setChildren", pos[id(P)], [pos[id(x)] for x in reversed(ks)]])
        out.append(["deepcopy", 0])
        return out

    def rec(prefix):
        if time.thread_time() - C0 > BUDGET:
            COVER["time_budget_hit"] = True
            return
        if prefix and prefix[-1][0] == "deepcopy" and sum(1 for o in prefix if o[0] == "deepcopy") > 1:
            return
        W = new_world("mini", 0, "enumerated")
        ok = True
        for op in prefix[:-1]:  # already checked as a shorter prefix: replay without the contract
            apply_op(W, op, light=True)
        if prefix:
            ok = apply_op(W, prefix[-1])
        if ok and len(prefix) < maxlen:
            for op in options(W):
                rec(prefix + [op])

    rec([])


# ------------------------------------------------------------------------------------------------ main
if B.replay is not None:
    replay(B.replay)
    os.chdir("/")
    sys.exit(0)

insert_sweep()
multilocation_move()
mini_enumeration(4 if THOROUGH else 3)
PLAN = {  # (tree kind, mode) -> number of sequences
    "quick": {"generic": 300, "block": 150, "assembly": 150, "core": 120, "misuse": 6},
    "thorough": {"generic": 4000, "block": 2000, "assembly": 2000, "core": 1600, "misuse": 40},
}["thorough" if THOROUGH else "quick"]
for kind in ("generic", "block", "assembly", "core"):
    for s in range(PLAN[kind]):
        if time.thread_time() - C0 > BUDGET:
            COVER["time_budget_hit"] = True
            break
        run_sequence(kind, B.rng.randrange(1 << 30), "wellformed", 2 + (s % (LMAX - 1)))
    for mode in ("F1", "F2", "cycle", "append"):
        for s in range(PLAN["misuse"]):
            run_sequence(kind, B.rng.randrange(1 << 30), mode, 1 + (s % 4))

B.extra["violation_counts"] = COUNTS
B.extra["exceptions_in_wellformed_sequences"] = RAISED
B.extra["operations_applied"] = COVER["ops"]
B.extra["traversal_combinations_hit"] = len(COVER["trav_combos"])
B.extra["type_predicate_skipped_no_type_param"] = COVER["skipped_type_predicate"]
B.extra["max_objects_in_a_scenario"] = COVER["nodes_max"]
B.extra["time_budget_hit"] = COVER.get("time_budget_hit", False)
B.extra["misuse_not_applicable"] = COVER.get("misuse_not_applicable", 0)
os.chdir("/")
sys.stdout = _REAL_STDOUT
B.finish(exhaustive=False)
