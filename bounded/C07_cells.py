"""C07 bounded tier: all cells within N rings (exhaustive within the bound), labels, locator objects, reduce().

Executable forms of the contract clauses that involve string formatting, dictionaries of locator objects and
numpy-based reconstruction - outside the deductive subset.  Bounded: N rings.
"""
import math
import sys, os
sys.path.insert(0, os.path.dirname(os.path.abspath(__file__)))
from common import Bounded, armi_ready

armi_ready()
import numpy as np
from armi.reactor import grids
from armi.reactor.grids import locatorLabelToIndices
from armi.utils import hexagon

B = Bounded("every cell (i,j,k) with |i|,|j| <= N, k < 3 of hex (both orientations), Cartesian (centred/offset), axial and theta-RZ grids; "
            "non-trivial = distinct (grid kind, cell)", "N rings: quick 12, thorough 40")
N = 40 if B.thorough() else 12


def same(a, b):
    return np.allclose(np.asarray(a, dtype=float), np.asarray(b, dtype=float), rtol=1e-12, atol=1e-12)


def rebuilt(g):
    return type(g)(**g.reduce()._asdict())


def check_grid(name, g, cells):
    g2 = rebuilt(g)
    B.check(g2.reduce() == g.reduce() or str(g2.reduce()) == str(g.reduce()), name + ".reduce-fixpoint", "reduce() of the rebuilt grid differs", name)
    B.check(g2._symmetry == g._symmetry and g2._geomType == g._geomType and g2.isAxialOnly == g.isAxialOnly, name + ".reduce-meta", "metadata changed by rebuild", name)
    for idx in cells:
        B.case((name, idx), {"grid": name, "cell": idx})
        loc = g[idx]
        B.check(tuple(loc.indices) == tuple(idx) and loc.grid is g and g[idx] is loc, name + ".locator", "grid[idx] is not a stable locator with those indices", [name, idx])
        c = g.getCoordinates(idx)
        B.check(same(c, g2.getCoordinates(idx)) and same(g.getCellBase(idx), g2.getCellBase(idx)) and same(g.getCellTop(idx), g2.getCellTop(idx)),
                name + ".reduce-coords", "rebuilt grid gives different coordinates", [name, idx])
        B.check(same(loc.getLocalCoordinates(), c), name + ".local", "locator local coordinates differ from grid coordinates", [name, idx])
        # labels
        lab = g.getLabel(idx)
        try:
            back = locatorLabelToIndices(lab)
        except ValueError as e:
            back = "ValueError: %s" % e
        if isinstance(g, grids.HexGrid):
            ring, pos = g.getRingPos(idx)
            B.check(back == (ring, pos, idx[2]), name + ".label", "label does not read back to (ring,pos,k)", [name, idx, lab])
            B.check(g.getLocatorFromRingAndPos(ring, pos, idx[2]) is loc, name + ".ringpos-locator", "locator from ring/pos is not the cell's locator", [name, idx])
            B.check(g.indicesToRingPos(*g.getIndicesFromRingAndPos(ring, pos)) == (ring, pos), name + ".ringpos", "ring/pos round trip", [name, idx])
        elif min(idx) >= 0:
            B.check(back == tuple(idx), name + ".label", "label does not read back to the indices", [name, idx, lab])
        else:
            B.check(back == tuple(idx), name.split("-")[0] + ".label-negative-index", "label of a cell with a negative index does not read back", [name, idx, lab, back])


rng = range(-N, N + 1)
hexcells = [(i, j, k) for i in rng for j in rng for k in (0, 2) if max(abs(i), abs(j), abs(i + j)) < N]
for cu in (False, True):
    for pitch in (1.0, 16.79):
        check_grid("hex-%s-%s" % ("corners" if cu else "flats", pitch), grids.HexGrid.fromPitch(pitch, numRings=3, cornersUp=cu, symmetry="third periodic"), hexcells)
cart = [(i, j, k) for i in rng for j in rng for k in (0, 1)]
for off in (False, True):
    check_grid("cart-offset%s" % off, grids.CartesianGrid.fromRectangle(1.26, 2.5, numRings=3, isOffset=off, symmetry="quarter reflective"), cart)
ax = grids.AxialGrid.fromNCells(7)
check_grid("axial", ax, [(0, 0, k) for k in range(7)])
trz = grids.ThetaRZGrid(bounds=(np.linspace(0, 2 * math.pi, 7), np.array([0.0, 1.5, 2.0, 7.25]), np.array([0.0, 10.0, 25.0])))
check_grid("thetarz", trz, [(i, j, k) for i in range(6) for j in range(3) for k in range(2)])
# grids that are NOT at the origin / not uniformly spaced (assumption review: every grid above has a zero offset apart from the
# half-pitch Cartesian one, ascending uniform bounds, and hex cells at k >= 0): offsets with all three components,
# irregular and non-monotone bounds, negative axial indices on step-defined axes
M = 4
small = [(i, j, k) for i in range(-M, M + 1) for j in range(-M, M + 1) for k in (-1, 0, 2)]
for cu in (False, True):
    us = grids.HexGrid._getRawUnitSteps(3.7, cu)
    check_grid("hex-%s-offset" % ("corners" if cu else "flats"),
               grids.HexGrid(unitSteps=us, unitStepLimits=((-2, 3), (-2, 3), (0, 1)), offset=(0.3, -1.2, 5.0), symmetry="full"), small)
check_grid("cart-anyoffset", grids.CartesianGrid(unitSteps=((1.26, 0.0, 0.0), (0.0, 2.5, 0.0), (0, 0, 0)), unitStepLimits=((-2, 3), (-2, 3), (0, 1)),
                                                  offset=(0.7, -0.2, 3.0), symmetry="full"), small)
check_grid("axial-irregular-offset", grids.AxialGrid(bounds=(None, None, np.array([-3.0, 0.0, 0.5, 0.5, 12.0, 11.0])), offset=(1.0, -2.0, 0.25)),
           [(0, 0, k) for k in range(5)])
check_grid("thetarz-offset", grids.ThetaRZGrid(bounds=(np.array([0.0, 0.5, 0.75, 3.0]), np.array([0.0, 1.5, 2.0]), np.array([-5.0, 10.0, 25.0])), offset=(0.25, 1.0, -2.0)),
           [(i, j, k) for i in range(3) for j in range(2) for k in range(2)])
# hex ring bookkeeping, exhaustively within N rings: positions of ring r are exactly the cells at distance r-1, each once
for ring in range(1, N + 1):
    n = hexagon.numPositionsInRing(ring)
    cells = {grids.HexGrid.getIndicesFromRingAndPos(ring, p) for p in range(1, n + 1)}
    B.case(("ring", ring))
    B.check(len(cells) == n and all(max(abs(i), abs(j), abs(i + j)) == ring - 1 for i, j in cells), "ring-cells", "ring does not enumerate its cells once", ring)
    B.check(hexagon.totalPositionsUpToRing(ring) == sum(hexagon.numPositionsInRing(r) for r in range(1, ring + 1)), "ring-total", "total positions", ring)
for n in range(0, 3 * N * N):
    R = hexagon.numRingsToHoldNumCells(n)
    B.case(("minrings", n), nontrivial=False)
    B.check((n == 0 and R == 0) or (hexagon.totalPositionsUpToRing(R) >= n and (R == 1 or hexagon.totalPositionsUpToRing(R - 1) < n)), "minrings", "least ring count", n)
B.finish(exhaustive=False)
